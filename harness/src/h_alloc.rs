// Counting global allocator of the harness binary (shared by every case kind).
//
// The `#[global_allocator]` below wraps `std::alloc::System` and records the LARGEST SINGLE
// request (in bytes) made through `alloc`, `alloc_zeroed` or `realloc` since the last `reset()`.
// It never refuses a request and adds no bookkeeping allocations of its own.
//
// API (keep it this small; other kinds reuse it):
//     h_alloc::reset();                    // forget everything seen so far
//     let r = library_call(..);            // the code under observation
//     let n = h_alloc::max_request();      // largest single request made in between (0 = none)
//
// The harness is single-threaded, so the window between `reset()` and `max_request()` contains
// exactly the allocations of the observed call (plus whatever the kind itself allocates in
// between - keep token parsing before `reset()` and formatting after `max_request()`).
// A panic inside the observed call is caught in main.rs and printed as `PANIC`; the counter is
// simply reset by the next case.
use std::alloc::{GlobalAlloc, Layout, System};
use std::sync::atomic::{AtomicUsize, Ordering};

pub struct Counting;

static MAX_REQUEST: AtomicUsize = AtomicUsize::new(0);

#[inline]
fn note(size: usize) {
    MAX_REQUEST.fetch_max(size, Ordering::Relaxed);
}

unsafe impl GlobalAlloc for Counting {
    unsafe fn alloc(&self, layout: Layout) -> *mut u8 {
        note(layout.size());
        System.alloc(layout)
    }
    unsafe fn alloc_zeroed(&self, layout: Layout) -> *mut u8 {
        note(layout.size());
        System.alloc_zeroed(layout)
    }
    unsafe fn realloc(&self, ptr: *mut u8, layout: Layout, new_size: usize) -> *mut u8 {
        note(new_size);
        System.realloc(ptr, layout, new_size)
    }
    unsafe fn dealloc(&self, ptr: *mut u8, layout: Layout) {
        System.dealloc(ptr, layout)
    }
}

#[global_allocator]
static GLOBAL: Counting = Counting;

/// Forget every request seen so far.
pub fn reset() {
    MAX_REQUEST.store(0, Ordering::Relaxed);
}

/// Largest single allocation request (bytes) since the last `reset()`.
pub fn max_request() -> usize {
    MAX_REQUEST.load(Ordering::Relaxed)
}
