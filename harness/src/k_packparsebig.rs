// C05 (pack part): fe9_arc::parse on a LARGE well-formed image (more than 4096 entries); same call and output line as
// kind packparse, but the model is not run on it (quadratic list reads) - implementation + oracle (reference reader) only.
// case: packparsebig B<bytes>
pub fn run(toks: &[&str]) -> String {
    crate::k_packparse::run(toks)
}
