// C05 (text part): TextArchive::from_bytes on arbitrary bytes with the largest single allocation request made
// during the PARSE call (counting allocator, h_alloc; the re-serialization of an accepted input is outside the window).
//   txtfa <U|S> <L|B> B<file>
// Output: <output of kind txtf> maxalloc=<n>
use crate::h_alloc;
use crate::h_txt::*;
use crate::h_util::*;
use mila::TextArchive;

pub fn run(toks: &[&str]) -> String {
    let fmt = fmt_of(toks[0]);
    let endian = endian_of(toks[1]);
    let file = parse_b(toks[2]);
    h_alloc::reset();
    let r = TextArchive::from_bytes(&file, fmt, endian);
    let mx = h_alloc::max_request();
    format!("{} maxalloc={}", report_parsed(fmt, r), mx)
}
