// C14: path localisation.  case: <game 0..5> <lang 0..7> <path as L-list>
use crate::h_util::*;
use mila::*;

pub fn localizer(g: u64) -> PathLocalizer {
    match g {
        0 => PathLocalizer::NoOp(NoOpPathLocalizer {}),
        1 => PathLocalizer::FE9(FE9PathLocalizer {}),
        2 => PathLocalizer::FE10(FE10PathLocalizer {}),
        3 => PathLocalizer::FE13(FE13PathLocalizer {}),
        4 => PathLocalizer::FE14(FE14PathLocalizer {}),
        _ => PathLocalizer::FE15(FE15PathLocalizer {}),
    }
}

pub fn language(l: u64) -> Language {
    match l {
        0 => Language::EnglishNA,
        1 => Language::EnglishEU,
        2 => Language::Japanese,
        3 => Language::Spanish,
        4 => Language::French,
        5 => Language::Italian,
        6 => Language::German,
        _ => Language::Dutch,
    }
}

pub fn run(toks: &[&str]) -> String {
    let g: u64 = toks[0].parse().unwrap();
    let l: u64 = toks[1].parse().unwrap();
    let path = str_of_l(toks[2]);
    match localizer(g).localize(&path, &language(l)) {
        Ok(s) => format!("ok {}", show_str(&s)),
        Err(LocalizationError::MissingParent(_)) => "err missing-parent".to_string(),
        Err(LocalizationError::MissingFileName(_)) => "err missing-file-name".to_string(),
        Err(LocalizationError::UnsupportedLanguage) => "err unsupported-language".to_string(),
        Err(_) => "err other".to_string(),
    }
}
