// Shared by the LZ kinds (C08-C11): result printing.
#![allow(dead_code)]
use crate::h_util::show_b;

/// FNV-1a 64 of a byte string (used to report large outputs compactly; the Python oracle computes the same).
pub fn fnv64(b: &[u8]) -> u64 {
    let mut h: u64 = 0xcbf29ce484222325;
    for x in b {
        h ^= *x as u64;
        h = h.wrapping_mul(0x100000001b3);
    }
    h
}

/// `B<hex>` when `full`, else `H<len>:<fnv64>`.
pub fn show_bytes(b: &[u8], full: bool) -> String {
    if full {
        show_b(b)
    } else {
        format!("H{}:{:016x}", b.len(), fnv64(b))
    }
}

/// compress, then decompress the result with the same format object; canonical line
/// `ok B<compressed> rt:same` | `ok B<compressed> rt:ok:B<other bytes>` | `ok B<compressed> rt:err` | `err`
pub fn compress_line<C, D, E1, E2>(input: &[u8], compress: C, decompress: D) -> String
where
    C: Fn(&[u8]) -> Result<Vec<u8>, E1>,
    D: Fn(&[u8]) -> Result<Vec<u8>, E2>,
{
    match compress(input) {
        Err(_) => "err".to_string(),
        Ok(c) => {
            // a decompress call that FAILS after having produced some output precedes the round trip: state left behind by
            // a rejected stream (seeded change C08-3: a thread-local scratch buffer cleared only on success) must not leak
            let _ = decompress(&[0x10, 0x10, 0, 0, 0x00, 1, 2, 3]);
            let _ = decompress(&[0x13, 0, 0, 0, 0x11, 0x10, 0, 0, 0x00, 1, 2, 3]);
            let rt = match decompress(&c) {
                Err(_) => "rt:err".to_string(),
                Ok(d) => {
                    if d == input {
                        "rt:same".to_string()
                    } else {
                        format!("rt:ok:{}", show_b(&d))
                    }
                }
            };
            format!("ok {} {}", show_b(&c), rt)
        }
    }
}
