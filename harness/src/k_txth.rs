// C06/C07 link: a history of in-memory API calls on an archive of either format, then serialize -> from_bytes.
//   txth <U|S> <L|B> (S L<key> L<msg> | D L<key> | T L<title> | H L<key> | G L<key> | R | Z)*      strings = Unicode scalar values; R = save and load again; Z = serialize, discard
// Output:  ser=ok:B<image> | parse=ok d<dirty> T=L<title> [L<key>=L<msg> ...]
use crate::h_txt::*;
use crate::h_util::*;
use mila::TextArchive;

pub fn run(toks: &[&str]) -> String {
    let fmt = fmt_of(toks[0]);
    let endian = endian_of(toks[1]);
    let mut t = TextArchive::new(fmt, endian);
    let mut i = 2;
    while i < toks.len() {
        match toks[i] {
            "S" => {
                t.set_message(&str_of_l(toks[i + 1]), &str_of_l(toks[i + 2]));
                i += 3;
            }
            "D" => {
                t.delete_message(&str_of_l(toks[i + 1]));
                i += 2;
            }
            "T" => {
                t.set_title(str_of_l(toks[i + 1]));
                i += 2;
            }
            "H" => {
                let _ = t.has_message(&str_of_l(toks[i + 1]));
                i += 2;
            }
            "G" => {
                let _ = t.get_message(&str_of_l(toks[i + 1]));
                i += 2;
            }
            // reload: the archive is saved and loaded again in the middle of the history (serialize -> from_bytes); by the
            // round trip this changes nothing but the dirty flag, so the model treats it as a no-op
            "R" => {
                let b = match t.serialize() {
                    Ok(b) => b,
                    Err(e) => return format!("ser={}", terr(&e)),
                };
                t = match TextArchive::from_bytes(&b, fmt, endian) {
                    Ok(p) => p,
                    Err(e) => return format!("reload={}", terr(&e)),
                };
                i += 1;
            }
            // serialize and throw the image away: a later serialize must still describe the CURRENT content (seeded change
            // C07-7 memoised the image and forgot to drop it in delete_message)
            "Z" => {
                let _ = t.serialize();
                i += 1;
            }
            x => panic!("txth: bad token {}", x),
        }
    }
    let ser = match t.serialize() {
        Ok(b) => b,
        Err(e) => return format!("ser={}", terr(&e)),
    };
    let parsed = match TextArchive::from_bytes(&ser, fmt, endian) {
        Ok(p) => {
            let es: Vec<String> = p.get_entries().iter().map(|(k, v)| format!("{}={}", show_str(k), show_str(v))).collect();
            format!("ok d{} T={} [{}]", if p.is_dirty() { 1 } else { 0 }, show_str(p.get_title()), es.join(" "))
        }
        Err(e) => terr(&e).to_string(),
    };
    format!("ser=ok:{} | parse={}", show_b(&ser), parsed)
}
