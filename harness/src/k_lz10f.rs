// C08/C10: `lz10f <flag> B<input>` -> as lz10c, but through the enum: CompressionFormat::LZ10(..).compress,
// then CompressionFormat::LZ10(..).decompress of the result (src/compression_format.rs:20-32).
use crate::h_lz::compress_line;
use crate::h_util::parse_b;
use mila::{CompressionFormat, LZ10CompressionFormat};

pub fn run(toks: &[&str]) -> String {
    let input = parse_b(toks[1]);
    let f = CompressionFormat::LZ10(LZ10CompressionFormat {});
    compress_line(&input, |b| f.compress(b), |b| f.decompress(b))
}
