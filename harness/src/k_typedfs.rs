// C12, typed helpers END TO END: histories of byte-level and typed LayeredFilesystem calls on real temp
// directories, every RESULT VALUE printed canonically (not "which parameters reproduce it"), every layer
// walked after every call (so the bytes a typed writer stored are compared with model serializer + codec).
// case:  typedfs <base> <game 0..6> <lang 0..7> <nlayers> { <k> { <Lpath> <D|Bhex> }*k }*nlayers 0
//          ops:  R <loc> <Lpath>                        read
//                W <loc> <Lpath> <Bpayload>             write
//                TA <loc> <Lpath>                       read_archive
//                TT <loc> <Lpath>                       read_text_archive
//                TR <loc> <Lpath> <k>                   read_arc (0) read_fe9_arc (1) tpl (2) bch (3) ctpk (4) cgfx (5)
//                WA <loc> <Lpath> <be|le> <Bfile>       write_archive(BinArchive::from_bytes(file, endian))
//                WT <loc> <Lpath> <sjis|utf16> <be|le> <Bfile>   write_text_archive(TextArchive::from_bytes(file, format, endian))
// output: "new:<result> @ <walk>" then per call "<value> @ <walk or = if unchanged>", joined by " ; ".
// values (strings: S<hex of the Shift-JIS / UTF-8 encoding of the decoded String>; `S?` when not representable):
//   archive   ok sz=<n> d=B<data> t=[<addr>:S..,..] p=[<addr>:<dest>,..] l=[<addr>:S..|S..,..]
//   text      ok d<dirty> T=S<title> [S<key>=<S.. | L<utf-16 units>> ...]
//   arc       ok [S<name>=B<body> ...]   sorted by name (HashMap);  fe9_arc: in archive order (IndexMap)
//   textures  ok <n> [S<name>,<w>,<h>,B<rgba> ...]   tpl: in order; bch/ctpk/cgfx: sorted by name (HashMap)
//   errors    err:notfound | err:compression | err:loc-* | err:write | err:parse:<kind>
use crate::h_fs::*;
use crate::h_txt::{aerr, arcerr, terr};
use crate::h_util::*;
use crate::k_fs::{endian_of, setup, tfmt_of};
use encoding_rs::SHIFT_JIS;
use mila::*;
use std::panic::{catch_unwind, AssertUnwindSafe};

fn s_sjis(s: &str) -> String {
    let (b, _, bad) = SHIFT_JIS.encode(s);
    if bad || s.contains('\u{FFFD}') {
        "S?".to_string()
    } else {
        format!("S{}", hex(&b))
    }
}

fn s_utf8(s: &str) -> String {
    format!("S{}", hex(s.as_bytes()))
}

fn fs_err(e: &LayeredFilesystemError) -> String {
    match e {
        LayeredFilesystemError::NoLayers => "err:nolayers".to_string(),
        LayeredFilesystemError::NoWriteableLayers => "err:nowriteable".to_string(),
        LayeredFilesystemError::FileNotFound(_, _) => "err:notfound".to_string(),
        LayeredFilesystemError::ReadError(_, _) => "err:read".to_string(),
        LayeredFilesystemError::WriteError(_, _) => "err:write".to_string(),
        LayeredFilesystemError::UnsupportedGame => "err:unsupported-game".to_string(),
        LayeredFilesystemError::LocalizationError(LocalizationError::UnsupportedLanguage) => "err:loc-unsupported-language".to_string(),
        LayeredFilesystemError::LocalizationError(LocalizationError::MissingParent(_)) => "err:loc-missing-parent".to_string(),
        LayeredFilesystemError::LocalizationError(LocalizationError::MissingFileName(_)) => "err:loc-missing-file-name".to_string(),
        LayeredFilesystemError::LocalizationError(_) => "err:loc-other".to_string(),
        LayeredFilesystemError::IOError(_) => "err:io".to_string(),
        LayeredFilesystemError::CompressionError(_) => "err:compression".to_string(),
        LayeredFilesystemError::ArchiveError(a) => format!("err:parse:{}", &aerr(a)[4..]),
        LayeredFilesystemError::TextArchiveError(t) => format!("err:parse:{}", &terr(t)[4..]),
        LayeredFilesystemError::ArcError(a) => format!("err:parse:{}", &arcerr(a)[4..]),
        LayeredFilesystemError::TextureParseError(TextureParseError::BadMagicNumber) => "err:parse:badmagic".to_string(),
        LayeredFilesystemError::TextureParseError(TextureParseError::ParserError(m)) if m.starts_with("BadMagic") => "err:parse:badmagic".to_string(),
        LayeredFilesystemError::TextureParseError(_) => "err:parse:texture".to_string(),
        _ => "err:other".to_string(),
    }
}

fn show_archive(a: &BinArchive) -> String {
    let size = a.size();
    let data = if size > 0 { a.read_bytes(0, size).map(|b| b.to_vec()).unwrap_or_default() } else { Vec::new() };
    let mut t: Vec<String> = Vec::new();
    let mut p: Vec<String> = Vec::new();
    let mut addr = 0usize;
    while addr + 4 <= size {
        if let Ok(Some(s)) = a.read_string(addr) {
            t.push(format!("{}:{}", addr, s_sjis(&s)));
        }
        if let Ok(Some(v)) = a.read_pointer(addr) {
            p.push(format!("{}:{}", addr, v));
        }
        addr += 1;
    }
    let mut l: Vec<String> = Vec::new();
    let mut cur: Option<usize> = None;
    for (ad, name) in a.all_labels() {
        if cur == Some(ad) {
            let last = l.last_mut().unwrap();
            last.push('|');
            last.push_str(&s_sjis(&name));
        } else {
            l.push(format!("{}:{}", ad, s_sjis(&name)));
            cur = Some(ad);
        }
    }
    format!("ok sz={} d={} t=[{}] p=[{}] l=[{}]", size, show_b(&data), t.join(","), p.join(","), l.join(","))
}

fn show_text(fmt: TextArchiveFormat, t: &TextArchive) -> String {
    let es: Vec<String> = t
        .get_entries()
        .iter()
        .map(|(k, v)| {
            format!(
                "{}={}",
                s_sjis(k),
                match fmt {
                    TextArchiveFormat::Unicode => show_l(v.encode_utf16().map(|x| x as u64)),
                    TextArchiveFormat::ShiftJIS => s_sjis(v),
                }
            )
        })
        .collect();
    format!("ok d{} T={} [{}]", if t.is_dirty() { 1 } else { 0 }, s_sjis(t.get_title()), es.join(" "))
}

fn show_files<'a, I: Iterator<Item = (&'a String, &'a Vec<u8>)>>(it: I, sort: bool) -> String {
    let mut es: Vec<String> = it.map(|(n, b)| format!("{}={}", s_sjis(n), show_b(b))).collect();
    if sort {
        es.sort();
    }
    format!("ok [{}]", es.join(" "))
}

fn show_textures(v: Vec<Texture>) -> String {
    let es: Vec<String> = v.iter().map(|t| format!("{},{},{},{}", s_utf8(&t.filename), t.width, t.height, show_b(&t.pixel_data))).collect();
    format!("ok {} [{}]", es.len(), es.join(" "))
}

/// HashMap<String, Texture>: the KEY is printed as the name; a key that differs from the texture's own file name is flagged
fn show_texture_map(m: std::collections::HashMap<String, Texture>, sjis: bool) -> String {
    let enc = |s: &str| if sjis { s_sjis(s) } else { s_utf8(s) };
    let mut es: Vec<String> = m
        .iter()
        .map(|(k, t)| {
            let name = if *k == t.filename { enc(k) } else { format!("{}!{}", enc(k), enc(&t.filename)) };
            format!("{},{},{},{}", name, t.width, t.height, show_b(&t.pixel_data))
        })
        .collect();
    es.sort();
    format!("ok {} [{}]", es.len(), es.join(" "))
}

fn res<T, F: FnOnce(T) -> String>(r: Result<T, LayeredFilesystemError>, f: F) -> String {
    match r {
        Ok(v) => f(v),
        Err(e) => fs_err(&e),
    }
}

pub fn run(toks: &[&str]) -> String {
    let st = match setup(toks) {
        Ok(s) => s,
        Err(e) => return e,
    };
    let mut i = st.next;
    let mut acc: Vec<String> = Vec::new();
    let layer_strs: Vec<String> = st.roots.iter().map(|r| r.display().to_string()).collect();
    let fsys = match LayeredFilesystem::new(layer_strs, st.lang, st.game) {
        Ok(f) => f,
        Err(e) => return format!("new:{} @ {}", fs_err(&e), walk_all(&st.roots)),
    };
    let tfmt = fsys.text_archive_format();
    let mut last = walk_all(&st.roots);
    acc.push(format!("new:ok @ {}", last));
    while i < toks.len() {
        let op = toks[i];
        let loc = toks[i + 1] == "1";
        let path = str_of_l(toks[i + 2]);
        if !safe_rel(&path) {
            return "REFUSED-PATH".to_string();
        }
        let mut used = 3;
        let ret: String = match op {
            "R" => catch_unwind(AssertUnwindSafe(|| res(fsys.read(&path, loc), |b| format!("ok:{}", hex(&b))))).unwrap_or_else(|_| "panic".to_string()),
            "W" => {
                let payload = parse_b(toks[i + 3]);
                used = 4;
                catch_unwind(AssertUnwindSafe(|| res(fsys.write(&path, &payload, loc), |_| "ok".to_string()))).unwrap_or_else(|_| "panic".to_string())
            }
            "TA" => catch_unwind(AssertUnwindSafe(|| res(fsys.read_archive(&path, loc), |a| show_archive(&a)))).unwrap_or_else(|_| "panic".to_string()),
            "TT" => catch_unwind(AssertUnwindSafe(|| res(fsys.read_text_archive(&path, loc), |t| show_text(tfmt, &t)))).unwrap_or_else(|_| "panic".to_string()),
            "TR" => {
                let k: u32 = toks[i + 3].parse().unwrap();
                used = 4;
                catch_unwind(AssertUnwindSafe(|| match k {
                    0 => res(fsys.read_arc(&path, loc), |m| show_files(m.iter(), true)),
                    1 => res(fsys.read_fe9_arc(&path, loc), |m| show_files(m.iter(), false)),
                    2 => res(fsys.read_tpl_textures(&path, loc), show_textures),
                    3 => res(fsys.read_bch_textures(&path, loc), |m| show_texture_map(m, false)),
                    4 => res(fsys.read_ctpk_textures(&path, loc), |m| show_texture_map(m, true)),
                    _ => res(fsys.read_cgfx_textures(&path, loc), |m| show_texture_map(m, false)),
                }))
                .unwrap_or_else(|_| "panic".to_string())
            }
            "WA" => {
                let e = endian_of(toks[i + 3]);
                let file = parse_b(toks[i + 4]);
                used = 5;
                catch_unwind(AssertUnwindSafe(|| match BinArchive::from_bytes(&file, e) {
                    Ok(a) => res(fsys.write_archive(&path, &a, loc), |_| "ok".to_string()),
                    Err(_) => "BAD-ARCHIVE".to_string(),
                }))
                .unwrap_or_else(|_| "panic".to_string())
            }
            "WT" => {
                let f = tfmt_of(toks[i + 3]);
                let e = endian_of(toks[i + 4]);
                let file = parse_b(toks[i + 5]);
                used = 6;
                catch_unwind(AssertUnwindSafe(|| match TextArchive::from_bytes(&file, f, e) {
                    Ok(a) => res(fsys.write_text_archive(&path, &a, loc), |_| "ok".to_string()),
                    Err(_) => "BAD-ARCHIVE".to_string(),
                }))
                .unwrap_or_else(|_| "panic".to_string())
            }
            x => panic!("typedfs: bad op {}", x),
        };
        i += used;
        let w = walk_all(&st.roots);
        if w == last {
            acc.push(format!("{} @ =", ret));
        } else {
            acc.push(format!("{} @ {}", ret, w));
            last = w;
        }
    }
    acc.join(" ; ")
}
