// C07: TextArchive in-memory API; full observable state after every call.
use crate::h_util::*;
use mila::{Endian, TextArchive, TextArchiveFormat};

fn state(t: &TextArchive) -> String {
    let es: Vec<String> = t.get_entries().iter().map(|(k, v)| format!("{}={}", show_str(k), show_str(v))).collect();
    format!("{} {} [{}]", if t.is_dirty() { "d1" } else { "d0" }, show_str(t.get_title()), es.join(" "))
}

pub fn run(toks: &[&str]) -> String {
    let mut t = TextArchive::new(TextArchiveFormat::Unicode, Endian::Little);
    let mut acc: Vec<String> = Vec::new();
    let mut i = 0;
    while i < toks.len() {
        match toks[i] {
            "S" => {
                t.set_message(&str_of_l(toks[i + 1]), &str_of_l(toks[i + 2]));
                acc.push(format!("- {}", state(&t)));
                i += 3;
            }
            "N" => {
                // the same set_message repeated <count> times (one state line): counters behind the dirty flag must not wrap
                let count: u64 = toks[i + 1].trim_start_matches('L').parse().unwrap();
                let (k, m) = (str_of_l(toks[i + 2]), str_of_l(toks[i + 3]));
                for _ in 0..count {
                    t.set_message(&k, &m);
                }
                acc.push(format!("- {}", state(&t)));
                i += 4;
            }
            "D" => {
                t.delete_message(&str_of_l(toks[i + 1]));
                acc.push(format!("- {}", state(&t)));
                i += 2;
            }
            "T" => {
                t.set_title(str_of_l(toks[i + 1]));
                acc.push(format!("- {}", state(&t)));
                i += 2;
            }
            "H" => {
                let b = t.has_message(&str_of_l(toks[i + 1]));
                acc.push(format!("{} {}", b, state(&t)));
                i += 2;
            }
            "G" => {
                let s = match t.get_message(&str_of_l(toks[i + 1])) {
                    Some(v) => format!("some:{}", show_str(&v)),
                    None => "none".to_string(),
                };
                acc.push(format!("{} {}", s, state(&t)));
                i += 2;
            }
            "R" => {
                // get, then store the looked-up message back under its key
                let k = str_of_l(toks[i + 1]);
                let s = match t.get_message(&k) {
                    Some(v) => {
                        t.set_message(&k, &v);
                        format!("some:{}", show_str(&v))
                    }
                    None => "none".to_string(),
                };
                acc.push(format!("{} {}", s, state(&t)));
                i += 2;
            }
            x => panic!("c07: bad token {}", x),
        }
    }
    acc.join(" ; ")
}
