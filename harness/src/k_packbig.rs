// C15: many files.  case: packbig <n> <bodylen>
// builds n files named "f<i>" (decimal, no padding) with bodies of <bodylen> bytes (byte j of
// file i = (i + j) mod 251), serializes, parses the image.
// line: ok B<image> rt=<1|0>      rt = parse(image) returned the same names/bodies in order
use crate::h_util::*;
use indexmap::IndexMap;

pub fn run(toks: &[&str]) -> String {
    let n: usize = toks[0].parse().unwrap();
    let bl: usize = toks[1].parse().unwrap();
    let mut map: IndexMap<String, Vec<u8>> = IndexMap::new();
    for i in 0..n {
        let body: Vec<u8> = (0..bl).map(|j| ((i + j) % 251) as u8).collect();
        map.insert(format!("f{}", i), body);
    }
    match mila::fe9_arc::serialize(&map) {
        Ok(img) => {
            let rt = match mila::fe9_arc::parse(&img) {
                Ok(m2) => m2.len() == map.len() && m2.iter().zip(map.iter()).all(|(a, b)| a == b),
                Err(_) => false,
            };
            format!("ok {} rt={}", show_b(&img), if rt { 1 } else { 0 })
        }
        Err(_) => "err".to_string(),
    }
}
