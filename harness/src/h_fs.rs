// Helpers of the layered-filesystem kinds (C12, C13, C14-fs): temp directories, canonical walk,
// escaping identical to coq/Extract/drv/d_fs.ml.
#![allow(dead_code)]
use mila::{Game, Language};
use std::fs;
use std::path::{Path, PathBuf};

pub fn game(g: u64) -> Game {
    match g {
        0 => Game::FE9,
        1 => Game::FE10,
        2 => Game::FE11,
        3 => Game::FE12,
        4 => Game::FE13,
        5 => Game::FE14,
        _ => Game::FE15,
    }
}

pub fn language(l: u64) -> Language {
    match l {
        0 => Language::EnglishNA,
        1 => Language::EnglishEU,
        2 => Language::Japanese,
        3 => Language::Spanish,
        4 => Language::French,
        5 => Language::Italian,
        6 => Language::German,
        _ => Language::Dutch,
    }
}

/// bytes outside [A-Za-z0-9._@~+-/] as %XX
pub fn esc(s: &str) -> String {
    let mut o = String::with_capacity(s.len());
    for &b in s.as_bytes() {
        let safe = b.is_ascii_alphanumeric() || matches!(b, b'.' | b'_' | b'@' | b'~' | b'+' | b'-' | b'/');
        if safe {
            o.push(b as char);
        } else {
            o.push_str(&format!("%{:02x}", b));
        }
    }
    o
}

pub fn hex(b: &[u8]) -> String {
    let mut s = String::with_capacity(2 * b.len());
    for x in b {
        s.push_str(&format!("{:02x}", x));
    }
    s
}

/// A scratch directory removed when the value is dropped (also on unwinding).
pub struct Scratch {
    pub base: PathBuf,
}

impl Scratch {
    /// `<temp_dir>/<name>`; the name is chosen by the generator (unique per run and case) so that a
    /// case can mention the absolute layer path (finding F16).  Refuses to reuse an existing directory.
    pub fn new(name: &str) -> Result<Scratch, String> {
        let ok = !name.is_empty() && name.len() < 100 && name.starts_with("mila-fs-")
            && name.bytes().all(|b| b.is_ascii_alphanumeric() || b == b'-');
        if !ok {
            return Err("BAD-BASE".to_string());
        }
        let base = std::env::temp_dir().join(name);
        match fs::create_dir(&base) {
            Ok(()) => Ok(Scratch { base }),
            Err(e) => Err(format!("BASE-ERROR {:?}", e.kind())),
        }
    }
}

impl Drop for Scratch {
    fn drop(&mut self) {
        let _ = fs::remove_dir_all(&self.base);
    }
}

/// Directory name of layer i inside the scratch directory.  Sibling directories whose names are string prefixes of one another in BOTH
/// orders (seeded change C13-9: `LayeredFilesystem::new` dropped a layer whose root path is a string prefix of a LATER root):
/// romfs < romfs_patch (earlier is a prefix of later), rom after romfs (later is a prefix of earlier), romfs_patch < romfs_patch2.
/// gen/fsgen.py::abs_layer must agree.
pub fn layer_dir_name(i: usize) -> String {
    match i {
        0 => "romfs".to_string(),
        1 => "romfs_patch".to_string(),
        2 => "rom".to_string(),
        3 => "romfs_patch2".to_string(),
        _ => format!("rom{}", i),
    }
}

/// relative paths the harness is willing to touch: no absolute paths, no `..`, no NUL
pub fn safe_rel(p: &str) -> bool {
    // a backslash is an ordinary file-name character on the Unix hosts the check runs on (seeded change C13-7 needs such names)
    !p.starts_with('/') && !p.contains('\0') && (cfg!(unix) || !p.contains('\\')) && p.split('/').all(|c| c != "..")
}

fn walk_into(root: &Path, rel: &str, out: &mut Vec<(String, Option<Vec<u8>>)>) {
    let dir = if rel.is_empty() { root.to_path_buf() } else { root.join(rel) };
    let rd = match fs::read_dir(&dir) {
        Ok(r) => r,
        Err(_) => return,
    };
    for e in rd {
        let e = match e {
            Ok(e) => e,
            Err(_) => continue,
        };
        let name = e.file_name().to_string_lossy().to_string();
        let r = if rel.is_empty() { name } else { format!("{}/{}", rel, name) };
        let ft = match e.file_type() {
            Ok(t) => t,
            Err(_) => continue,
        };
        if ft.is_dir() {
            out.push((r.clone(), None));
            walk_into(root, &r, out);
        } else {
            out.push((r, Some(fs::read(e.path()).unwrap_or_default())));
        }
    }
}

/// canonical walk of one layer: entries sorted byte-wise by relative path, `path/` or `path=hex`
pub fn walk_layer(root: &Path) -> String {
    let mut v = Vec::new();
    walk_into(root, "", &mut v);
    v.sort_by(|a, b| a.0.as_bytes().cmp(b.0.as_bytes()));
    let es: Vec<String> = v
        .iter()
        .map(|(p, c)| match c {
            None => format!("{}/", esc(p)),
            Some(b) => format!("{}={}", esc(p), hex(b)),
        })
        .collect();
    es.join(",")
}

pub fn walk_all(roots: &[PathBuf]) -> String {
    let ls: Vec<String> = roots.iter().map(|r| walk_layer(r)).collect();
    ls.join(" & ")
}
