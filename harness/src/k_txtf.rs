// C06 / C05: parse a text-archive FILE, show what was read, serialize it again.
//   txtf <U|S> <L|B> B<file>
// Output: parse=ok d<dirty> T=L<title> [L<key>=<msg> ...] | reser=ok:B<image>     (msg: L<scalars> (S) | L<units> (U))
//         parse=err:<kind>
use crate::h_txt::*;
use crate::h_util::*;
use mila::TextArchive;

pub fn run(toks: &[&str]) -> String {
    let fmt = fmt_of(toks[0]);
    let endian = endian_of(toks[1]);
    let file = parse_b(toks[2]);
    report_parsed(fmt, TextArchive::from_bytes(&file, fmt, endian))
}
