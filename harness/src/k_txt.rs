// C06: text archive built through the public API, serialized, parsed again.
//   txt <U|S> <L|B> B<title> <n> (B<key> <msg>)*        msg = B<shift-jis bytes> (S) | L<utf-16 units> (U)
// Strings arrive ENCODED; the harness decodes them (encoding_rs / String::from_utf16) and checks that
// the conversion is lossless (A-codec) - a lossy input is a generator error and is reported as LOSSY.
// Output:  ser=ok:B<image> | parse=ok d<dirty> T=B<title> [B<key>=<msg> ...]
use crate::h_txt::*;
use crate::h_util::*;
use mila::{TextArchive, TextArchiveFormat};

pub fn msg_of(fmt: TextArchiveFormat, tok: &str) -> Option<String> {
    match fmt {
        TextArchiveFormat::Unicode => utf16_lossless(&parse_l(tok)),
        TextArchiveFormat::ShiftJIS => sjis_lossless(&parse_b(tok)),
    }
}

pub fn show_msg(fmt: TextArchiveFormat, s: &str) -> String {
    match fmt {
        TextArchiveFormat::Unicode => show_units(s),
        TextArchiveFormat::ShiftJIS => show_sjis_checked(s),
    }
}

pub fn show_parsed(fmt: TextArchiveFormat, t: &TextArchive) -> String {
    let es: Vec<String> = t.get_entries().iter().map(|(k, v)| format!("{}={}", show_sjis_checked(k), show_msg(fmt, v))).collect();
    format!("ok d{} T={} [{}]", if t.is_dirty() { 1 } else { 0 }, show_sjis_checked(t.get_title()), es.join(" "))
}

pub fn run(toks: &[&str]) -> String {
    let fmt = fmt_of(toks[0]);
    let endian = endian_of(toks[1]);
    let title = match sjis_lossless(&parse_b(toks[2])) {
        Some(s) => s,
        None => return "LOSSY title".to_string(),
    };
    let n: usize = toks[3].parse().unwrap();
    let mut t = TextArchive::new(fmt, endian);
    t.set_title(title);
    for i in 0..n {
        let k = match sjis_lossless(&parse_b(toks[4 + 2 * i])) {
            Some(s) => s,
            None => return format!("LOSSY key {}", i),
        };
        let m = match msg_of(fmt, toks[5 + 2 * i]) {
            Some(s) => s,
            None => return format!("LOSSY message {}", i),
        };
        t.set_message(&k, &m);
        // set_message unescapes backslash-n; the generator must not produce that pair
        if t.get_entries().get(&k).map(|x| x.as_str()) != Some(m.as_str()) {
            return format!("ESCAPED message {}", i);
        }
    }
    let ser = match t.serialize() {
        Ok(b) => b,
        Err(e) => return format!("ser={}", terr(&e)),
    };
    let parsed = match TextArchive::from_bytes(&ser, fmt, endian) {
        Ok(p) => show_parsed(fmt, &p),
        Err(e) => terr(&e).to_string(),
    };
    format!("ser=ok:{} | parse={}", show_b(&ser), parsed)
}
