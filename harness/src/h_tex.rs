// Helpers of the texture-container kinds (C20): ctpk, bch, cgfx, tpl.
//   <kind> ref B<file> <n> {B<name> <w> <h> <fmt> B<data> B<pal>}*   read the file (the texture tokens are for the model's checker)
//   <kind> full B<file>                                              read the file
//   <kind> cut B<file> [<lo> <hi>]                                   read every prefix file[..k], lo <= k < hi (default 0..len)
// Output of ref/full:  ok <n> {<name hex|?>,<w>,<h>,B<rgba>}*  |  err badmagic  |  err      (a panic is printed as PANIC by main.rs)
// Output of cut: run-length encoded classes, one per prefix length:  E (err)  M (err badmagic)  P (panic)  O<fnv32 of the ok line>
//   e.g. "Ex32 Mx4 O1f2e3d4cx10"
use crate::h_util::*;
use mila::{Texture, TextureParseError};
use std::panic;

pub type Reader = fn(&[u8]) -> Result<Vec<Texture>, TextureParseError>;
pub type NameEnc = fn(&str) -> Option<Vec<u8>>;

pub fn enc_utf8(s: &str) -> Option<Vec<u8>> {
    Some(s.as_bytes().to_vec())
}
pub fn enc_sjis(s: &str) -> Option<Vec<u8>> {
    let (b, _, bad) = encoding_rs::SHIFT_JIS.encode(s);
    if bad {
        None
    } else {
        Some(b.into_owned())
    }
}

pub fn fnv32(s: &str) -> u32 {
    let mut h: u32 = 0x811c9dc5;
    for b in s.as_bytes() {
        h ^= *b as u32;
        h = h.wrapping_mul(16777619);
    }
    h
}

fn hex(b: &[u8]) -> String {
    let mut s = String::with_capacity(2 * b.len());
    for x in b {
        s.push_str(&format!("{:02x}", x));
    }
    s
}

pub fn show(r: &Result<Vec<Texture>, TextureParseError>, enc: NameEnc) -> String {
    match r {
        Ok(ts) => {
            let mut s = format!("ok {}", ts.len());
            for t in ts {
                let n = match enc(&t.filename) {
                    Some(b) => hex(&b),
                    None => "?".to_string(),
                };
                s.push_str(&format!(" {},{},{},{}", n, t.width, t.height, show_b(&t.pixel_data)));
            }
            s
        }
        Err(TextureParseError::BadMagicNumber) => "err badmagic".to_string(),
        Err(TextureParseError::ParserError(m)) if m.starts_with("BadMagic") => "err badmagic".to_string(),
        Err(_) => "err".to_string(),
    }
}

fn le32(v: &mut Vec<u8>, x: u32) {
    v.extend_from_slice(&x.to_le_bytes());
}

/// single-texture CTPK whose payload (all zero, `len` bytes) ends the file
pub fn ctpk_tail(fmt: u32, w: u16, h: u16, len: usize) -> Vec<u8> {
    let mut f: Vec<u8> = Vec::with_capacity(0x48 + len);
    le32(&mut f, 0x4b505443);
    f.extend_from_slice(&1u16.to_le_bytes());
    f.extend_from_slice(&1u16.to_le_bytes());
    le32(&mut f, 0x48);
    le32(&mut f, len as u32);
    f.extend_from_slice(&[0u8; 16]);
    le32(&mut f, 0x40);
    le32(&mut f, len as u32);
    le32(&mut f, 0);
    le32(&mut f, fmt);
    f.extend_from_slice(&w.to_le_bytes());
    f.extend_from_slice(&h.to_le_bytes());
    f.extend_from_slice(&[1, 0, 0, 0]);
    f.extend_from_slice(&[0u8; 8]);
    f.extend_from_slice(b"t\0\0\0\0\0\0\0");
    f.resize(0x48 + len, 0);
    f
}

/// single-texture BCH (backward compatibility 0x21, 64-byte header) whose payload ends the file
pub fn bch_tail(fmt: u32, w: u16, h: u16, len: usize) -> Vec<u8> {
    let (ca, table, rec, cmd, name, data) = (64u32, 112u32, 116u32, 148u32, 176u32, 180u32);
    let mut f: Vec<u8> = Vec::with_capacity(data as usize + len);
    le32(&mut f, 0x00484342);
    f.extend_from_slice(&[0x21, 0x21, 0, 0xA0]);
    for x in [ca, 0, 0, 0].iter() {
        le32(&mut f, *x);
    }
    f.resize(64, 0);
    f.resize(112, 0);
    f[(ca + 0x24) as usize..(ca + 0x28) as usize].copy_from_slice(&(table - ca).to_le_bytes());
    f[(ca + 0x28) as usize..(ca + 0x2C) as usize].copy_from_slice(&1u32.to_le_bytes());
    le32(&mut f, rec - ca);
    f.resize(148, 0);
    f[rec as usize..rec as usize + 4].copy_from_slice(&cmd.to_le_bytes());
    f[rec as usize + 28..rec as usize + 32].copy_from_slice(&name.to_le_bytes());
    f.resize(176, 0);
    f[cmd as usize..cmd as usize + 2].copy_from_slice(&h.to_le_bytes());
    f[cmd as usize + 2..cmd as usize + 4].copy_from_slice(&w.to_le_bytes());
    f[cmd as usize + 16..cmd as usize + 20].copy_from_slice(&data.to_le_bytes());
    f[cmd as usize + 24..cmd as usize + 28].copy_from_slice(&fmt.to_le_bytes());
    f.extend_from_slice(b"t\0\0\0");
    f.resize(data as usize + len, 0);
    f
}

/// `f32 <fmt> <w> <h>`: how many payload bytes does the reader ask for?  The true payload size is T = bpp*w*h (format
/// documentation, rounded down); the file is built with T + d payload bytes at its end for d = -2..2 and read each time:
/// one letter per d, O = accepted, E = error, P = panic.  Formats 10 / 11 only (their decoder never looks at the data,
/// so the outcome is decided by `read_exact` alone).
pub fn f32_probe(toks: &[&str], reader: Reader, build: fn(u32, u16, u16, usize) -> Vec<u8>) -> String {
    let fmt: u32 = toks[1].parse().unwrap();
    let w: u16 = toks[2].parse().unwrap();
    let h: u16 = toks[3].parse().unwrap();
    let bpp2: u64 = match fmt {
        10 => 1,
        11 => 2,
        _ => return "unmodelled".to_string(),
    };
    let t = (bpp2 * w as u64 * h as u64 / 2) as i64;
    let mut out = String::new();
    for d in -2i64..=2 {
        let file = build(fmt, w, h, (t + d).max(0) as usize);
        let res = panic::catch_unwind(|| match reader(&file) {
            Ok(ts) => ts.len() == 1 && ts[0].width == w as usize && ts[0].height == h as usize,
            Err(_) => false,
        });
        out.push(match res {
            Err(_) => 'P',
            Ok(true) => 'O',
            Ok(false) => 'E',
        });
    }
    out
}

pub fn run_kind(toks: &[&str], reader: Reader, enc: NameEnc) -> String {
    match toks[0] {
        "ref" | "full" => {
            let file = parse_b(toks[1]);
            show(&reader(&file), enc)
        }
        "cut" => {
            let file = parse_b(toks[1]);
            let (lo, hi) = if toks.len() >= 4 {
                (toks[2].parse::<usize>().unwrap(), toks[3].parse::<usize>().unwrap())
            } else {
                (0, file.len())
            };
            let mut out: Vec<(String, usize)> = Vec::new();
            for k in lo..hi.min(file.len() + 1) {
                let part = &file[..k];
                let res = panic::catch_unwind(|| show(&reader(part), enc));
                let sym = match res {
                    Err(_) => "P".to_string(),
                    Ok(s) => {
                        if s == "err" {
                            "E".to_string()
                        } else if s == "err badmagic" {
                            "M".to_string()
                        } else {
                            format!("O{:08x}", fnv32(&s))
                        }
                    }
                };
                match out.last_mut() {
                    Some((l, c)) if *l == sym => *c += 1,
                    _ => out.push((sym, 1)),
                }
            }
            let v: Vec<String> = out.iter().map(|(s, c)| format!("{}x{}", s, c)).collect();
            v.join(" ")
        }
        _ => "bad-subkind".to_string(),
    }
}
