// Helpers of the texture-container kinds (C20): ctpk, bch, cgfx, tpl.
//   <kind> ref B<file> <n> {B<name> <w> <h> <fmt> B<data> B<pal>}*   read the file (the texture tokens are for the model's checker)
//   <kind> full B<file>                                              read the file
//   <kind> cut B<file> [<lo> <hi>]                                   read every prefix file[..k], lo <= k < hi (default 0..len)
// Output of ref/full:  ok <n> {<name hex|?>,<w>,<h>,B<rgba>}*  |  err badmagic  |  err      (a panic is printed as PANIC by main.rs)
// Output of cut: run-length encoded classes, one per prefix length:  E (err)  M (err badmagic)  P (panic)  O<fnv32 of the ok line>
//   e.g. "Ex32 Mx4 O1f2e3d4cx10"
use crate::h_util::*;
use mila::{Texture, TextureParseError};
use std::panic;

pub type Reader = fn(&[u8]) -> Result<Vec<Texture>, TextureParseError>;
pub type NameEnc = fn(&str) -> Option<Vec<u8>>;

pub fn enc_utf8(s: &str) -> Option<Vec<u8>> {
    Some(s.as_bytes().to_vec())
}
pub fn enc_sjis(s: &str) -> Option<Vec<u8>> {
    let (b, _, bad) = encoding_rs::SHIFT_JIS.encode(s);
    if bad {
        None
    } else {
        Some(b.into_owned())
    }
}

pub fn fnv32(s: &str) -> u32 {
    let mut h: u32 = 0x811c9dc5;
    for b in s.as_bytes() {
        h ^= *b as u32;
        h = h.wrapping_mul(16777619);
    }
    h
}

fn hex(b: &[u8]) -> String {
    let mut s = String::with_capacity(2 * b.len());
    for x in b {
        s.push_str(&format!("{:02x}", x));
    }
    s
}

pub fn show(r: &Result<Vec<Texture>, TextureParseError>, enc: NameEnc) -> String {
    match r {
        Ok(ts) => {
            let mut s = format!("ok {}", ts.len());
            for t in ts {
                let n = match enc(&t.filename) {
                    Some(b) => hex(&b),
                    None => "?".to_string(),
                };
                s.push_str(&format!(" {},{},{},{}", n, t.width, t.height, show_b(&t.pixel_data)));
            }
            s
        }
        Err(TextureParseError::BadMagicNumber) => "err badmagic".to_string(),
        Err(TextureParseError::ParserError(m)) if m.starts_with("BadMagic") => "err badmagic".to_string(),
        Err(_) => "err".to_string(),
    }
}

pub fn run_kind(toks: &[&str], reader: Reader, enc: NameEnc) -> String {
    match toks[0] {
        "ref" | "full" => {
            let file = parse_b(toks[1]);
            show(&reader(&file), enc)
        }
        "cut" => {
            let file = parse_b(toks[1]);
            let (lo, hi) = if toks.len() >= 4 {
                (toks[2].parse::<usize>().unwrap(), toks[3].parse::<usize>().unwrap())
            } else {
                (0, file.len())
            };
            let mut out: Vec<(String, usize)> = Vec::new();
            for k in lo..hi.min(file.len() + 1) {
                let part = &file[..k];
                let res = panic::catch_unwind(|| show(&reader(part), enc));
                let sym = match res {
                    Err(_) => "P".to_string(),
                    Ok(s) => {
                        if s == "err" {
                            "E".to_string()
                        } else if s == "err badmagic" {
                            "M".to_string()
                        } else {
                            format!("O{:08x}", fnv32(&s))
                        }
                    }
                };
                match out.last_mut() {
                    Some((l, c)) if *l == sym => *c += 1,
                    _ => out.push((sym, 1)),
                }
            }
            let v: Vec<String> = out.iter().map(|(s, c)| format!("{}x{}", s, c)).collect();
            v.join(" ")
        }
        _ => "bad-subkind".to_string(),
    }
}
