// C12 / C13 / C14-fs: histories of LayeredFilesystem calls on real temp directories.
// case:  fs <base> <game 0..6> <lang 0..7> <nlayers> { <k> { <Lpath> <D|Bhex> }*k }*nlayers
//           <ncodec> { <c10|c13|d10|d13> <Bin> <Bout|E|P> }*ncodec   (codec table: for the model only)
//           ops:  R|E|F|G|V|C|S <loc> <Lpath>     read, exists, file_exists, directory_exists, resolve, create_dir, subdirectories
//                 W <loc> <Lpath> <Bpayload>      write
//                 L <loc> <Lpath> <pat>           list; pat = PA (None) | PX "**/*" | PS "*" | PE<L> "*.<ext>" | PR<L> "**/*.<ext>" | PD<L> "<name>/*"
//                 TA|TT <loc> <Lpath>             read_archive / read_text_archive: which codec parameters reproduce the helper's result from the bytes `read` returns
//                 TR <loc> <Lpath> <k>            read_arc (0) fe9_arc (1) tpl (2) bch (3) ctpk (4) cgfx (5): helper result == parser applied to the bytes `read` returns
//                 WA <loc> <Lpath> <be|le> <Bfile> <Bserialized>       write_archive(BinArchive::from_bytes(file, endian))
//                 WT <loc> <Lpath> <sjis|utf16> <be|le> <Bfile> <Bserialized>   write_text_archive(TextArchive::from_bytes(file, format, endian))
// output: segments joined by " ; ": first "new:<result> @ <walk>", then per call "<return value> @ <walk or = if unchanged>".
use crate::h_fs::*;
use crate::h_util::*;
use mila::*;
use std::panic::{catch_unwind, AssertUnwindSafe};
use std::path::PathBuf;

fn err_kind(e: &LayeredFilesystemError) -> String {
    match e {
        LayeredFilesystemError::NoLayers => "err:nolayers".to_string(),
        LayeredFilesystemError::NoWriteableLayers => "err:nowriteable".to_string(),
        LayeredFilesystemError::FileNotFound(_, _) => "err:notfound".to_string(),
        LayeredFilesystemError::ReadError(_, _) => "err:read".to_string(),
        LayeredFilesystemError::WriteError(_, _) => "err:write".to_string(),
        LayeredFilesystemError::UnsupportedGame => "err:unsupported-game".to_string(),
        LayeredFilesystemError::PatternError(_) => "err:pattern".to_string(),
        LayeredFilesystemError::LocalizationError(LocalizationError::UnsupportedLanguage) => "err:loc-unsupported-language".to_string(),
        LayeredFilesystemError::LocalizationError(LocalizationError::MissingParent(_)) => "err:loc-missing-parent".to_string(),
        LayeredFilesystemError::LocalizationError(LocalizationError::MissingFileName(_)) => "err:loc-missing-file-name".to_string(),
        LayeredFilesystemError::LocalizationError(_) => "err:loc-other".to_string(),
        LayeredFilesystemError::IOError(_) => "err:io".to_string(),
        LayeredFilesystemError::CompressionError(_) => "err:compression".to_string(),
        _ => "err:other".to_string(),
    }
}

pub fn pattern(tok: &str) -> Option<String> {
    let kind = &tok[..2];
    let arg = if tok.len() > 2 { str_of_l(&tok[2..]) } else { String::new() };
    match kind {
        "PA" => None,
        "PX" => Some("**/*".to_string()),
        "PS" => Some("*".to_string()),
        "PE" => Some(format!("*.{}", arg)),
        "PR" => Some(format!("**/*.{}", arg)),
        "PD" => Some(format!("{}/*", arg)),
        _ => panic!("fs: bad pattern token"),
    }
}

/// a listing; every listed path is also put to the filesystem's own `exists` ("!exists:[..]" names the ones it denies)
fn show_list(fsys: &LayeredFilesystem, r: Result<Vec<String>, LayeredFilesystemError>) -> String {
    match r {
        Ok(v) => {
            let mut s = format!("ok:[{}]", v.iter().map(|s| esc(s)).collect::<Vec<_>>().join(","));
            let missing: Vec<String> = v.iter().filter(|p| !safe_rel(p) || !matches!(fsys.exists(p, false), Ok(true))).map(|p| esc(p)).collect();
            if !missing.is_empty() {
                s.push_str(&format!(" !exists:[{}]", missing.join(",")));
            }
            s
        }
        Err(e) => err_kind(&e),
    }
}

fn show_bool(r: Result<bool, LayeredFilesystemError>) -> String {
    match r {
        Ok(b) => format!("ok:{}", b),
        Err(e) => err_kind(&e),
    }
}

fn show_unit(r: Result<(), LayeredFilesystemError>) -> String {
    match r {
        Ok(()) => "ok".to_string(),
        Err(e) => err_kind(&e),
    }
}

pub fn endian_of(t: &str) -> Endian {
    if t == "be" {
        Endian::Big
    } else {
        Endian::Little
    }
}

pub fn tfmt_of(t: &str) -> TextArchiveFormat {
    if t == "sjis" {
        TextArchiveFormat::ShiftJIS
    } else {
        TextArchiveFormat::Unicode
    }
}

fn bin_key(r: &Result<BinArchive, ArchiveError>) -> String {
    match r {
        Ok(a) => match a.serialize() {
            Ok(s) => format!("ok:{}", hex(&s)),
            Err(_) => "ok:unserializable".to_string(),
        },
        Err(_) => "err".to_string(),
    }
}

fn text_key(r: &Result<TextArchive, TextArchiveError>) -> String {
    match r {
        Ok(a) => {
            let es: Vec<String> = a.get_entries().iter().map(|(k, v)| format!("{}={}", show_str(k), show_str(v))).collect();
            format!("ok:{}:[{}]", show_str(a.get_title()), es.join(" "))
        }
        Err(_) => "err".to_string(),
    }
}

/// read_archive: which endianness reproduces the helper's result from the bytes `read` returns
fn typed_bin(fsys: &LayeredFilesystem, path: &str, loc: bool) -> String {
    let r1 = fsys.read_archive(path, loc);
    match fsys.read(path, loc) {
        Err(e0) => match r1 {
            Err(e1) if err_kind(&e1) == err_kind(&e0) => err_kind(&e1),
            Err(e1) => format!("ta:error-differs-from-read:{}", err_kind(&e1)),
            Ok(_) => "ta:ok-but-read-failed".to_string(),
        },
        Ok(b) => {
            let k1 = match r1 {
                Ok(a) => bin_key(&Ok(a)),
                Err(LayeredFilesystemError::ArchiveError(_)) => "err".to_string(),
                Err(e) => format!("unexpected:{}", err_kind(&e)),
            };
            let mut m: Vec<&str> = Vec::new();
            if bin_key(&BinArchive::from_bytes(&b, Endian::Big)) == k1 {
                m.push("be");
            }
            if bin_key(&BinArchive::from_bytes(&b, Endian::Little)) == k1 {
                m.push("le");
            }
            format!("ta:{}", m.join("+"))
        }
    }
}

fn typed_text(fsys: &LayeredFilesystem, path: &str, loc: bool) -> String {
    let r1 = fsys.read_text_archive(path, loc);
    match fsys.read(path, loc) {
        Err(e0) => match r1 {
            Err(e1) if err_kind(&e1) == err_kind(&e0) => err_kind(&e1),
            Err(e1) => format!("tt:error-differs-from-read:{}", err_kind(&e1)),
            Ok(_) => "tt:ok-but-read-failed".to_string(),
        },
        Ok(b) => {
            let k1 = match r1 {
                Ok(a) => text_key(&Ok(a)),
                Err(LayeredFilesystemError::TextArchiveError(_)) => "err".to_string(),
                Err(e) => format!("unexpected:{}", err_kind(&e)),
            };
            let mut m: Vec<String> = Vec::new();
            for (fname, f) in [("sjis", TextArchiveFormat::ShiftJIS), ("utf16", TextArchiveFormat::Unicode)] {
                for (ename, e) in [("be", Endian::Big), ("le", Endian::Little)] {
                    if text_key(&TextArchive::from_bytes(&b, f, e)) == k1 {
                        m.push(format!("{}-{}", fname, ename));
                    }
                }
            }
            format!("tt:{}", m.join("+"))
        }
    }
}

fn tex_key(v: Vec<Texture>) -> String {
    let mut es: Vec<String> = v.iter().map(|t| format!("{}:{}x{}:{}", show_str(&t.filename), t.width, t.height, hex(&t.pixel_data))).collect();
    es.sort();
    es.join(",")
}

/// the other read helpers: the helper's result equals the parser applied to the bytes `read` returns
fn typed_other(fsys: &LayeredFilesystem, path: &str, loc: bool, k: u32) -> String {
    fn map_key<'a, I: Iterator<Item = (&'a String, &'a Vec<u8>)>>(it: I) -> String {
        let mut es: Vec<String> = it.map(|(n, b)| format!("{}={}", show_str(n), hex(b))).collect();
        es.sort();
        es.join(",")
    }
    // a texture / container parser may panic on bytes that are not such a file (outside every property); what C12 says is
    // that the helper IS the parser composed with `read`, so a panic of the helper is compared with a panic of the parser
    use std::panic::{catch_unwind, AssertUnwindSafe};
    let helper_r = catch_unwind(AssertUnwindSafe(|| -> Result<String, LayeredFilesystemError> {
        match k {
            0 => fsys.read_arc(path, loc).map(|m| map_key(m.iter())),
            1 => fsys.read_fe9_arc(path, loc).map(|m| map_key(m.iter())),
            2 => fsys.read_tpl_textures(path, loc).map(tex_key),
            3 => fsys.read_bch_textures(path, loc).map(|m| tex_key(m.into_iter().map(|(_, t)| t).collect())),
            4 => fsys.read_ctpk_textures(path, loc).map(|m| tex_key(m.into_iter().map(|(_, t)| t).collect())),
            _ => fsys.read_cgfx_textures(path, loc).map(|m| tex_key(m.into_iter().map(|(_, t)| t).collect())),
        }
    }));
    if helper_r.is_err() {
        // the helper panicked: same verdict iff the parser panics on the bytes `read` returns
        return match fsys.read(path, loc) {
            Err(_) => "panic".to_string(),
            Ok(b) => {
                let direct_panics = catch_unwind(AssertUnwindSafe(|| match k {
                    0 => arc::from_bytes(&b).is_ok(),
                    1 => fe9_arc::parse(&b).is_ok(),
                    2 => tpl::Tpl::extract_textures(&b).is_ok(),
                    3 => bch::read(&b).is_ok(),
                    4 => ctpk::read(&b).is_ok(),
                    _ => cgfx::read(&b).is_ok(),
                }))
                .is_err();
                if direct_panics && k >= 2 { "tr:same-panic".to_string() } else { "panic".to_string() }
            }
        };
    }
    let helper = helper_r.unwrap();
    match fsys.read(path, loc) {
        Err(e0) => match helper {
            Err(e1) if err_kind(&e1) == err_kind(&e0) => err_kind(&e1),
            Err(e1) => format!("tr:error-differs-from-read:{}", err_kind(&e1)),
            Ok(_) => "tr:ok-but-read-failed".to_string(),
        },
        Ok(b) => {
            let direct: Result<String, ()> = match k {
                0 => arc::from_bytes(&b).map(|m| map_key(m.iter())).map_err(|_| ()),
                1 => fe9_arc::parse(&b).map(|m| map_key(m.iter())).map_err(|_| ()),
                2 => tpl::Tpl::extract_textures(&b).map(tex_key).map_err(|_| ()),
                3 => bch::read(&b).map(tex_key).map_err(|_| ()),
                4 => ctpk::read(&b).map(tex_key).map_err(|_| ()),
                _ => cgfx::read(&b).map(tex_key).map_err(|_| ()),
            };
            match (helper, direct) {
                (Ok(a), Ok(d)) if a == d => "tr:same-ok".to_string(),
                (Err(LayeredFilesystemError::FileNotFound(_, _)), _) => "tr:differs".to_string(),
                (Err(_), Err(())) => "tr:same-err".to_string(),
                _ => "tr:differs".to_string(),
            }
        }
    }
}

#[allow(dead_code)]
pub struct Setup {
    pub scratch: Scratch,
    pub roots: Vec<PathBuf>,
    pub game: Game,
    pub lang: Language,
    pub next: usize,
}

/// parse the header of a case (base, game, language, layers with their trees, codec table) and build the directories
pub fn setup(toks: &[&str]) -> Result<Setup, String> {
    let scratch = Scratch::new(toks[0])?;
    let g: u64 = toks[1].parse().unwrap();
    let l: u64 = toks[2].parse().unwrap();
    let nl: usize = toks[3].parse().unwrap();
    let mut i = 4;
    let mut roots = Vec::new();
    for li in 0..nl {
        let root = scratch.base.join(layer_dir_name(li));
        std::fs::create_dir(&root).map_err(|e| format!("SETUP-ERROR {}", e))?;
        let k: usize = toks[i].parse().unwrap();
        i += 1;
        for _ in 0..k {
            let p = str_of_l(toks[i]);
            let c = toks[i + 1];
            i += 2;
            if !safe_rel(&p) || p.is_empty() {
                return Err("REFUSED-PATH".to_string());
            }
            let full = root.join(&p);
            if c == "D" {
                std::fs::create_dir_all(&full).map_err(|e| format!("SETUP-ERROR {}", e))?;
            } else {
                if let Some(par) = full.parent() {
                    std::fs::create_dir_all(par).map_err(|e| format!("SETUP-ERROR {}", e))?;
                }
                std::fs::write(&full, parse_b(c)).map_err(|e| format!("SETUP-ERROR {}", e))?;
            }
        }
        roots.push(root);
    }
    let nc: usize = toks[i].parse().unwrap();
    i += 1 + 3 * nc;
    Ok(Setup { scratch, roots, game: game(g), lang: language(l), next: i })
}

pub fn run(toks: &[&str]) -> String {
    let st = match setup(toks) {
        Ok(s) => s,
        Err(e) => return e,
    };
    let mut i = st.next;
    let mut acc: Vec<String> = Vec::new();
    let layer_strs: Vec<String> = st.roots.iter().map(|r| r.display().to_string()).collect();
    let fsys = match LayeredFilesystem::new(layer_strs.clone(), st.lang, st.game) {
        Ok(f) => f,
        Err(e) => return format!("new:{} @ {}", err_kind(&e), walk_all(&st.roots)),
    };
    let mut last = walk_all(&st.roots);
    acc.push(format!("new:ok @ {}", last));
    // canonical layer roots as the library sees them (normalized), for resolve
    let canon: Vec<String> = st.roots.iter().map(|r| std::fs::canonicalize(r).unwrap().display().to_string()).collect();
    while i < toks.len() {
        let op = toks[i];
        let loc = toks[i + 1] == "1";
        let path = str_of_l(toks[i + 2]);
        if !safe_rel(&path) {
            return "REFUSED-PATH".to_string();
        }
        let mut used = 3;
        let ret: String = match op {
            "R" => catch_unwind(AssertUnwindSafe(|| match fsys.read(&path, loc) {
                Ok(b) => format!("ok:{}", hex(&b)),
                Err(e) => err_kind(&e),
            }))
            .unwrap_or_else(|_| "panic".to_string()),
            "W" => {
                let payload = parse_b(toks[i + 3]);
                used = 4;
                catch_unwind(AssertUnwindSafe(|| show_unit(fsys.write(&path, &payload, loc)))).unwrap_or_else(|_| "panic".to_string())
            }
            "C" => catch_unwind(AssertUnwindSafe(|| show_unit(fsys.create_dir(&path, loc)))).unwrap_or_else(|_| "panic".to_string()),
            "E" => catch_unwind(AssertUnwindSafe(|| show_bool(fsys.exists(&path, loc)))).unwrap_or_else(|_| "panic".to_string()),
            "F" => catch_unwind(AssertUnwindSafe(|| show_bool(fsys.file_exists(&path, loc)))).unwrap_or_else(|_| "panic".to_string()),
            "G" => catch_unwind(AssertUnwindSafe(|| show_bool(fsys.directory_exists(&path, loc)))).unwrap_or_else(|_| "panic".to_string()),
            "V" => catch_unwind(AssertUnwindSafe(|| match fsys.resolve(&path, loc) {
                None => "none".to_string(),
                Some(full) => {
                    let s = full.display().to_string();
                    let mut out = format!("some:?:{}", esc(&s));
                    for (k, c) in canon.iter().enumerate() {
                        let pre = format!("{}/", c);
                        if let Some(rest) = s.strip_prefix(&pre) {
                            out = format!("some:{}:{}", k, esc(rest));
                        }
                    }
                    out
                }
            }))
            .unwrap_or_else(|_| "panic".to_string()),
            "L" => {
                let pat = pattern(toks[i + 3]);
                used = 4;
                catch_unwind(AssertUnwindSafe(|| show_list(&fsys, fsys.list(&path, pat.as_deref(), loc)))).unwrap_or_else(|_| "panic".to_string())
            }
            "S" => catch_unwind(AssertUnwindSafe(|| show_list(&fsys, fsys.subdirectories(&path, loc)))).unwrap_or_else(|_| "panic".to_string()),
            "TA" => catch_unwind(AssertUnwindSafe(|| typed_bin(&fsys, &path, loc))).unwrap_or_else(|_| "panic".to_string()),
            "TT" => catch_unwind(AssertUnwindSafe(|| typed_text(&fsys, &path, loc))).unwrap_or_else(|_| "panic".to_string()),
            "TR" => {
                let k: u32 = toks[i + 3].parse().unwrap();
                used = 4;
                catch_unwind(AssertUnwindSafe(|| typed_other(&fsys, &path, loc, k))).unwrap_or_else(|_| "panic".to_string())
            }
            "WA" => {
                let e = endian_of(toks[i + 3]);
                let file = parse_b(toks[i + 4]);
                used = 6;
                catch_unwind(AssertUnwindSafe(|| match BinArchive::from_bytes(&file, e) {
                    Ok(a) => show_unit(fsys.write_archive(&path, &a, loc)),
                    Err(_) => "BAD-ARCHIVE".to_string(),
                }))
                .unwrap_or_else(|_| "panic".to_string())
            }
            "WT" => {
                let f = tfmt_of(toks[i + 3]);
                let e = endian_of(toks[i + 4]);
                let file = parse_b(toks[i + 5]);
                used = 7;
                catch_unwind(AssertUnwindSafe(|| match TextArchive::from_bytes(&file, f, e) {
                    Ok(a) => show_unit(fsys.write_text_archive(&path, &a, loc)),
                    Err(_) => "BAD-ARCHIVE".to_string(),
                }))
                .unwrap_or_else(|_| "panic".to_string())
            }
            // test set-up, not an API call: H <layer> <Lsrc> <Ldst> creates a HARD LINK dst -> src inside layer <layer> (seeded change C13-10)
            "H" => {
                used = 4;
                let li: usize = toks[i + 1].parse().unwrap();
                let dst = str_of_l(toks[i + 3]);
                if !safe_rel(&dst) || dst.is_empty() || path.is_empty() {
                    return "REFUSED-PATH".to_string();
                }
                let to = st.roots[li].join(&dst);
                if let Some(par) = to.parent() {
                    let _ = std::fs::create_dir_all(par);
                }
                match std::fs::hard_link(st.roots[li].join(&path), &to) {
                    Ok(()) => "link:ok".to_string(),
                    Err(e) => format!("link:err:{:?}", e.kind()),
                }
            }
            x => panic!("fs: bad op {}", x),
        };
        i += used;
        let w = walk_all(&st.roots);
        if w == last {
            acc.push(format!("{} @ =", ret));
        } else {
            acc.push(format!("{} @ {}", ret, w));
            last = w;
        }
    }
    acc.join(" ; ")
}
