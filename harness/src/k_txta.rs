// C06 / C05: TextArchive::from_archive on a BinArchive built through the public API (also ill-formed ones:
// labels on unaligned addresses, several labels per address, unlabelled or unterminated cells).
//   txta <U|S> <L|B> B<data> <n> (<address> B<label>)*
// Output as kind txtf, or build=err when a label address is rejected.
use crate::h_txt::*;
use crate::h_util::*;
use encoding_rs::SHIFT_JIS;
use mila::{BinArchive, TextArchive};

pub fn run(toks: &[&str]) -> String {
    let fmt = fmt_of(toks[0]);
    let endian = endian_of(toks[1]);
    let data = parse_b(toks[2]);
    let n: usize = toks[3].parse().unwrap();
    let mut a = BinArchive::new(endian);
    a.allocate_at_end(data.len());
    if !data.is_empty() && a.write_bytes(0, &data).is_err() {
        return "build=err".to_string();
    }
    for i in 0..n {
        let address: usize = toks[4 + 2 * i].parse().unwrap();
        let raw = parse_b(toks[5 + 2 * i]);
        let (label, _, _) = SHIFT_JIS.decode(&raw);
        if a.write_label(address, &label).is_err() {
            return "build=err".to_string();
        }
    }
    report_parsed(fmt, TextArchive::from_archive(&a, fmt, endian))
}
