// Correspondence harness: drives the real mila library (path dependency on /repo) with the
// cases the extracted Coq model also receives; one canonical result line per case.
mod util;
mod c07;
mod c14;

use std::io::{BufRead, Write};
use std::panic;

fn handle(line: &str) -> String {
    let toks: Vec<&str> = line.split(' ').filter(|s| !s.is_empty()).collect();
    if toks.is_empty() {
        return String::new();
    }
    match toks[0] {
        "c07" => c07::run(&toks[1..]),
        "c14" => c14::run(&toks[1..]),
        k => format!("UNKNOWN-KIND {}", k),
    }
}

fn main() {
    panic::set_hook(Box::new(|info| {
        let loc = info.location().map(|l| format!("{}:{}", l.file(), l.line())).unwrap_or_default();
        eprintln!("PANIC-AT {}", loc);
    }));
    let stdin = std::io::stdin();
    let stdout = std::io::stdout();
    let mut out = stdout.lock();
    for line in stdin.lock().lines() {
        let line = line.unwrap();
        let res = panic::catch_unwind(|| handle(&line));
        match res {
            Ok(s) => writeln!(out, "{}", s).unwrap(),
            Err(_) => writeln!(out, "PANIC").unwrap(),
        }
        out.flush().unwrap();
    }
}
