// Bin-archive histories (C01-C04): a sequence of public-API operations on one BinArchive,
// result of every call and (optionally) the full observable state after it.
//   ba <L|B> <s0|s1|s2> op args ... op args ...
// s0: results only; s1: + state (size, data, strings, pointers, labels, destinations);
// s2: + serialize() image.   Strings are given in Shift-JIS encoded form (B-tokens).
use crate::h_util::*;
use encoding_rs::SHIFT_JIS;
use mila::{ArchiveError, BinArchive, BinArchiveReader, BinArchiveWriter, Endian};

pub fn sjis(tok: &str) -> String {
    let b = parse_b(tok);
    let (s, _, _) = SHIFT_JIS.decode(&b);
    s.into_owned()
}

pub fn show_sjis(s: &str) -> String {
    let (b, _, _) = SHIFT_JIS.encode(s);
    show_b(&b)
}

pub fn err_kind(e: &ArchiveError) -> &'static str {
    match e {
        ArchiveError::OutOfBoundsAddress(_, _) => "err:oob",
        ArchiveError::UnalignedValue(_, _) => "err:unaligned",
        ArchiveError::LabelIndexOutOfBounds(_, _) => "err:labelidx",
        ArchiveError::ArchiveTooSmall => "err:toosmall",
        _ => "err:other",
    }
}

fn unit(r: Result<(), ArchiveError>) -> String {
    match r {
        Ok(()) => "ok".to_string(),
        Err(e) => err_kind(&e).to_string(),
    }
}

fn num<T: std::fmt::Display>(r: Result<T, ArchiveError>) -> String {
    match r {
        Ok(v) => format!("ok:{}", v),
        Err(e) => err_kind(&e).to_string(),
    }
}

fn optstr(r: Result<Option<String>, ArchiveError>) -> String {
    match r {
        // a string decoded lossily from bytes that are not Shift-JIS text (read_c_string through a pointer into raw
        // data: U+FFFD, or a private-use / IBM-extension code the encoder cannot map back) has no faithful byte form: printed as LOSSY, compared as a wildcard (outside the properties' domain)
        Ok(Some(s)) if s.contains('\u{FFFD}') || SHIFT_JIS.encode(&s).2 => "ok:some:LOSSY".to_string(),
        Ok(Some(s)) => format!("ok:some:{}", show_sjis(&s)),
        Ok(None) => "ok:none".to_string(),
        Err(e) => err_kind(&e).to_string(),
    }
}

/// read_c_string results: the string is printed as bytes only when it is a FAITHFUL decoding of the raw bytes it was read
/// from (re-encoding gives exactly those bytes); otherwise LOSSY (see optstr)
fn optcstr(a: &BinArchive, addr: usize, r: Result<Option<String>, ArchiveError>) -> String {
    if let Ok(Some(s)) = &r {
        let raw = (|| -> Option<Vec<u8>> {
            let dest = a.read_pointer(addr).ok()??;
            let mut v = Vec::new();
            let mut p = dest;
            loop {
                match a.read_u8(p) {
                    Ok(0) => return Some(v),
                    Ok(b) => {
                        v.push(b);
                        p += 1;
                    }
                    Err(_) => return None,
                }
            }
        })();
        let (enc, _, bad) = SHIFT_JIS.encode(s);
        if bad || raw.as_deref() != Some(&enc[..]) {
            return "ok:some:LOSSY".to_string();
        }
    }
    optstr(r)
}

fn optnum(r: Result<Option<usize>, ArchiveError>) -> String {
    match r {
        Ok(Some(v)) => format!("ok:some:{}", v),
        Ok(None) => "ok:none".to_string(),
        Err(e) => err_kind(&e).to_string(),
    }
}

fn optlabels(r: Result<Option<Vec<String>>, ArchiveError>) -> String {
    match r {
        Ok(Some(v)) => format!("ok:some:{}", v.iter().map(|s| show_sjis(s)).collect::<Vec<_>>().join("|")),
        Ok(None) => "ok:none".to_string(),
        Err(e) => err_kind(&e).to_string(),
    }
}

pub fn state(a: &BinArchive, level: u8) -> String {
    if level == 0 {
        return String::new();
    }
    let size = a.size();
    let data = if size > 0 { a.read_bytes(0, size).map(|b| b.to_vec()).unwrap_or_default() } else { Vec::new() };
    let mut t: Vec<String> = Vec::new();
    let mut p: Vec<String> = Vec::new();
    let mut addr = 0usize;
    while addr + 4 <= size {
        if let Ok(Some(s)) = a.read_string(addr) {
            t.push(format!("{}:{}", addr, show_sjis(&s)));
        }
        if let Ok(Some(v)) = a.read_pointer(addr) {
            p.push(format!("{}:{}", addr, v));
        }
        addr += 1;
    }
    // labels: all_labels() is sorted by address (stable), bucket order preserved
    let mut l: Vec<String> = Vec::new();
    let mut cur: Option<usize> = None;
    for (ad, name) in a.all_labels() {
        if cur == Some(ad) {
            let last = l.last_mut().unwrap();
            last.push('|');
            last.push_str(&show_sjis(&name));
        } else {
            l.push(format!("{}:{}", ad, show_sjis(&name)));
            cur = Some(ad);
        }
    }
    let mut dests: Vec<usize> = a.pointer_destinations().into_iter().collect();
    dests.sort();
    let mut s = format!(
        " | sz={} d={} t=[{}] p=[{}] l=[{}] pd=[{}]",
        size,
        show_b(&data),
        t.join(","),
        p.join(","),
        l.join(","),
        dests.iter().map(|x| x.to_string()).collect::<Vec<_>>().join(",")
    );
    if level >= 2 {
        match a.serialize() {
            Ok(b) => {
                // where the pending c-strings land: re-parse the image and read every pointer into the pool
                let endian = if b.len() >= 4 && u32::from_le_bytes([b[0], b[1], b[2], b[3]]) as usize == b.len() { Endian::Little } else { Endian::Big };
                let mut rc: Vec<String> = Vec::new();
                match BinArchive::from_bytes(&b, endian) {
                    Ok(re) => {
                        let mut addr = 0usize;
                        while addr + 4 <= re.size() {
                            if let Ok(Some(_)) = re.read_pointer(addr) {
                                // a pointer the original archive does not have: a published c-string
                                if !matches!(a.read_pointer(addr), Ok(Some(_))) {
                                    match re.read_c_string(addr) {
                                        Ok(Some(x)) => rc.push(format!("{}:{}", addr, show_sjis(&x))),
                                        _ => rc.push(format!("{}:?", addr)),
                                    }
                                }
                            }
                            addr += 1;
                        }
                        s.push_str(&format!(" rc=[{}]", rc.join(",")));
                        if level >= 3 {
                            // full observable state of the re-parsed archive and its re-serialization
                            s.push_str(&format!(" re:{}", state(&re, 1)));
                            match re.serialize() {
                                Ok(b2) => s.push_str(&format!(" reser={}", if b2 == b { "same".to_string() } else { show_b(&b2) })),
                                Err(_) => s.push_str(" reser=err"),
                            }
                        }
                    }
                    Err(_) => s.push_str(" rc=err"),
                }
                s.push_str(&format!(" ser={}", show_b(&b)))
            }
            Err(_) => s.push_str(" ser=err"),
        }
    }
    s
}

fn u(tok: &str) -> usize {
    tok.parse::<usize>().unwrap()
}

fn b(tok: &str) -> bool {
    tok == "1"
}

const READER_OPS: [&str; 15] = [
    "Rseek", "Rskip", "Rru8", "Rri8", "Rru16", "Rri16", "Rru32", "Rri32", "Rrf32", "Rrb", "Rrs", "Rrp", "Rrc", "Rrls", "Rrl",
];
const WRITER_OPS: [&str; 18] = [
    "Wseek", "Wskip", "Wal", "Waae", "Wwu8", "Wwi8", "Wwu16", "Wwi16", "Wwu32", "Wwi32", "Wwf32", "Wwb", "Wws", "Wws0", "Wwp", "Wwp0", "Wwl",
    "Wwc",
];

/// one stream-reader operation on a LIVE reader (the object survives from one call to the next)
fn reader_op(r: &mut BinArchiveReader, a: &BinArchive, toks: &[&str], i: usize) -> (String, usize) {
    let arg = |k: usize| toks[i + k];
    match toks[i] {
        "Rseek" => {
            r.seek(u(arg(1)));
            (format!("pos:{}", r.tell()), 1)
        }
        "Rskip" => {
            r.skip(u(arg(1)));
            (format!("pos:{}", r.tell()), 1)
        }
        "Rru8" => { let x = num(r.read_u8()); (format!("{} pos:{}", x, r.tell()), 0) }
        "Rri8" => { let x = num(r.read_i8()); (format!("{} pos:{}", x, r.tell()), 0) }
        "Rru16" => { let x = num(r.read_u16()); (format!("{} pos:{}", x, r.tell()), 0) }
        "Rri16" => { let x = num(r.read_i16()); (format!("{} pos:{}", x, r.tell()), 0) }
        "Rru32" => { let x = num(r.read_u32()); (format!("{} pos:{}", x, r.tell()), 0) }
        "Rri32" => { let x = num(r.read_i32()); (format!("{} pos:{}", x, r.tell()), 0) }
        "Rrf32" => { let x = num(r.read_f32().map(|f| f.to_bits())); (format!("{} pos:{}", x, r.tell()), 0) }
        "Rrb" => {
            let x = match r.read_bytes(u(arg(1))) {
                Ok(x) => format!("ok:{}", show_b(&x)),
                Err(e) => err_kind(&e).to_string(),
            };
            (format!("{} pos:{}", x, r.tell()), 1)
        }
        "Rrs" => { let x = optstr(r.read_string()); (format!("{} pos:{}", x, r.tell()), 0) }
        "Rrp" => { let x = optnum(r.read_pointer()); (format!("{} pos:{}", x, r.tell()), 0) }
        "Rrc" => {
            let at = r.tell();
            let x = r.read_c_string();
            (format!("{} pos:{}", optcstr(a, at, x), r.tell()), 0)
        }
        "Rrls" => { let x = optlabels(r.read_labels()); (format!("{} pos:{}", x, r.tell()), 0) }
        "Rrl" => { let x = optstr(r.read_label(u(arg(1)))); (format!("{} pos:{}", x, r.tell()), 1) }
        x => panic!("ba: bad reader op {}", x),
    }
}

/// one stream-writer operation on a LIVE writer
fn writer_op(w: &mut BinArchiveWriter, toks: &[&str], i: usize) -> (String, usize) {
    let arg = |k: usize| toks[i + k];
    match toks[i] {
        "Wseek" => {
            w.seek(u(arg(1)));
            (format!("pos:{}", w.tell()), 1)
        }
        "Wskip" => {
            w.skip(u(arg(1)));
            (format!("pos:{}", w.tell()), 1)
        }
        "Wal" => { let x = unit(w.allocate(u(arg(1)), b(arg(2)))); (format!("{} pos:{}", x, w.tell()), 2) }
        "Waae" => {
            w.allocate_at_end(u(arg(1)));
            (format!("ok pos:{}", w.tell()), 1)
        }
        "Wwu8" => { let x = unit(w.write_u8(arg(1).parse().unwrap())); (format!("{} pos:{}", x, w.tell()), 1) }
        "Wwi8" => { let x = unit(w.write_i8(arg(1).parse().unwrap())); (format!("{} pos:{}", x, w.tell()), 1) }
        "Wwu16" => { let x = unit(w.write_u16(arg(1).parse().unwrap())); (format!("{} pos:{}", x, w.tell()), 1) }
        "Wwi16" => { let x = unit(w.write_i16(arg(1).parse().unwrap())); (format!("{} pos:{}", x, w.tell()), 1) }
        "Wwu32" => { let x = unit(w.write_u32(arg(1).parse().unwrap())); (format!("{} pos:{}", x, w.tell()), 1) }
        "Wwi32" => { let x = unit(w.write_i32(arg(1).parse().unwrap())); (format!("{} pos:{}", x, w.tell()), 1) }
        "Wwf32" => { let x = unit(w.write_f32(f32::from_bits(arg(1).parse().unwrap()))); (format!("{} pos:{}", x, w.tell()), 1) }
        "Wwb" => { let x = unit(w.write_bytes(&parse_b(arg(1)))); (format!("{} pos:{}", x, w.tell()), 1) }
        "Wws" => { let x = unit(w.write_string(Some(&sjis(arg(1))))); (format!("{} pos:{}", x, w.tell()), 1) }
        "Wws0" => { let x = unit(w.write_string(None)); (format!("{} pos:{}", x, w.tell()), 0) }
        "Wwp" => { let x = unit(w.write_pointer(Some(u(arg(1))))); (format!("{} pos:{}", x, w.tell()), 1) }
        "Wwp0" => { let x = unit(w.write_pointer(None)); (format!("{} pos:{}", x, w.tell()), 0) }
        "Wwl" => { let x = unit(w.write_label(&sjis(arg(1)))); (format!("{} pos:{}", x, w.tell()), 1) }
        "Wwc" => { let x = unit(w.write_c_string(sjis(arg(1)))); (format!("{} pos:{}", x, w.tell()), 1) }
        x => panic!("ba: bad writer op {}", x),
    }
}

// Object lifetime of the stream accessors: ONE BinArchiveReader serves a maximal run of consecutive reader operations and ONE
// BinArchiveWriter a maximal run of consecutive writer operations (anything cached inside a long-lived reader / writer is
// exercised: seeded changes C03-8, C04-7, C04-8); any other operation - a positional call, or the explicit no-op `fresh` - ends
// the run, and the next stream operation constructs a new object at the remembered cursor.  The model has no object identity:
// its stream operations are functions of (archive, cursor), so both regimes must print the same lines.
pub fn run(toks: &[&str]) -> String {
    let endian = if toks[0] == "B" { Endian::Big } else { Endian::Little };
    let mut level: u8 = toks[1][1..].parse().unwrap();
    let mut a = BinArchive::new(endian);
    let mut rpos: usize = 0; // reader cursor (carried from one reader object to the next)
    let mut wpos: usize = 0; // writer cursor
    let mut acc: Vec<String> = Vec::new();
    let mut i = 2;
    while i < toks.len() {
        if READER_OPS.contains(&toks[i]) {
            let mut r = BinArchiveReader::new(&a, rpos);
            while i < toks.len() && READER_OPS.contains(&toks[i]) {
                let (res, used) = reader_op(&mut r, &a, toks, i);
                acc.push(format!("{}{}", res, state(&a, level)));
                i += 1 + used;
            }
            rpos = r.tell();
            continue;
        }
        if WRITER_OPS.contains(&toks[i]) {
            // The full state is printed after EVERY operation, also while the writer - which holds the `&mut` to the archive -
            // is alive.  The library offers no way to look at the archive through a writer, so the archive is reached through a
            // raw pointer for the duration of the run: `ap` is the only path used (the writer is built from it, the state is read
            // from it, never from `a`), the two uses never overlap in time (a writer call has returned before the state is
            // read, single thread).  This aliases a live `&mut` and is outside Rust's reference rules; it is confined to this
            // test harness and is what makes per-operation observation of a long-lived writer possible.
            let ap: *mut BinArchive = &mut a;
            {
                let mut w = BinArchiveWriter::new(unsafe { &mut *ap }, wpos);
                while i < toks.len() && WRITER_OPS.contains(&toks[i]) {
                    let (res, used) = writer_op(&mut w, toks, i);
                    let st = state(unsafe { &*ap }, level);
                    acc.push(format!("{}{}", res, st));
                    i += 1 + used;
                }
                wpos = w.tell();
            }
            continue;
        }
        let op = toks[i];
        let arg = |k: usize| toks[i + k];
        let (res, used): (String, usize) = match op {
            // ends a run of stream operations: the next one gets a fresh reader / writer
            "fresh" => ("ok".to_string(), 0),
            "from" => match BinArchive::from_bytes(&parse_b(arg(1)), endian) {
                Ok(x) => {
                    a = x;
                    ("ok".to_string(), 1)
                }
                Err(e) => (err_kind(&e).to_string(), 1),
            },
            "lvl" => {
                level = arg(1).parse().unwrap();
                ("ok".to_string(), 1)
            }
            "aae" => {
                a.allocate_at_end(u(arg(1)));
                ("ok".to_string(), 1)
            }
            "al" => (unit(a.allocate(u(arg(1)), u(arg(2)), b(arg(3)))), 3),
            "de" => (unit(a.deallocate(u(arg(1)), u(arg(2)), b(arg(3)))), 3),
            "tr" => (unit(a.truncate(u(arg(1)))), 1),
            "wu8" => (unit(a.write_u8(u(arg(1)), arg(2).parse().unwrap())), 2),
            "wi8" => (unit(a.write_i8(u(arg(1)), arg(2).parse().unwrap())), 2),
            "wu16" => (unit(a.write_u16(u(arg(1)), arg(2).parse().unwrap())), 2),
            "wi16" => (unit(a.write_i16(u(arg(1)), arg(2).parse().unwrap())), 2),
            "wu32" => (unit(a.write_u32(u(arg(1)), arg(2).parse().unwrap())), 2),
            "wi32" => (unit(a.write_i32(u(arg(1)), arg(2).parse().unwrap())), 2),
            "wf32" => (unit(a.write_f32(u(arg(1)), f32::from_bits(arg(2).parse().unwrap()))), 2),
            "wb" => (unit(a.write_bytes(u(arg(1)), &parse_b(arg(2)))), 2),
            "ru8" => (num(a.read_u8(u(arg(1)))), 1),
            "ri8" => (num(a.read_i8(u(arg(1)))), 1),
            "ru16" => (num(a.read_u16(u(arg(1)))), 1),
            "ri16" => (num(a.read_i16(u(arg(1)))), 1),
            "ru32" => (num(a.read_u32(u(arg(1)))), 1),
            "ri32" => (num(a.read_i32(u(arg(1)))), 1),
            "rf32" => (num(a.read_f32(u(arg(1))).map(|f| f.to_bits())), 1),
            "rb" => (
                match a.read_bytes(u(arg(1)), u(arg(2))) {
                    Ok(x) => format!("ok:{}", show_b(x)),
                    Err(e) => err_kind(&e).to_string(),
                },
                2,
            ),
            "ws" => (unit(a.write_string(u(arg(1)), Some(&sjis(arg(2))))), 2),
            "ws0" => (unit(a.write_string(u(arg(1)), None)), 1),
            "wp" => (unit(a.write_pointer(u(arg(1)), Some(u(arg(2))))), 2),
            "wp0" => (unit(a.write_pointer(u(arg(1)), None)), 1),
            "wl" => (unit(a.write_label(u(arg(1)), &sjis(arg(2)))), 2),
            "wls" => {
                let n = u(arg(2));
                let v: Vec<String> = (0..n).map(|k| sjis(arg(3 + k))).collect();
                (unit(a.write_labels(u(arg(1)), v)), 2 + n)
            }
            "wc" => (unit(a.write_c_string(u(arg(1)), sjis(arg(2)))), 2),
            "rs" => (optstr(a.read_string(u(arg(1)))), 1),
            "rp" => (optnum(a.read_pointer(u(arg(1)))), 1),
            "rl" => (optlabels(a.read_labels(u(arg(1)))), 1),
            "rc" => (optcstr(&a, u(arg(1)), a.read_c_string(u(arg(1)))), 1),
            "ds" => (unit(a.delete_string(u(arg(1)))), 1),
            "dp" => (unit(a.delete_pointer(u(arg(1)))), 1),
            "dls" => (unit(a.delete_labels(u(arg(1)))), 1),
            "dl" => (unit(a.delete_label(u(arg(1)), u(arg(2)))), 2),
            "fl" => (
                match a.find_label_address(&sjis(arg(1))) {
                    Some(x) => format!("some:{}", x),
                    None => "none".to_string(),
                },
                1,
            ),
            "ser" => (
                match a.serialize() {
                    Ok(x) => format!("ok:{}", show_b(&x)),
                    Err(_) => "err:other".to_string(),
                },
                0,
            ),
            x => panic!("ba: bad op {}", x),
        };
        acc.push(format!("{}{}", res, state(&a, level)));
        i += 1 + used;
    }
    acc.join(" ; ")
}
