// C09/C10: `lz13f <flag> B<input>` -> as lz13c, but through the enum: CompressionFormat::LZ13(..).compress,
// then CompressionFormat::LZ13(..).decompress of the result (src/compression_format.rs:20-32).
use crate::h_lz::compress_line;
use crate::h_util::parse_b;
use mila::{CompressionFormat, LZ13CompressionFormat};

pub fn run(toks: &[&str]) -> String {
    let input = parse_b(toks[1]);
    let f = CompressionFormat::LZ13(LZ13CompressionFormat {});
    compress_line(&input, |b| f.compress(b), |b| f.decompress(b))
}
