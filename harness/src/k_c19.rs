// C19: pixel decoding.  Sub-kinds (first token):
//   color <fmt> <w> <h> B<payload>            3DS raw format through a single-texture CTPK (ctpk::read)
//   bigcolor ...                              same, the model driver skips it (oracle-only stream)
//   etc <alpha 0|1> <w> <h> B<payload>        mila::decode (ETC1 / ETC1A4)
//   bigetc ...                                same, oracle-only
//   rgb5a3 B<data>                            ColorFormat::RGB5A3.decode
//   idx B<data> B<rgba palette>               ColorFormat::CI8.decode_indexed
//   pal <w> <h> B<image data> B<palette data> CI8 image + RGB5A3 palette through a single-image TPL (Tpl::extract_textures)
//   bigpal ...                                same, oracle-only
//   ctpkprobe <fmt> <w> <h> <len>             ctpk::read with a zero payload of len bytes: "ok <output length>" | "err"
//   cfdec <cf> B<data>                        ColorFormat::<cf>.decode, cf: 0 RGBA8, 1 RGB5A3, 2 CI8, other Unrecognized
//   cfidx <cf> B<data> B<rgba palette>        ColorFormat::<cf>.decode_indexed
//                                             (these two print the error variant: "err <Variant>")
// Output: "ok B<rgba bytes>" | "err" ; panics are caught in main.rs ("PANIC").
// Every kind hands its input to the library twice, as a slice starting at an even and at an odd address
// (at_both_alignments): the model has no addresses, so both results must be the same ("ADDRESS-DEPENDENT ..." otherwise).
use crate::h_util::*;
use mila::*;

fn le32(v: &mut Vec<u8>, x: u32) {
    v.extend_from_slice(&x.to_le_bytes());
}
fn le16(v: &mut Vec<u8>, x: u16) {
    v.extend_from_slice(&x.to_le_bytes());
}
fn be32(v: &mut Vec<u8>, x: u32) {
    v.extend_from_slice(&x.to_be_bytes());
}
fn be16(v: &mut Vec<u8>, x: u16) {
    v.extend_from_slice(&x.to_be_bytes());
}

/// minimal CTPK: header 0x20, one info entry 0x20, name "t\0" padded to 0x48, payload at 0x48
pub fn ctpk_single(fmt: u32, w: u16, h: u16, payload: &[u8]) -> Vec<u8> {
    let mut f: Vec<u8> = Vec::new();
    le32(&mut f, 0x4b505443); // "CTPK"
    le16(&mut f, 1);
    le16(&mut f, 1); // texture count
    le32(&mut f, 0x48); // texture section
    le32(&mut f, payload.len() as u32);
    le32(&mut f, 0);
    le32(&mut f, 0);
    f.extend_from_slice(&[0u8; 8]);
    le32(&mut f, 0x40); // name ptr
    le32(&mut f, payload.len() as u32);
    le32(&mut f, 0); // offset in the texture section
    le32(&mut f, fmt);
    le16(&mut f, w);
    le16(&mut f, h);
    f.push(1);
    f.push(0);
    le16(&mut f, 0);
    le32(&mut f, 0);
    le32(&mut f, 0);
    f.extend_from_slice(b"t\0\0\0\0\0\0\0");
    f.extend_from_slice(payload);
    f
}

/// minimal TPL: one CI8 image with an RGB5A3 palette
pub fn tpl_single(w: u16, h: u16, image: &[u8], palette: &[u8]) -> Vec<u8> {
    let mut f: Vec<u8> = Vec::new();
    be32(&mut f, 0x0020AF30);
    be32(&mut f, 1);
    be32(&mut f, 0x0c); // image table
    be32(&mut f, 0x14 + 12); // image header at 0x20
    be32(&mut f, 0x14); // palette header at 0x14
    // palette header (12 bytes) at 0x14
    be16(&mut f, (palette.len() / 2) as u16);
    f.push(0);
    f.push(0);
    be32(&mut f, 2); // RGB5A3
    be32(&mut f, 0x20 + 36); // palette data
    // image header (36 bytes) at 0x20
    be16(&mut f, h);
    be16(&mut f, w);
    be32(&mut f, 9); // CI8
    be32(&mut f, (0x20 + 36 + palette.len()) as u32);
    f.extend_from_slice(&[0u8; 24]);
    f.extend_from_slice(palette);
    f.extend_from_slice(image);
    f
}

/// Runs `f` on the same bytes at an EVEN and at an ODD start address (a copy inside a padded buffer); the library's result
/// must not depend on where the caller's slice happens to start.  Both outputs equal -> that output, else a marker.
fn at_both_alignments<F: Fn(&[u8]) -> String>(data: &[u8], f: F) -> String {
    let mut buf: Vec<u8> = vec![0xA5u8; data.len() + 2];
    let base = buf.as_ptr() as usize;
    let (even_off, odd_off) = if base % 2 == 0 { (0usize, 1usize) } else { (1usize, 0usize) };
    buf[even_off..even_off + data.len()].copy_from_slice(data);
    let even = f(&buf[even_off..even_off + data.len()]);
    for b in buf.iter_mut() {
        *b = 0x5A;
    }
    buf[odd_off..odd_off + data.len()].copy_from_slice(data);
    let odd = f(&buf[odd_off..odd_off + data.len()]);
    if even == odd {
        even
    } else {
        let cut = |s: &str| s.chars().take(60).collect::<String>();
        format!("ADDRESS-DEPENDENT even={} odd={}", cut(&even), cut(&odd))
    }
}

fn color_format(tok: &str) -> ColorFormat {
    match tok {
        "0" => ColorFormat::RGBA8,
        "1" => ColorFormat::RGB5A3,
        "2" => ColorFormat::CI8,
        _ => ColorFormat::Unrecognized,
    }
}

fn show_cf(r: std::result::Result<Vec<u8>, TextureDecodeError>) -> String {
    match r {
        Ok(p) => format!("ok {}", show_b(&p)),
        Err(TextureDecodeError::UnsupportedFormat) => "err UnsupportedFormat".to_string(),
        Err(TextureDecodeError::UnalignedData) => "err UnalignedData".to_string(),
        Err(TextureDecodeError::NotIndexed) => "err NotIndexed".to_string(),
        Err(TextureDecodeError::NoPalette) => "err NoPalette".to_string(),
        Err(TextureDecodeError::OutOfBoundsIndex) => "err OutOfBoundsIndex".to_string(),
        Err(_) => "err Other".to_string(),
    }
}

pub fn run(toks: &[&str]) -> String {
    match toks[0] {
        "ctpkprobe" => {
            // ctpk::read on a zero-filled payload of the given length: "ok <pixel_data.len()>" | "err"
            let fmt: u32 = toks[1].parse().unwrap();
            let w: u16 = toks[2].parse().unwrap();
            let h: u16 = toks[3].parse().unwrap();
            let len: usize = toks[4].parse().unwrap();
            let file = ctpk_single(fmt, w, h, &vec![0u8; len]);
            match ctpk::read(&file) {
                Ok(t) => format!("ok {}", t[0].pixel_data.len()),
                Err(_) => "err".to_string(),
            }
        }
        "cfdec" => at_both_alignments(&parse_b(toks[2]), |d| show_cf(color_format(toks[1]).decode(d))),
        "cfidx" => {
            let pal = parse_b(toks[3]);
            at_both_alignments(&parse_b(toks[2]), |d| {
                at_both_alignments(&pal, |p| show_cf(color_format(toks[1]).decode_indexed(d, p)))
            })
        }
        "color" | "bigcolor" => {
            let fmt: u32 = toks[1].parse().unwrap();
            let w: u16 = toks[2].parse().unwrap();
            let h: u16 = toks[3].parse().unwrap();
            let payload = parse_b(toks[4]);
            let file = ctpk_single(fmt, w, h, &payload);
            at_both_alignments(&file, |f| match ctpk::read(f) {
                Ok(t) => {
                    if t.len() != 1 || t[0].width != w as usize || t[0].height != h as usize {
                        return "ok-bad-shape".to_string();
                    }
                    format!("ok {}", show_b(&t[0].pixel_data))
                }
                Err(_) => "err".to_string(),
            })
        }
        "etc" | "bigetc" => {
            let alpha = toks[1] == "1";
            let w: usize = toks[2].parse().unwrap();
            let h: usize = toks[3].parse().unwrap();
            let payload = parse_b(toks[4]);
            at_both_alignments(&payload, |d| match decode(d, w, h, alpha) {
                Ok(p) => format!("ok {}", show_b(&p)),
                Err(_) => "err".to_string(),
            })
        }
        "rgb5a3" => {
            let data = parse_b(toks[1]);
            at_both_alignments(&data, |d| match ColorFormat::RGB5A3.decode(d) {
                Ok(p) => format!("ok {}", show_b(&p)),
                Err(_) => "err".to_string(),
            })
        }
        "idx" => {
            let data = parse_b(toks[1]);
            let pal = parse_b(toks[2]);
            at_both_alignments(&data, |d| {
                at_both_alignments(&pal, |pl| match ColorFormat::CI8.decode_indexed(d, pl) {
                    Ok(p) => format!("ok {}", show_b(&p)),
                    Err(_) => "err".to_string(),
                })
            })
        }
        "pal" | "bigpal" => {
            let w: u16 = toks[1].parse().unwrap();
            let h: u16 = toks[2].parse().unwrap();
            let image = parse_b(toks[3]);
            let pal = parse_b(toks[4]);
            let file = tpl_single(w, h, &image, &pal);
            at_both_alignments(&file, |f| match tpl::Tpl::extract_textures(f) {
                Ok(t) => {
                    if t.len() != 1 || t[0].width != w as usize || t[0].height != h as usize {
                        return "ok-bad-shape".to_string();
                    }
                    format!("ok {}", show_b(&t[0].pixel_data))
                }
                Err(_) => "err".to_string(),
            })
        }
        _ => "bad-subkind".to_string(),
    }
}
