// State left behind by a REJECTED input must not leak into the next call (seeded changes C08-3, C11-4, C01-6, C16-5,
// texshared-1: thread-local scratch buffers cleared only on the success path).  Before every case the harness makes
// one failing call of every parser / decoder family on the thread that then runs the case.  Every call here fails
// AFTER having consumed or produced something; results are ignored, a panic in here is caught and ignored too.
use mila::{BinArchive, ColorFormat, Endian, LZ10CompressionFormat, LZ13CompressionFormat, TextArchive, TextArchiveFormat};

pub fn run() {
    let _ = std::panic::catch_unwind(|| {
        // bin archive whose label name is not terminated (from_bytes fails with UnterminatedString after reading "XY")
        let mut f: Vec<u8> = Vec::new();
        f.extend_from_slice(&46u32.to_le_bytes()); // file size
        f.extend_from_slice(&4u32.to_le_bytes()); // data size
        f.extend_from_slice(&0u32.to_le_bytes()); // pointers
        f.extend_from_slice(&1u32.to_le_bytes()); // labels
        f.extend_from_slice(&[0u8; 16]);
        f.extend_from_slice(&[1, 2, 3, 4]); // data
        f.extend_from_slice(&0u32.to_le_bytes()); // label address
        f.extend_from_slice(&0u32.to_le_bytes()); // label name offset
        f.extend_from_slice(b"XY"); // name without terminator
        let _ = BinArchive::from_bytes(&f, Endian::Little);
        let _ = TextArchive::from_bytes(&f, TextArchiveFormat::ShiftJIS, Endian::Little);
        let _ = mila::arc::from_bytes(&f);
        // a c-string read that runs to the end of the data without a terminator
        let mut a = BinArchive::new(Endian::Little);
        a.allocate_at_end(8);
        let _ = a.write_bytes(4, &[0x4a, 0x55, 0x4e, 0x4b]);
        let _ = a.write_pointer(0, Some(4));
        let _ = a.read_c_string(0);
        // LZ streams that fail after having produced output
        let _ = LZ10CompressionFormat {}.decompress(&[0x10, 0x10, 0, 0, 0x00, 1, 2, 3]);
        let _ = LZ13CompressionFormat {}.decompress(&[0x13, 0, 0, 0, 0x11, 0x10, 0, 0, 0x00, 1, 2, 3]);
        // pack with an entry whose name is not terminated
        let _ = mila::fe9_arc::parse(&[0x70, 0x61, 0x63, 0x6b, 0, 1, 0, 0, 0, 0, 0, 0, 0, 0, 0, 0x18, 0, 0, 0, 0x19, 0, 0, 0, 0, 0x41]);
        // aset / asset-binary readers on an archive that ends in the middle of a record; a UTF-16 text archive whose
        // message has no terminator
        let mut b = BinArchive::new(Endian::Little);
        b.allocate_at_end(8);
        let _ = b.write_u32(0, 0xFFFF_FFFF);
        let _ = b.write_u32(4, 0xFFFF_FFFF);
        let _ = mila::ASetFile::from_archive(&b);
        let _ = mila::AssetBinary::from_archive(&b);
        let _ = b.write_label(0, "K");
        let _ = TextArchive::from_archive(&b, TextArchiveFormat::Unicode, Endian::Little);
        // a palette image whose second index is outside the palette
        let _ = ColorFormat::CI8.decode_indexed(&[0, 9], &[1, 2, 3, 4]);
    });
}
