// Canonicaliser service (not a property case): `sjisnorm B<raw> B<raw> ...` -> for each token the bytes the
// bin-archive harness prints for the string the library decodes from them (decode with encoding_rs
// SHIFT_JIS, lossy; re-encode), so the model's raw strings can be compared on malformed input.
use crate::h_util::*;
use crate::k_ba::{show_sjis, sjis};

pub fn run(toks: &[&str]) -> String {
    toks.iter().map(|t| show_sjis(&sjis(t))).collect::<Vec<_>>().join(" ")
}
