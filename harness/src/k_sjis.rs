// Canonicaliser service (not a property case): what mila makes of a raw name.
// case: sjis B<raw bytes>      line: <utf-8 hex of the decoded string> <hex of its re-encoding | ?>
// Used by gen/packtotal.py to compare the model's raw (encoded-form) names with the strings the
// library returns on malformed input, so the codec stays on the trusted side (DESIGN 1.4).
use crate::h_pack::*;
use crate::h_util::*;

pub fn run(toks: &[&str]) -> String {
    let raw = parse_b(toks[0]);
    let s = decode_name(&raw);
    let re = match encode_name(&s) {
        Some(b) => hex(&b),
        None => "?".to_string(),
    };
    format!("U{} S{}", hex(s.as_bytes()), re)
}
