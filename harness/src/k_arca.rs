// C05 (arc part): mila::arc::from_bytes on arbitrary bytes with the largest single allocation request
// made during the call (counting allocator, h_alloc).
//   arca B<file>
// Output: <output of kind arc> maxalloc=<n>
use crate::h_alloc;
use crate::h_util::*;

pub fn run(toks: &[&str]) -> String {
    let file = parse_b(toks[0]);
    h_alloc::reset();
    let r = mila::arc::from_bytes(&file);
    let mx = h_alloc::max_request();
    format!("{} maxalloc={}", crate::k_arc::show(r), mx)
}
