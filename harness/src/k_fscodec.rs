// Codec table for the layered-filesystem model: the real compressor / decompressor as data.
// case: fscodec <10|13> <c|d> <Bbytes>   ->   ok:<hex> | err   (a panic is printed as PANIC by main)
use crate::h_fs::hex;
use crate::h_util::*;
use mila::*;

pub fn run(toks: &[&str]) -> String {
    let fmt = if toks[0] == "10" { CompressionFormat::LZ10(LZ10CompressionFormat {}) } else { CompressionFormat::LZ13(LZ13CompressionFormat {}) };
    let b = parse_b(toks[2]);
    let r = if toks[1] == "c" { fmt.compress(&b) } else { fmt.decompress(&b) };
    match r {
        Ok(o) => format!("ok:{}", hex(&o)),
        Err(_) => "err".to_string(),
    }
}
