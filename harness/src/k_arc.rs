// C16 / C05: mila::arc::from_bytes on an image.
//   arc B<file>
// Output: ok [L<name>=B<body> ...]   (sorted by name; names as lists of Unicode scalar values)   |   err:<kind>
use crate::h_txt::*;
use crate::h_util::*;

pub fn run(toks: &[&str]) -> String {
    let file = parse_b(toks[0]);
    show(mila::arc::from_bytes(&file))
}

pub fn show(r: Result<std::collections::HashMap<String, Vec<u8>>, mila::ArcError>) -> String {
    match r {
        Err(e) => arcerr(&e).to_string(),
        Ok(files) => {
            let mut v: Vec<(Vec<u64>, String)> = files
                .iter()
                .map(|(k, b)| (k.chars().map(|c| c as u64).collect::<Vec<u64>>(), show_b(b)))
                .collect();
            v.sort();
            let parts: Vec<String> = v.into_iter().map(|(k, b)| format!("{}={}", show_l(k), b)).collect();
            format!("ok [{}]", parts.join(" "))
        }
    }
}
