// C09/C10: `lz13c <flag> B<input>` -> LZ13CompressionFormat::compress, then ::decompress of the result.
// <flag> only concerns the model driver (0 = skip, 1 = wrapper length bytes not computed, 2 = everything).
use crate::h_lz::compress_line;
use crate::h_util::parse_b;
use mila::LZ13CompressionFormat;

pub fn run(toks: &[&str]) -> String {
    let input = parse_b(toks[1]);
    let f = LZ13CompressionFormat {};
    compress_line(&input, |b| f.compress(b), |b| f.decompress(b))
}
