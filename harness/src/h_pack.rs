// Helpers of the pack-archive kinds (C15, pack part of C05): Shift-JIS names in encoded form.
// A name travels through case lines as the byte string encoding_rs produces for it (assumption
// A-codec); the harness converts with encoding_rs itself and checks losslessness itself.
use encoding_rs::SHIFT_JIS;
use indexmap::IndexMap;

pub fn hex(b: &[u8]) -> String {
    let mut s = String::with_capacity(2 * b.len());
    for x in b {
        s.push_str(&format!("{:02x}", x));
    }
    s
}

/// The very call `read_shift_jis_string` makes on the bytes before the terminator.
pub fn decode_name(raw: &[u8]) -> String {
    let (s, _, _) = SHIFT_JIS.decode(raw);
    s.into_owned()
}

/// The very call `to_shift_jis` makes; None where mila returns EncodingFailed.
pub fn encode_name(s: &str) -> Option<Vec<u8>> {
    let (b, _, bad) = SHIFT_JIS.encode(s);
    if bad {
        None
    } else {
        Some(b.into_owned())
    }
}

/// Some(string) iff `raw` is NUL-free, decodes without error and encodes back to `raw`.
pub fn lossless_name(raw: &[u8]) -> Option<String> {
    if raw.contains(&0) {
        return None;
    }
    let (s, _, bad) = SHIFT_JIS.decode(raw);
    if bad {
        return None;
    }
    match encode_name(&s) {
        Some(b) if b == raw => Some(s.into_owned()),
        _ => None,
    }
}

/// " <sjis hex|?>,<body hex>" per entry, in map order.
pub fn entries_sjis(m: &IndexMap<String, Vec<u8>>) -> String {
    let mut s = String::new();
    for (k, v) in m {
        let n = match encode_name(k) {
            Some(b) => hex(&b),
            None => "?".to_string(),
        };
        s.push_str(&format!(" {},{}", n, hex(v)));
    }
    s
}

/// " <utf-8 hex>,<sjis hex|?>,<body hex>" per entry, in map order.
pub fn entries_both(m: &IndexMap<String, Vec<u8>>) -> String {
    let mut s = String::new();
    for (k, v) in m {
        let n = match encode_name(k) {
            Some(b) => hex(&b),
            None => "?".to_string(),
        };
        s.push_str(&format!(" {},{},{}", hex(k.as_bytes()), n, hex(v)));
    }
    s
}
