// C05 (text part): TextArchive::from_archive on a BinArchive built through the public API, with the largest single
// allocation request made during the from_archive call (counting allocator, h_alloc).
//   txtaa <U|S> <L|B> B<data> <n> (<address> B<label>)*
// Output: <output of kind txta> maxalloc=<n>      (build=err carries no measurement)
use crate::h_alloc;
use crate::h_txt::*;
use crate::h_util::*;
use encoding_rs::SHIFT_JIS;
use mila::{BinArchive, TextArchive};

pub fn run(toks: &[&str]) -> String {
    let fmt = fmt_of(toks[0]);
    let endian = endian_of(toks[1]);
    let data = parse_b(toks[2]);
    let n: usize = toks[3].parse().unwrap();
    let mut a = BinArchive::new(endian);
    a.allocate_at_end(data.len());
    if !data.is_empty() && a.write_bytes(0, &data).is_err() {
        return "build=err".to_string();
    }
    for i in 0..n {
        let address: usize = toks[4 + 2 * i].parse().unwrap();
        let raw = parse_b(toks[5 + 2 * i]);
        let (label, _, _) = SHIFT_JIS.decode(&raw);
        if a.write_label(address, &label).is_err() {
            return "build=err".to_string();
        }
    }
    h_alloc::reset();
    let r = TextArchive::from_archive(&a, fmt, endian);
    let mx = h_alloc::max_request();
    format!("{} maxalloc={}", report_parsed(fmt, r), mx)
}
