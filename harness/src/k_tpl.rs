// C20: Tpl::extract_textures on generated containers and their prefixes (see h_tex.rs for the line formats).
use crate::h_tex::*;
pub fn run(toks: &[&str]) -> String {
    run_kind(toks, mila::tpl::Tpl::extract_textures, enc_utf8)
}
