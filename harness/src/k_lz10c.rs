// C08/C10: `lz10c <flag> B<input>` -> LZ10CompressionFormat::compress, then ::decompress of the result.
// <flag> only concerns the model driver (0 = model skips this case).
use crate::h_lz::compress_line;
use crate::h_util::parse_b;
use mila::LZ10CompressionFormat;

pub fn run(toks: &[&str]) -> String {
    let input = parse_b(toks[1]);
    let f = LZ10CompressionFormat {};
    compress_line(&input, |b| f.compress(b), |b| f.decompress(b))
}
