// Canonicaliser for strings of malformed files (DESIGN 1.4): the model's raw bytes are decoded with the same
// encoding_rs call the library uses.   sjdec B<bytes> ...  ->  L<scalars>[!] ...   (! = not representable again)
use crate::h_util::*;
use encoding_rs::SHIFT_JIS;

pub fn run(toks: &[&str]) -> String {
    let mut out: Vec<String> = Vec::new();
    for t in toks {
        let b = parse_b(t);
        let (s, _, _) = SHIFT_JIS.decode(&b); // the library's own call (BOM sniffing included)
        let (back, _, bad) = SHIFT_JIS.encode(&s);
        let lossy = bad || &back[..] != &b[..];
        out.push(format!("{}{}", show_str(&s), if lossy { "!" } else { "" }));
    }
    out.join(" ")
}
