// C15: fe9_arc::serialize on an ordered map, then fe9_arc::parse of the image.
// case: packser <name1> <body1> <name2> <body2> ...   (names: Shift-JIS bytes, B-tokens)
// line: ok B<image> rt ok <name>,<body> ...   |   ok B<image> rt err   |   err
use crate::h_pack::*;
use crate::h_util::*;
use indexmap::IndexMap;

pub fn run(toks: &[&str]) -> String {
    let mut map: IndexMap<String, Vec<u8>> = IndexMap::new();
    for pair in toks.chunks(2) {
        let raw = parse_b(pair[0]);
        match lossless_name(&raw) {
            Some(s) => {
                if map.insert(s, parse_b(pair[1])).is_some() {
                    return "duplicate-name".to_string();
                }
            }
            None => return "unrepresentable".to_string(),
        }
    }
    match mila::fe9_arc::serialize(&map) {
        Ok(img) => {
            let rt = match mila::fe9_arc::parse(&img) {
                Ok(m2) => format!("ok{}", entries_sjis(&m2)),
                Err(_) => "err".to_string(),
            };
            format!("ok {} rt {}", show_b(&img), rt)
        }
        Err(_) => "err".to_string(),
    }
}
