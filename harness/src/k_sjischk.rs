// A-codec check: `sjischk B<bytes>` -> decode with encoding_rs SHIFT_JIS, re-encode; reports losslessness.
// `sjischk U<scalars as L-list>` -> encode a Unicode string, report bytes, errors and NUL-freeness.
use crate::h_util::*;
use encoding_rs::SHIFT_JIS;

pub fn run(toks: &[&str]) -> String {
    let t = toks[0];
    if t.starts_with('B') {
        let b = parse_b(t);
        let (s, _, had_errors) = SHIFT_JIS.decode(&b);
        let (b2, _, unmappable) = SHIFT_JIS.encode(&s);
        format!(
            "lossless={} decode_errors={} unmappable={} scalars={} reencoded={}",
            b2.as_ref() == b.as_slice() && !had_errors && !unmappable,
            had_errors,
            unmappable,
            show_str(&s),
            show_b(&b2)
        )
    } else {
        let s = str_of_l(&format!("L{}", &t[1..]));
        let (b, _, unmappable) = SHIFT_JIS.encode(&s);
        let (s2, _, had_errors) = SHIFT_JIS.decode(&b);
        format!(
            "bytes={} unmappable={} nulfree={} lossless={}",
            show_b(&b),
            unmappable,
            !b.contains(&0),
            !unmappable && !had_errors && s2 == s
        )
    }
}
