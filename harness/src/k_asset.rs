// Asset binary (C18, asset part of C05): drives mila::AssetBinary / mila::AssetSpec through the public API.
//   asset v <flags> <nspecs> { <smask> B.. <umask> L<18 values> }*   build the value, serialize, parse back, re-serialize
//   asset p B<file bytes>                                            parse arbitrary bytes, re-serialize what was accepted
// smask: bit 0 = name present, bit i (1..33) = i-th optional string (struct declaration order) present; one B token
// (Shift-JIS encoded) per set bit, ascending.  umask: bit j = use flag of the j-th typed field (declaration order);
// L = the 18 values as 32-bit patterns (colour [c0,c1,c2,c3] = c0 + 2^8 c1 + 2^16 c2 + 2^24 c3, f32 = to_bits).
use crate::h_util::*;
use crate::k_ba::{show_sjis, sjis};
use mila::{AssetBinary, AssetSpec, BinArchive, Endian};

fn str_field(s: &mut AssetSpec, i: usize) -> &mut Option<String> {
    match i {
        0 => &mut s.name,
        1 => &mut s.conditional1,
        2 => &mut s.conditional2,
        3 => &mut s.body_model,
        4 => &mut s.body_texture,
        5 => &mut s.head_model,
        6 => &mut s.head_texture,
        7 => &mut s.hair_model,
        8 => &mut s.hair_texture,
        9 => &mut s.outer_clothing_model,
        10 => &mut s.outer_clothing_texture,
        11 => &mut s.underwear_model,
        12 => &mut s.underwear_texture,
        13 => &mut s.mount_model,
        14 => &mut s.mount_texture,
        15 => &mut s.mount_outer_clothing_model,
        16 => &mut s.mount_outer_clothing_texture,
        17 => &mut s.weapon_model_dual,
        18 => &mut s.weapon_model,
        19 => &mut s.skeleton,
        20 => &mut s.mount_skeleton,
        21 => &mut s.accessory1_model,
        22 => &mut s.accessory1_texture,
        23 => &mut s.accessory2_model,
        24 => &mut s.accessory2_texture,
        25 => &mut s.accessory3_model,
        26 => &mut s.accessory3_texture,
        27 => &mut s.attack_animation,
        28 => &mut s.attack_animation2,
        29 => &mut s.visual_effect,
        30 => &mut s.hid,
        31 => &mut s.footstep_sound,
        32 => &mut s.clothing_sound,
        33 => &mut s.voice,
        _ => panic!("asset: string field {}", i),
    }
}

fn set_typed(s: &mut AssetSpec, j: usize, used: bool, v: u32) {
    let c = v.to_le_bytes();
    let f = f32::from_bits(v);
    match j {
        0 => { s.use_hair_color = used; s.hair_color = c; }
        1 => { s.use_skin_color = used; s.skin_color = c; }
        2 => { s.use_weapon_trail_color = used; s.weapon_trail_color = c; }
        3 => { s.use_model_size = used; s.model_size = f; }
        4 => { s.use_head_size = used; s.head_size = f; }
        5 => { s.use_pupil_y = used; s.pupil_y = f; }
        6 => { s.use_unk3 = used; s.unk3 = v; }
        7 => { s.use_unk4 = used; s.unk4 = v; }
        8 => { s.use_unk5 = used; s.unk5 = v; }
        9 => { s.use_unk6 = used; s.unk6 = v; }
        10 => { s.use_bitflags = used; s.bitflags = c; }
        11 => { s.use_unk7 = used; s.unk7 = v; }
        12 => { s.use_unk8 = used; s.unk8 = v; }
        13 => { s.use_unk9 = used; s.unk9 = v; }
        14 => { s.use_unk10 = used; s.unk10 = v; }
        15 => { s.use_unk11 = used; s.unk11 = v; }
        16 => { s.use_unk12 = used; s.unk12 = v; }
        17 => { s.use_unk13 = used; s.unk13 = v; }
        _ => panic!("asset: typed field {}", j),
    }
}

fn get_typed(s: &AssetSpec, j: usize) -> (bool, u32) {
    match j {
        0 => (s.use_hair_color, u32::from_le_bytes(s.hair_color)),
        1 => (s.use_skin_color, u32::from_le_bytes(s.skin_color)),
        2 => (s.use_weapon_trail_color, u32::from_le_bytes(s.weapon_trail_color)),
        3 => (s.use_model_size, s.model_size.to_bits()),
        4 => (s.use_head_size, s.head_size.to_bits()),
        5 => (s.use_pupil_y, s.pupil_y.to_bits()),
        6 => (s.use_unk3, s.unk3),
        7 => (s.use_unk4, s.unk4),
        8 => (s.use_unk5, s.unk5),
        9 => (s.use_unk6, s.unk6),
        10 => (s.use_bitflags, u32::from_le_bytes(s.bitflags)),
        11 => (s.use_unk7, s.unk7),
        12 => (s.use_unk8, s.unk8),
        13 => (s.use_unk9, s.unk9),
        14 => (s.use_unk10, s.unk10),
        15 => (s.use_unk11, s.unk11),
        16 => (s.use_unk12, s.unk12),
        17 => (s.use_unk13, s.unk13),
        _ => panic!("asset: typed field {}", j),
    }
}

fn parse_spec(toks: &[&str], i: &mut usize) -> AssetSpec {
    let mut next = || {
        let t = toks[*i];
        *i += 1;
        t
    };
    let mut s = AssetSpec::new();
    let sm: u64 = next().parse().unwrap();
    for k in 0..34 {
        if (sm >> k) & 1 == 1 {
            *str_field(&mut s, k) = Some(sjis(next()));
        }
    }
    let um: u64 = next().parse().unwrap();
    let vals = parse_l(next());
    for (j, v) in vals.iter().enumerate() {
        set_typed(&mut s, j, (um >> j) & 1 == 1, *v as u32);
    }
    s
}

fn show_spec(s: &AssetSpec) -> String {
    let mut s2 = s.clone();
    let mut sm: u64 = 0;
    let mut parts: Vec<String> = Vec::new();
    for k in 0..34 {
        if let Some(x) = str_field(&mut s2, k) {
            sm |= 1 << k;
            parts.push(show_sjis(x));
        }
    }
    let mut um: u64 = 0;
    let mut vals: Vec<u64> = Vec::new();
    for j in 0..18 {
        let (u, v) = get_typed(s, j);
        if u {
            um |= 1 << j;
        }
        vals.push(v as u64);
    }
    let mut out = vec![sm.to_string()];
    out.extend(parts);
    out.push(um.to_string());
    out.push(show_l(vals));
    out.join(" ")
}

fn show_ab(b: &AssetBinary) -> String {
    let mut out = vec![b.flags.to_string(), b.specs.len().to_string()];
    out.extend(b.specs.iter().map(show_spec));
    out.join(" ")
}

fn ser_s(b: &AssetBinary) -> String {
    match b.serialize() {
        Ok(f) => show_b(&f),
        Err(_) => "err".to_string(),
    }
}

fn parse_s(f: &[u8]) -> String {
    parse_m(f).0
}

/// parse + the largest single allocation request made during BinArchive::from_bytes and AssetBinary::from_archive
fn parse_m(f: &[u8]) -> (String, usize) {
    crate::h_alloc::reset();
    let r = BinArchive::from_bytes(f, Endian::Little).and_then(|a| AssetBinary::from_archive(&a));
    let mx = crate::h_alloc::max_request();
    let line = match r {
        Ok(b) => format!("re=ok:{} | ser2={}", show_ab(&b), ser_s(&b)),
        Err(_) => "re=err".to_string(),
    };
    (line, mx)
}

pub fn run(toks: &[&str]) -> String {
    match toks[0] {
        "v" => {
            let mut b = AssetBinary::new();
            b.flags = toks[1].parse().unwrap();
            let n: usize = toks[2].parse().unwrap();
            let mut i = 3;
            for _ in 0..n {
                b.specs.push(parse_spec(toks, &mut i));
            }
            match b.serialize() {
                Ok(f) => format!("ser={} | {}", show_b(&f), parse_s(&f)),
                Err(_) => "ser=err".to_string(),
            }
        }
        "p" => parse_s(&parse_b(toks[1])),
        "q" => {
            let (line, mx) = parse_m(&parse_b(toks[1]));
            format!("{} maxalloc={}", line, mx)
        }
        x => panic!("asset: bad mode {}", x),
    }
}
