// C20: ctpk::read on generated containers and their prefixes (see h_tex.rs for the line formats).
//   ctpk codec : A-codec table check - for every single byte b and every two-byte string [l, t]: does encoding_rs
//                decode it as Shift-JIS without error and encode the result back to the same bytes?  One hex bitmap
//                (256 + 65536 bits, most significant bit first) to be compared with the model's sjis_encoded.
use crate::h_tex::*;
use encoding_rs::SHIFT_JIS;

fn lossless(b: &[u8]) -> bool {
    let (s, had_errors) = SHIFT_JIS.decode_without_bom_handling(b);
    if had_errors {
        return false;
    }
    let (b2, _, bad) = SHIFT_JIS.encode(&s);
    !bad && b2.as_ref() == b
}

pub fn run(toks: &[&str]) -> String {
    if toks[0] == "codec" {
        let mut bits: Vec<bool> = Vec::with_capacity(256 + 65536);
        for b in 0u16..256 {
            bits.push(lossless(&[b as u8]));
        }
        for l in 0u16..256 {
            for t in 0u16..256 {
                bits.push(lossless(&[l as u8, t as u8]));
            }
        }
        let mut s = String::with_capacity(bits.len() / 4 + 1);
        for c in bits.chunks(4) {
            let mut v = 0;
            for (i, x) in c.iter().enumerate() {
                if *x {
                    v |= 8 >> i;
                }
            }
            s.push(std::char::from_digit(v, 16).unwrap());
        }
        return s;
    }
    if toks[0] == "f32" {
        return f32_probe(toks, mila::ctpk::read, ctpk_tail);
    }
    run_kind(toks, mila::ctpk::read, enc_sjis)
}
