// C12: the per-game configuration selected by LayeredFilesystem::new, observed through the public API.
// case: fscfg <base> <game 0..6> <lang 0..7> <nlayers 0..2>
// output: err:<kind> | ok endian=<big|little> text=<shiftjis|utf16> loc=<FE9|..> lang=<n> x.lz=<raw|10|13> x.cmp=.. x.cms=.. x.bin=.. x.lz.bak=..
use crate::h_fs::*;
use mila::*;

pub const PROBES: [&str; 6] = ["x.lz", "x.cmp", "x.cms", "x.bin", "x.lz.bak", "lz"];

pub fn run(toks: &[&str]) -> String {
    let scratch = match Scratch::new(toks[0]) {
        Ok(s) => s,
        Err(e) => return e,
    };
    let g: u64 = toks[1].parse().unwrap();
    let l: u64 = toks[2].parse().unwrap();
    let nl: usize = toks[3].parse().unwrap();
    let mut roots = Vec::new();
    for i in 0..nl {
        let r = scratch.base.join(layer_dir_name(i));
        std::fs::create_dir(&r).unwrap();
        roots.push(r);
    }
    let fsys = match LayeredFilesystem::new(roots.iter().map(|r| r.display().to_string()).collect(), language(l), game(g)) {
        Ok(f) => f,
        Err(LayeredFilesystemError::NoLayers) => return "err:nolayers".to_string(),
        Err(LayeredFilesystemError::UnsupportedGame) => return "err:unsupported-game".to_string(),
        Err(_) => return "err:other".to_string(),
    };
    let endian = match fsys.endian() {
        Endian::Big => "big",
        Endian::Little => "little",
    };
    let text = match fsys.text_archive_format() {
        TextArchiveFormat::ShiftJIS => "shiftjis",
        TextArchiveFormat::Unicode => "utf16",
    };
    let loc = match fsys.localizer() {
        PathLocalizer::NoOp(_) => "NoOp",
        PathLocalizer::FE9(_) => "FE9",
        PathLocalizer::FE10(_) => "FE10",
        PathLocalizer::FE13(_) => "FE13",
        PathLocalizer::FE14(_) => "FE14",
        PathLocalizer::FE15(_) => "FE15",
    };
    let lang = fsys.language() as u64;
    let payload = [b'a'; 40];
    let mut out = format!("ok endian={} text={} loc={} lang={}", endian, text, loc, lang);
    for name in PROBES.iter() {
        let how = match fsys.write(name, &payload, false) {
            Err(_) => "err".to_string(),
            Ok(()) => match std::fs::read(roots[nl - 1].join(name)) {
                Err(_) => "missing".to_string(),
                Ok(b) if b == payload => "raw".to_string(),
                Ok(b) if !b.is_empty() && b[0] == 0x10 => "10".to_string(),
                Ok(b) if !b.is_empty() && b[0] == 0x13 => "13".to_string(),
                Ok(_) => "other".to_string(),
            },
        };
        out.push_str(&format!(" {}={}", name, how));
    }
    out
}
