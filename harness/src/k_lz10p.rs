// C08: `lz10p <flag> B<prelude> B<input>` -> first LZ10CompressionFormat::compress(prelude) (result discarded), then as
// lz10c on <input>: state that survives a call (a cache of recent results, a reused buffer) shows up in ONE replayable case.
use crate::h_lz::compress_line;
use crate::h_util::parse_b;
use mila::LZ10CompressionFormat;

pub fn run(toks: &[&str]) -> String {
    let f = LZ10CompressionFormat {};
    let _ = f.compress(&parse_b(toks[1]));
    let input = parse_b(toks[2]);
    compress_line(&input, |b| f.compress(b), |b| f.decompress(b))
}
