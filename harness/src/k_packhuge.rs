// C15: packs whose body section exceeds 16 MiB, without printing the image.
//   packhuge <len0> <len1> ...
// builds files named "h<i>" whose body byte j is (7 * i + j) mod 251, serializes, parses the image.
// line: ok len=<image length> crc=<CRC-32 (IEEE) of the image, hex> rt=<1|0> recs=L<name address, file address, size of every table entry>
//       err                                            (serialize failed)
// rt = parse(image) returned the same names / bodies in the same order.
use crate::h_util::*;
use indexmap::IndexMap;

fn crc32(data: &[u8]) -> u32 {
    let mut table = [0u32; 256];
    for i in 0..256u32 {
        let mut c = i;
        for _ in 0..8 {
            c = if c & 1 != 0 { 0xEDB8_8320 ^ (c >> 1) } else { c >> 1 };
        }
        table[i as usize] = c;
    }
    let mut crc = 0xFFFF_FFFFu32;
    for b in data {
        crc = table[((crc ^ (*b as u32)) & 0xFF) as usize] ^ (crc >> 8);
    }
    crc ^ 0xFFFF_FFFF
}

pub fn run(toks: &[&str]) -> String {
    let mut map: IndexMap<String, Vec<u8>> = IndexMap::new();
    for (i, t) in toks.iter().enumerate() {
        let n: usize = t.parse().unwrap();
        let body: Vec<u8> = (0..n).map(|j| ((7 * i + j) % 251) as u8).collect();
        map.insert(format!("h{}", i), body);
    }
    match mila::fe9_arc::serialize(&map) {
        Ok(img) => {
            let rt = match mila::fe9_arc::parse(&img) {
                Ok(m2) => m2.len() == map.len() && m2.iter().zip(map.iter()).all(|(a, b)| a == b),
                Err(_) => false,
            };
            let mut recs: Vec<u64> = Vec::new();
            for i in 0..map.len() {
                let at = 8 + 16 * i;
                if at + 16 <= img.len() {
                    for k in 1..4 {
                        let o = at + 4 * k;
                        recs.push(u32::from_be_bytes([img[o], img[o + 1], img[o + 2], img[o + 3]]) as u64);
                    }
                }
            }
            format!("ok len={} crc={:08x} rt={} recs={}", img.len(), crc32(&img), if rt { 1 } else { 0 }, show_l(recs))
        }
        Err(_) => "err".to_string(),
    }
}
