// Sample files for the typed helpers of LayeredFilesystem (C12), built with the library's own writers.
// case: fsmk bin <be|le> <variant> | fsmk text <sjis|utf16> <be|le> <variant> | fsmk fe9arc <variant>
// output: <hex of the file> <hex of from_bytes(file).serialize()>
use crate::h_fs::hex;
use crate::k_fs::{endian_of, tfmt_of};
use indexmap::IndexMap;
use mila::*;

pub fn run(toks: &[&str]) -> String {
    match toks[0] {
        "bin" => {
            let e = endian_of(toks[1]);
            let v: u32 = toks[2].parse().unwrap();
            let mut a = BinArchive::new(e);
            a.allocate_at_end(16 + 4 * (v as usize % 3));
            a.write_u32(0, 0x11223344 + v).unwrap();
            a.write_u16(4, 0xBEEF).unwrap();
            if v % 2 == 1 {
                a.write_string(8, Some("hello")).unwrap();
                a.write_label(12, "lab").unwrap();
            }
            let f = a.serialize().unwrap();
            let s = BinArchive::from_bytes(&f, e).unwrap().serialize().unwrap();
            format!("{} {}", hex(&f), hex(&s))
        }
        "text" => {
            let f = tfmt_of(toks[1]);
            let e = endian_of(toks[2]);
            let v: u32 = toks[3].parse().unwrap();
            let mut t = TextArchive::new(f, e);
            t.set_title(format!("title{}", v));
            t.set_message("MID_A", "first");
            if v % 2 == 1 {
                t.set_message("MID_B", "second\\nline");
            }
            let file = t.serialize().unwrap();
            let s = TextArchive::from_bytes(&file, f, e).unwrap().serialize().unwrap();
            format!("{} {}", hex(&file), hex(&s))
        }
        _ => {
            let v: u32 = toks[1].parse().unwrap();
            let mut m: IndexMap<String, Vec<u8>> = IndexMap::new();
            m.insert("a.bin".to_string(), vec![1, 2, 3, v as u8]);
            m.insert("b.bin".to_string(), vec![9; 40]);
            let f = fe9_arc::serialize(&m).unwrap();
            format!("{} {}", hex(&f), hex(&f))
        }
    }
}
