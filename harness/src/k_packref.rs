// C15: fe9_arc::parse on an image written by the independent reference writer (gen/c15.py).
// case: packref B<image> <name1> <body1> ...   (the intended content is for the oracle and the
//       model-side conforms_packb; the harness only parses the image)
// line: ok <name>,<body> ...   |   err
use crate::h_pack::*;
use crate::h_util::*;

pub fn run(toks: &[&str]) -> String {
    let raw = parse_b(toks[0]);
    match mila::fe9_arc::parse(&raw) {
        Ok(m) => format!("ok{}", entries_sjis(&m)),
        Err(_) => "err".to_string(),
    }
}
