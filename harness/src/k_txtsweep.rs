// C06, assumption A-codec CHECKED on the real library: every character of a range is put into a message
// (alone = first position, or between two letters = inner position) and into a key, the archive is serialized
// and parsed again, and every entry must come back unchanged.
//   txtsweep U <L|B> <first scalar> <last scalar + 1> <pos 0|1>      Unicode format, every scalar value of the range
//   txtsweep S <L|B> <first lead> <last lead + 1> <pos 0|1>          legacy format, every lossless 1- or 2-byte code
// Output: ok <characters tested>   |   bad <what>
use crate::h_txt::*;
use mila::{TextArchive, TextArchiveFormat};

fn wrap(c: &str, pos: u32) -> String {
    if pos == 0 {
        c.to_string()
    } else {
        format!("a{}b", c)
    }
}

pub fn run(toks: &[&str]) -> String {
    let fmt = fmt_of(toks[0]);
    let endian = endian_of(toks[1]);
    let lo: u32 = toks[2].parse().unwrap();
    let hi: u32 = toks[3].parse().unwrap();
    let pos: u32 = toks[4].parse().unwrap();
    let mut chars: Vec<String> = Vec::new();
    match fmt {
        TextArchiveFormat::Unicode => {
            for c in lo..hi {
                if c == 0 {
                    continue;
                }
                if let Some(ch) = std::char::from_u32(c) {
                    chars.push(ch.to_string());
                }
            }
        }
        TextArchiveFormat::ShiftJIS => {
            for lead in lo..hi {
                if lead == 0 || lead > 0xFF {
                    continue;
                }
                if let Some(s) = sjis_lossless(&[lead as u8]) {
                    chars.push(s);
                }
                for trail in 0x40u32..=0xFC {
                    if let Some(s) = sjis_lossless(&[lead as u8, trail as u8]) {
                        if s.chars().count() == 1 {
                            chars.push(s);
                        }
                    }
                }
            }
        }
    }
    let mut t = TextArchive::new(fmt, endian);
    let mut want: Vec<(String, String)> = Vec::new();
    for (i, c) in chars.iter().enumerate() {
        // keys are Shift-JIS labels in both formats: the character goes into the key when it is representable
        let key = match fmt {
            TextArchiveFormat::ShiftJIS => format!("k{}{}", i, c),
            TextArchiveFormat::Unicode => format!("k{}", i),
        };
        let m = wrap(c, pos);
        t.set_message(&key, &m);
        want.push((key, m));
    }
    if let TextArchiveFormat::ShiftJIS = fmt {
        if let Some(c) = chars.first() {
            t.set_title(wrap(c, pos));
        }
    }
    for (k, m) in &want {
        if t.get_entries().get(k) != Some(m) {
            return format!("bad set_message changed the message of {}", k);
        }
    }
    let ser = match t.serialize() {
        Ok(b) => b,
        Err(e) => return format!("bad serialize {}", terr(&e)),
    };
    let p = match TextArchive::from_bytes(&ser, fmt, endian) {
        Ok(p) => p,
        Err(e) => return format!("bad parse {}", terr(&e)),
    };
    let got: Vec<(String, String)> = p.get_entries().iter().map(|(k, v)| (k.clone(), v.clone())).collect();
    if got.len() != want.len() {
        return format!("bad entry count {} != {}", got.len(), want.len());
    }
    for (g, w) in got.iter().zip(want.iter()) {
        if g != w {
            let cs: Vec<String> = w.1.chars().map(|c| format!("U+{:04X}", c as u32)).collect();
            return format!("bad entry {} message {}", w.0.escape_default(), cs.join(","));
        }
    }
    if p.is_dirty() {
        return "bad dirty".to_string();
    }
    format!("ok {}", chars.len())
}
