// C20: bch::read on generated containers and their prefixes (see h_tex.rs for the line formats).
use crate::h_tex::*;
pub fn run(toks: &[&str]) -> String {
    if toks[0] == "f32" {
        return f32_probe(toks, mila::bch::read, bch_tail);
    }
    run_kind(toks, mila::bch::read, enc_utf8)
}
