// Animation-set files (C17, aset part of C05): drives mila::ASetFile through the public API.
//   aset v <optlist meta> <optlist table> <nsets> <optlist set>*   build the value, serialize, parse back, re-serialize
//   aset p B<file bytes>                                           parse arbitrary bytes, re-serialize what was accepted
// optlist = <n> L<indices of the present entries> B.. (one Shift-JIS encoded B token per present entry, ascending).
use crate::h_util::*;
use crate::k_ba::{show_sjis, sjis};
use mila::{ASetFile, BinArchive, Endian};

fn parse_optlist(toks: &[&str], i: &mut usize) -> Vec<Option<String>> {
    let n: usize = toks[*i].parse().unwrap();
    let idx = parse_l(toks[*i + 1]);
    *i += 2;
    let mut v: Vec<Option<String>> = vec![None; n];
    for k in idx {
        v[k as usize] = Some(sjis(toks[*i]));
        *i += 1;
    }
    v
}

fn show_optlist(v: &[Option<String>]) -> String {
    let mut idx: Vec<u64> = Vec::new();
    let mut out: Vec<String> = Vec::new();
    for (i, o) in v.iter().enumerate() {
        if let Some(s) = o {
            idx.push(i as u64);
            out.push(show_sjis(s));
        }
    }
    let mut parts = vec![v.len().to_string(), show_l(idx)];
    parts.extend(out);
    parts.join(" ")
}

fn show_aset(s: &ASetFile) -> String {
    let mut parts = vec![show_optlist(&[s.meta.clone()]), show_optlist(&s.anim_clip_table), s.sets.len().to_string()];
    parts.extend(s.sets.iter().map(|x| show_optlist(x)));
    parts.join(" ")
}

fn ser_s(s: &ASetFile) -> String {
    match s.serialize() {
        Ok(f) => show_b(&f),
        Err(_) => "err".to_string(),
    }
}

fn parse_s(f: &[u8]) -> String {
    parse_m(f).0
}

/// parse + the largest single allocation request made during BinArchive::from_bytes and ASetFile::from_archive
/// (counting allocator; showing and re-serializing the value are outside the window)
fn parse_m(f: &[u8]) -> (String, usize) {
    crate::h_alloc::reset();
    let archive = BinArchive::from_bytes(f, Endian::Little);
    let parsed = archive.as_ref().ok().map(|a| ASetFile::from_archive(a));
    let mx = crate::h_alloc::max_request();
    let mut prefix = "";
    if let Ok(a) = &archive {
        // the table label on more than one address (since fix 10408e9 the lowest address wins on both sides)
        let mut hits: Vec<usize> = a.all_labels().into_iter().filter(|(_, n)| n == "AnimClipNameTable").map(|(k, _)| k).collect();
        hits.dedup();
        if hits.len() > 1 {
            prefix = "amb ";
        }
    }
    let line = match parsed {
        Some(Ok(s)) => format!("{}re=ok:{} | ser2={}", prefix, show_aset(&s), ser_s(&s)),
        _ => format!("{}re=err", prefix),
    };
    (line, mx)
}

pub fn run(toks: &[&str]) -> String {
    match toks[0] {
        "v" => {
            let mut i = 1;
            let meta = parse_optlist(toks, &mut i).pop().unwrap();
            let mut s = ASetFile::new(meta);
            s.anim_clip_table = parse_optlist(toks, &mut i);
            let n: usize = toks[i].parse().unwrap();
            i += 1;
            for _ in 0..n {
                s.sets.push(parse_optlist(toks, &mut i));
            }
            match s.serialize() {
                Ok(f) => format!("ser={} | {}", show_b(&f), parse_s(&f)),
                Err(_) => "ser=err".to_string(),
            }
        }
        "p" => parse_s(&parse_b(toks[1])),
        "q" => {
            let (line, mx) = parse_m(&parse_b(toks[1]));
            format!("{} maxalloc={}", line, mx)
        }
        x => panic!("aset: bad mode {}", x),
    }
}
