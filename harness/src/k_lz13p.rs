// C09: `lz13p <flag> B<prelude> B<input>` -> first LZ13CompressionFormat::compress(prelude) (result discarded), then as
// lz13c on <input>: state that survives a call shows up in ONE replayable case.
use crate::h_lz::compress_line;
use crate::h_util::parse_b;
use mila::LZ13CompressionFormat;

pub fn run(toks: &[&str]) -> String {
    let f = LZ13CompressionFormat {};
    let _ = f.compress(&parse_b(toks[1]));
    let input = parse_b(toks[2]);
    compress_line(&input, |b| f.compress(b), |b| f.decompress(b))
}
