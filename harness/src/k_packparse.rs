// C05 (pack part) and C15: fe9_arc::parse on arbitrary bytes with the largest single allocation
// request measured; anything accepted is re-serialized.
// case: packparse B<bytes>
// line: ok <utf8 name>,<sjis name|?>,<body> ... reser=ok:<image hex>|err maxalloc=<n>
//       err maxalloc=<n>                       (a panic is printed as PANIC by main.rs)
use crate::h_alloc;
use crate::h_pack::*;
use crate::h_util::*;

pub fn run(toks: &[&str]) -> String {
    let raw = parse_b(toks[0]);
    h_alloc::reset();
    let r = mila::fe9_arc::parse(&raw);
    let mx = h_alloc::max_request();
    match r {
        Ok(m) => {
            let reser = match mila::fe9_arc::serialize(&m) {
                Ok(b) => format!("ok:{}", hex(&b)),
                Err(_) => "err".to_string(),
            };
            format!("ok{} reser={} maxalloc={}", entries_both(&m), reser, mx)
        }
        Err(_) => format!("err maxalloc={}", mx),
    }
}
