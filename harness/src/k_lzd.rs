// C11: `lzd <entry> <flag> B<stream>` -> decompression through one of the four entry points
//   entry: 10 = LZ10CompressionFormat::decompress, 13 = LZ13CompressionFormat::decompress,
//          f10 / f13 = the same through CompressionFormat::decompress (format dispatch)
//   flag:  1 = print the bytes, 0 = print `H<len>:<fnv64>` (large outputs; the model skips the case),
//          2 = as 0 (tells the oracle that the announced size is large on purpose: 16 MiB boundary)
// result: `ok B<bytes>` | `ok H<len>:<hash>` | `err`
use crate::h_lz::show_bytes;
use crate::h_util::parse_b;
use mila::{CompressionFormat, LZ10CompressionFormat, LZ13CompressionFormat};

pub fn run(toks: &[&str]) -> String {
    let full = toks[1] == "1";
    let input = parse_b(toks[2]);
    let r = match toks[0] {
        "10" => LZ10CompressionFormat {}.decompress(&input),
        "13" => LZ13CompressionFormat {}.decompress(&input),
        "f10" => CompressionFormat::LZ10(LZ10CompressionFormat {}).decompress(&input),
        "f13" => CompressionFormat::LZ13(LZ13CompressionFormat {}).decompress(&input),
        x => panic!("lzd: bad entry {}", x),
    };
    match r {
        Ok(d) => format!("ok {}", show_bytes(&d, full)),
        Err(_) => "err".to_string(),
    }
}
