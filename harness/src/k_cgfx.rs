// C20: cgfx::read on generated containers and their prefixes (see h_tex.rs for the line formats).
use crate::h_tex::*;
pub fn run(toks: &[&str]) -> String {
    run_kind(toks, mila::cgfx::read, enc_utf8)
}
