// Helpers of the text-archive / arc kinds (C06, C16, C05): codec conversions with losslessness checks
// (assumption A-codec is CHECKED here, not trusted) and error-kind names.
#![allow(dead_code)]
use crate::h_util::*;
use encoding_rs::SHIFT_JIS;
use mila::{ArcError, ArchiveError, EncodedStringsError, Endian, TextArchiveError, TextArchiveFormat};

/// Shift-JIS bytes -> String; None unless decoding is error-free, NUL-free and encoding the result gives the bytes back
pub fn sjis_lossless(b: &[u8]) -> Option<String> {
    let (s, bad) = SHIFT_JIS.decode_without_bom_handling(b);
    if bad || b.contains(&0) {
        return None;
    }
    let (back, _, bad2) = SHIFT_JIS.encode(&s);
    if bad2 || &back[..] != b {
        return None;
    }
    Some(s.into_owned())
}

/// String -> Shift-JIS bytes, flagged when the string is not representable
pub fn sjis_bytes(s: &str) -> (Vec<u8>, bool) {
    let (b, _, bad) = SHIFT_JIS.encode(s);
    (b.into_owned(), bad)
}

pub fn show_sjis_checked(s: &str) -> String {
    let (b, bad) = sjis_bytes(s);
    format!("{}{}", show_b(&b), if bad { "!" } else { "" })
}

/// UTF-16 code units -> String; None unless the units are well-formed, non-zero and encode_utf16 gives them back
pub fn utf16_lossless(units: &[u64]) -> Option<String> {
    let u: Vec<u16> = units.iter().map(|x| *x as u16).collect();
    if units.iter().any(|x| *x == 0 || *x > 0xFFFF) {
        return None;
    }
    let s = String::from_utf16(&u).ok()?;
    let back: Vec<u16> = s.encode_utf16().collect();
    if back != u {
        return None;
    }
    Some(s)
}

pub fn show_units(s: &str) -> String {
    show_l(s.encode_utf16().map(|x| x as u64))
}

pub fn fmt_of(tok: &str) -> TextArchiveFormat {
    if tok == "U" {
        TextArchiveFormat::Unicode
    } else {
        TextArchiveFormat::ShiftJIS
    }
}

pub fn endian_of(tok: &str) -> Endian {
    if tok == "B" {
        Endian::Big
    } else {
        Endian::Little
    }
}

pub fn serr(e: &EncodedStringsError) -> &'static str {
    match e {
        EncodedStringsError::UnterminatedString => "err:unterminated",
        EncodedStringsError::EncodingFailed(_, _) => "err:encoding",
        EncodedStringsError::DecodingFailed(_) => "err:decoding",
        EncodedStringsError::IOError(_) => "err:io",
    }
}

pub fn aerr(e: &ArchiveError) -> &'static str {
    match e {
        ArchiveError::OutOfBoundsAddress(_, _) => "err:oob",
        ArchiveError::UnalignedValue(_, _) => "err:unaligned",
        ArchiveError::ArchiveTooSmall => "err:toosmall",
        ArchiveError::EncodingStringsError(s) => serr(s),
        ArchiveError::IOError(_) => "err:io",
        ArchiveError::EndianAwareIOError(_) => "err:io",
        _ => "err:other",
    }
}

pub fn terr(e: &TextArchiveError) -> &'static str {
    match e {
        TextArchiveError::ArchiveError(a) => aerr(a),
        TextArchiveError::EncodingStringsError(s) => serr(s),
        TextArchiveError::IOError(_) => "err:io",
        _ => "err:other",
    }
}

pub fn arcerr(e: &ArcError) -> &'static str {
    match e {
        ArcError::MissingName => "err:missingname",
        ArcError::NoCount => "err:nocount",
        ArcError::NoInfo => "err:noinfo",
        ArcError::ArchiveError(a) => aerr(a),
    }
}

/// parsed archive with every Shift-JIS string shown as its list of Unicode scalar values (the strings of a
/// malformed file need not be representable) and UTF-16 messages as code units; then the re-serialization outcome
pub fn report_parsed(fmt: TextArchiveFormat, r: Result<mila::TextArchive, TextArchiveError>) -> String {
    match r {
        Err(e) => format!("parse={}", terr(&e)),
        Ok(t) => {
            let es: Vec<String> = t
                .get_entries()
                .iter()
                .map(|(k, v)| {
                    format!(
                        "{}={}",
                        show_str(k),
                        match fmt {
                            TextArchiveFormat::Unicode => show_units(v),
                            TextArchiveFormat::ShiftJIS => show_str(v),
                        }
                    )
                })
                .collect();
            let reser = match t.serialize() {
                Ok(b) => format!("ok:{}", show_b(&b)),
                Err(e) => terr(&e).to_string(),
            };
            format!("parse=ok d{} T={} [{}] | reser={}", if t.is_dirty() { 1 } else { 0 }, show_str(t.get_title()), es.join(" "), reser)
        }
    }
}
