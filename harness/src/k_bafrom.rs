// C05 (bin-archive part): BinArchive::from_bytes on arbitrary bytes, largest single allocation request
// measured; anything accepted is re-serialized.
// case: bafrom <L|B> B<bytes>
// line: ok | sz=.. d=.. t=[..] p=[..] l=[..] pd=[..] reser=<ok:hex|err> maxalloc=<n>   |   err maxalloc=<n>
use crate::h_alloc;
use crate::h_util::*;
use crate::k_ba::state;
use mila::{BinArchive, Endian};

pub fn run(toks: &[&str]) -> String {
    let endian = if toks[0] == "B" { Endian::Big } else { Endian::Little };
    let bytes = parse_b(toks[1]);
    h_alloc::reset();
    let r = BinArchive::from_bytes(&bytes, endian);
    let mx = h_alloc::max_request();
    match r {
        Ok(a) => {
            let reser = match a.serialize() {
                Ok(b) => format!("ok:{}", show_b(&b)),
                Err(_) => "err".to_string(),
            };
            format!("ok{} reser={} maxalloc={}", state(&a, 1), reser, mx)
        }
        Err(_) => format!("err maxalloc={}", mx),
    }
}
