// Shared helpers: token parsing/printing identical to coq/Extract/driver.ml.
#![allow(dead_code)]

pub fn parse_l(tok: &str) -> Vec<u64> {
    let body = &tok[1..];
    if body.is_empty() {
        return Vec::new();
    }
    body.split(',').map(|x| x.parse::<u64>().unwrap()).collect()
}

/// `B<hex>` = the bytes; `P<len>:<hex>` = the pattern repeated / truncated to <len> bytes (compact form for
/// large periodic inputs; an empty pattern stands for a zero byte).
/// Several such segments may be joined by `+` (concatenation): `P16777000:00+B0102..`.
pub fn parse_b(tok: &str) -> Vec<u8> {
    if tok.contains('+') {
        let mut out = Vec::new();
        for seg in tok.split('+') {
            out.extend_from_slice(&parse_b(seg));
        }
        return out;
    }
    if tok.as_bytes()[0] == b'P' {
        let (len, pat) = tok[1..].split_once(':').expect("P<len>:<hex>");
        let len: usize = len.parse().expect("P<len>");
        let mut pat = parse_b(&format!("B{}", pat));
        if pat.is_empty() {
            pat.push(0);
        }
        let mut out = Vec::with_capacity(len);
        while out.len() < len {
            let k = std::cmp::min(pat.len(), len - out.len());
            out.extend_from_slice(&pat[..k]);
        }
        return out;
    }
    let body = &tok.as_bytes()[1..];
    let mut out = Vec::with_capacity(body.len() / 2);
    let hv = |c: u8| -> u8 {
        match c {
            b'0'..=b'9' => c - b'0',
            b'a'..=b'f' => c - b'a' + 10,
            b'A'..=b'F' => c - b'A' + 10,
            _ => panic!("bad hex"),
        }
    };
    let mut i = 0;
    while i + 1 < body.len() {
        out.push(hv(body[i]) * 16 + hv(body[i + 1]));
        i += 2;
    }
    out
}

pub fn show_l<I: IntoIterator<Item = u64>>(l: I) -> String {
    let v: Vec<String> = l.into_iter().map(|x| x.to_string()).collect();
    format!("L{}", v.join(","))
}

pub fn show_b(b: &[u8]) -> String {
    let mut s = String::with_capacity(1 + 2 * b.len());
    s.push('B');
    for x in b {
        s.push_str(&format!("{:02x}", x));
    }
    s
}

/// string from a list of Unicode scalar values
pub fn str_of_l(tok: &str) -> String {
    parse_l(tok).into_iter().map(|c| std::char::from_u32(c as u32).expect("scalar")).collect()
}

pub fn show_str(s: &str) -> String {
    show_l(s.chars().map(|c| c as u64))
}
