// Generates the module list and the dispatch table from the files present in src/:
//   src/k_<kind>.rs  -> handler `pub fn run(toks: &[&str]) -> String` for case kind <kind>
//   src/h_<name>.rs  -> helper module
use std::fs;
use std::io::Write;
use std::path::Path;

fn main() {
    let src = Path::new(env!("CARGO_MANIFEST_DIR")).join("src");
    let mut kinds: Vec<String> = Vec::new();
    let mut helpers: Vec<String> = Vec::new();
    for e in fs::read_dir(&src).unwrap() {
        let name = e.unwrap().file_name().into_string().unwrap();
        if let Some(stem) = name.strip_suffix(".rs") {
            if let Some(k) = stem.strip_prefix("k_") {
                kinds.push(k.to_string());
            } else if stem.starts_with("h_") {
                helpers.push(stem.to_string());
            }
        }
    }
    kinds.sort();
    helpers.sort();
    let out = Path::new(&std::env::var("OUT_DIR").unwrap()).join("mods.rs");
    let mut f = fs::File::create(out).unwrap();
    for h in &helpers {
        writeln!(f, "#[path = {:?}] #[allow(dead_code)] mod {};", src.join(format!("{}.rs", h)), h).unwrap();
    }
    for k in &kinds {
        writeln!(f, "#[path = {:?}] mod k_{};", src.join(format!("k_{}.rs", k)), k).unwrap();
    }
    writeln!(f, "pub fn dispatch(kind: &str, toks: &[&str]) -> Option<String> {{\n    match kind {{").unwrap();
    for k in &kinds {
        writeln!(f, "        {:?} => Some(k_{}::run(toks)),", k, k).unwrap();
    }
    writeln!(f, "        _ => None,\n    }}\n}}").unwrap();
    println!("cargo:rerun-if-changed=src");
}
