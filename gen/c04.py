# C04: cell access is bounds-safe, endian-correct and local.
import itertools
import struct
from common import PropertyCheck, Case
import pyarchive

MAXU = (1 << 64) - 1
ADDRS = list(range(0, 13)) + [(1 << 32) - 2, (1 << 32) + 2] + [MAXU - k for k in range(8, -1, -1)]
WIDTHS = [0, 1, 2, 3, 4, 5, 8] + [MAXU - k for k in range(8, -1, -1)]

NAN_PATTERNS = [0x7FC00000, 0xFFC00000, 0x7F800001, 0xFF800001, 0x7FFFFFFF, 0x7FA00000, 0x7F800000, 0xFF800000,
                0x00000000, 0x80000000, 0x00000001, 0x3F800000, 0xDEADBEEF]


def base(size):
    """an archive of `size` bytes with a recognisable pattern"""
    ops = []
    if size:
        ops.append(("aae", [str(size)]))
        ops.append(("wb", ["0", "B" + bytes((17 * i + 3) % 256 for i in range(size)).hex()]))
    return ops


class C04(PropertyCheck):
    pid = "C04"
    release_too = True
    rule = ("boundary grid: sizes 0..9 x addresses {0..12, 2^32+-2, usize::MAX-8..MAX} x every accessor (typed reads/writes, block "
            "reads with widths {0..5,8,MAX-8..MAX}, block writes, annotation accessors) x both endiannesses x both build profiles, "
            "full state compared after every call; value stream: all widths x boundary/NaN bit patterns written and read back; "
            "interleavings of stream and positional operations (<= 40 steps); stream `same-object`: runs of stream operations served by ONE "
            "reader / writer object (writer inserts then writes past the old end, writer appends then writes into the new bytes, repeated "
            "label reads on one reader at one and at two addresses), each also with a fresh object per operation. Non-trivial = at least one access succeeds and one is "
            "rejected in the case, or a written value is read back; distinct = distinct case line.")
    assumptions = ["Vec length <= isize::MAX (so `address + 4` after a passed lower-bound check cannot overflow)",
                   "f32 values are transported as bit patterns (to_bits/from_bits) on both sides",
                   "the `skip` operation with an amount that overflows the cursor is not a value access and is not generated"]

    def generate(self, rng, tier):
        cases = []
        sizes = range(0, 10)
        for e in "LB":
            for size in sizes:
                pre = base(size)
                for a in ADDRS:
                    A = str(a)
                    ops = [("ru8", [A]), ("ri8", [A]), ("ru16", [A]), ("ri16", [A]), ("ru32", [A]), ("ri32", [A]), ("rf32", [A]),
                           ("rs", [A]), ("rp", [A]), ("rl", [A]), ("rc", [A])]
                    cases.append(Case(pyarchive.render_case(e, 1, pre + ops), "grid-reads"))
                    for w in WIDTHS:
                        cases.append(Case(pyarchive.render_case(e, 0, pre + [("rb", [A, str(w)])]), "grid-block-reads"))
                    wops = [("wu8", [A, "171"]), ("ru8", [A]), ("wi8", [A, "-3"]), ("ri8", [A]),
                            ("wu16", [A, "43981"]), ("ru16", [A]), ("wi16", [A, "-2"]), ("ri16", [A]),
                            ("wu32", [A, "2882400001"]), ("ru32", [A]), ("wi32", [A, "-559038737"]), ("ri32", [A]),
                            ("wf32", [A, str(0x7FC00001)]), ("rf32", [A])]
                    cases.append(Case(pyarchive.render_case(e, 1, pre + wops), "grid-writes"))
                    for n in (0, 1, 2, 3, 4, 5, 8):
                        cases.append(Case(pyarchive.render_case(e, 1, pre + [("wb", [A, "B" + "ab" * n]), ("rb", [A, str(n)])]),
                                          "grid-block-writes"))
                    aops = [("ws", [A, "B4142"]), ("rs", [A]), ("wp", [A, "4"]), ("rp", [A]), ("wl", [A, "B4c"]), ("rl", [A]),
                            ("wc", [A, "B43"]), ("dl", [A, "0"]), ("dl", [A, "5"]), ("wls", [A, "2", "B41", "B42"]), ("rl", [A]),
                            ("ds", [A]), ("dp", [A]), ("dls", [A]), ("ws0", [A]), ("wp0", [A])]
                    cases.append(Case(pyarchive.render_case(e, 1, pre + aops), "grid-annotations"))
        # stream block reads with counts up to the integer limits (the reader must fail at the first byte outside the data,
        # never reserve / compute with the count: seeded change C04-4 = Vec::with_capacity(count))
        HUGE = [0, 1, 4, 5, (1 << 31), (1 << 32) - 1, (1 << 32) + 1, (1 << 62), (1 << 63) - 1, (1 << 63), (1 << 63) + 1] + \
               [MAXU - k for k in range(3, -1, -1)]
        for e in "LB":
            for size in (0, 3, 4, 9):
                for pos in sorted(set([0, 1, size, size + 1, max(size - 1, 0)])):
                    for n in HUGE:
                        ops = base(size) + [("Rseek", [str(pos)]), ("Rrb", [str(n)]), ("Rru8", []), ("rb", [str(pos), str(n)])]
                        cases.append(Case(pyarchive.render_case(e, 1, ops), "stream-block-reads-huge"))
        # stream block writes: every cursor x every block length around the end of the data: success iff the block fits, otherwise
        # out of bounds with the bytes that fit WRITTEN and the cursor at the end (C04_stream_write_bytes_spec); the empty block
        # succeeds anywhere while the positional write of an empty block fails at or beyond the end
        for e in "LB":
            for size in (0, 1, 3, 4, 9):
                for pos in range(0, size + 3):
                    for n in range(0, 7):
                        blk = "B" + bytes(0xA0 + i for i in range(n)).hex()
                        ops = base(size) + [("Wseek", [str(pos)]), ("Wwb", [blk]), ("Wwu8", ["1"]), ("wb", [str(pos), blk]),
                                            ("Rseek", [str(pos)]), ("Rrb", [str(n)])]
                        cases.append(Case(pyarchive.render_case(e, 1, ops), "stream-block-writes"))
        # annotation records that no longer fit after a truncate / deallocate: reading them must be out of bounds (seeded change
        # C04-6 skipped the bounds check on a map hit), and writing the VALUE 0 over an annotated cell must leave the annotation alone
        # (seeded change C04-5 dropped the record on a zero write)
        for e in "LB":
            for (pre, cut) in ((("wp", ["8", "0"]), ("tr", ["10"])), (("ws", ["8", "B41"]), ("tr", ["9"])), (("wp", ["8", "4"]), ("tr", ["11"])),
                               (("wp", ["5", "0"]), ("de", ["8", "4", "0"])), (("ws", ["6", "B4142"]), ("de", ["8", "4", "1"]))):
                a0 = pre[1][0]
                ops = base(12) + [pre, cut, ("rp", [a0]), ("rs", [a0]), ("rl", [a0]), ("Rseek", [a0]), ("Rrp", []), ("Rseek", [a0]), ("Rrs", []),
                                  ("ru8", [a0]), ("wu8", [a0, "7"])]
                cases.append(Case(pyarchive.render_case(e, 1, ops), "stale-annotations"))
            for a0 in ("0", "4", "5"):
                for w in ("wu32", "wi32", "wu16", "wu8", "wf32"):
                    ops = base(12) + [("wp", [a0, "8"]), (w, [a0, "0"]), ("rp", [a0]), ("ws", [a0, "B4142"]), (w, [a0, "0"]), ("rs", [a0]), ("rp", [a0]),
                                      ("wl", [a0, "B4c"]), (w, [a0, "0"]), ("rl", [a0]), ("Wseek", [a0]), ("W" + w, ["0"]), ("rs", [a0]), ("rp", [a0])]
                    cases.append(Case(pyarchive.render_case(e, 1, ops), "zero-writes-over-annotations"))
        # value bit patterns
        vals32 = NAN_PATTERNS + [rng.getrandbits(32) for _ in range(40 if tier == "quick" else 400)]
        for e in "LB":
            for v in vals32:
                for a in (0, 1, 3):
                    ops = base(8) + [("wf32", [str(a), str(v)]), ("rf32", [str(a)]), ("ru32", [str(a)]), ("ri32", [str(a)]),
                                     ("wu16", [str(a + 1), str(v & 0xFFFF)]), ("ri16", [str(a + 1)]),
                                     ("wi32", [str(a), str(v - (1 << 32) if v >= (1 << 31) else v)]), ("ru32", [str(a)]),
                                     ("wu8", [str(a), str(v & 0xFF)]), ("ri8", [str(a)])]
                    cases.append(Case(pyarchive.render_case(e, 1, ops), "values"))
        # a value written over a cell that already holds a value which COMPARES equal but has other bits (+0.0 / -0.0), or
        # unequal although the bits agree (NaN): the bytes after the write are the new value's bytes (seeded change C04-10: the
        # stream writer skipped a write when `read_f32(pos) == value`)
        special = [0x00000000, 0x80000000, 0x7FC00000, 0xFFC00000, 0x7FC00001, 0x3F800000, 0xBF800000, 0x00000001, 0xFFFFFFFF]
        for e in "LB":
            for u in special:
                for v in special:
                    ops = base(8) + [("wf32", ["0", str(u)]), ("wf32", ["0", str(v)]), ("ru32", ["0"]),
                                     ("Wseek", ["4"]), ("Wwf32", [str(u)]), ("Wseek", ["4"]), ("Wwf32", [str(v)]), ("ru32", ["4"]), ("rf32", ["4"]),
                                     ("wu32", ["0", str(u)]), ("Wseek", ["0"]), ("Wwf32", [str(v)]), ("ru32", ["0"]),
                                     ("fresh", []), ("Wseek", ["4"]), ("Wwu32", [str(u)]), ("Wseek", ["4"]), ("Wwu32", [str(v)]), ("ru32", ["4"])]
                    cases.append(Case(pyarchive.render_case(e, 1, ops), "value-over-value"))
        # ONE reader / ONE writer object serving a whole run of stream operations (harness/src/k_ba.rs; `fresh` ends the run): anything
        # a long-lived object remembers about the archive must not change its answers (seeded changes C04-7: cached size in the
        # writer, C04-8: cached label bucket in the reader).  Every history also with `fresh` between the steps.
        for e in "LB":
            # writer: insert in the middle, then write at cursors in old_size .. new_size - 1 and beyond, every width
            for size in (8, 12):
                for ins in (4, 8):
                    for m in (4, 8):
                        if ins >= size:
                            continue
                        for pos in range(size - 1, size + m + 1):
                            for wop in (("Wwu8", ["9"]), ("Wwi8", ["-3"]), ("Wwb", ["Ba1a2"]), ("Wwu16", ["513"]), ("Wwu32", ["16909060"]),
                                        ("Wws", ["B41"]), ("Wwp", ["4"]), ("Wwl", ["B4c"]), ("Wwc", ["B43"])):
                                if tier == "quick" and wop[0] in ("Wwu16", "Wwp", "Wwc") and m == 8:
                                    continue
                                for sep in ([], [("fresh", [])]):
                                    ops = base(size) + [("Wseek", [str(ins)]), ("Wal", [str(m), "0"])] + sep + [("Wseek", [str(pos)]), wop, wop,
                                                                                                                 ("rb", ["0", str(size + m)])]
                                    cases.append(Case(pyarchive.render_case(e, 1, ops), "same-object"))
            # writer: append through the writer, then write into the appended bytes
            for size in (0, 4, 6):
                for n in (1, 4):
                    for sep in ([], [("fresh", [])]):
                        ops = base(size) + [("Wseek", [str(size)]), ("Waae", [str(n)])] + sep + [("Wwu8", ["7"]), ("Wseek", [str(size)]), ("Wwb", ["B" + "cd" * n]),
                                                                                                 ("Wwu8", ["1"]), ("rb", ["0", str(size + n)])]
                        cases.append(Case(pyarchive.render_case(e, 1, ops), "same-object"))
            # reader: label accesses repeated on one reader, at one address and at two, with value reads / seeks in between
            lab = base(12) + [("wl", ["0", "B4f7761696e"]), ("wl", ["0", "B536576657261"]), ("wl", ["4", "B43"]), ("wl", ["0", "B58"]), ("wls", ["8", "0"])]
            seqs = [
                [("Rseek", ["0"]), ("Rrl", ["0"]), ("Rrl", ["0"]), ("Rrl", ["1"]), ("Rrls", []), ("Rrl", ["2"]), ("Rrl", ["3"]), ("Rrl", ["0"])],
                [("Rseek", ["0"]), ("Rrls", []), ("Rrls", []), ("Rrl", ["1"]), ("Rrls", [])],
                [("Rseek", ["0"]), ("Rrl", ["0"]), ("Rseek", ["4"]), ("Rrl", ["0"]), ("Rrl", ["0"]), ("Rseek", ["0"]), ("Rrl", ["0"]), ("Rrls", [])],
                [("Rseek", ["0"]), ("Rrl", ["1"]), ("Rru32", []), ("Rseek", ["0"]), ("Rrl", ["1"]), ("Rrl", ["0"])],
                [("Rseek", ["4"]), ("Rrl", ["0"]), ("Rseek", ["8"]), ("Rrl", ["0"]), ("Rrls", []), ("Rseek", ["4"]), ("Rrls", []), ("Rrl", ["0"])],
                [("Rseek", ["0"]), ("Rrl", ["0"]), ("wl", ["0", "B59"]), ("Rrl", ["0"]), ("Rrl", ["3"]), ("dl", ["0", "0"]), ("Rrl", ["0"]), ("Rrls", [])],
            ]
            for sq in seqs:
                cases.append(Case(pyarchive.render_case(e, 1, lab + sq), "same-object"))
                withfresh = []
                for op in sq:
                    withfresh += [op, ("fresh", [])]
                cases.append(Case(pyarchive.render_case(e, 1, lab + withfresh), "same-object"))
            for _ in range(60 if tier == "quick" else 600):
                sq = []
                for _ in range(rng.randint(4, 16)):
                    x = rng.random()
                    if x < 0.3:
                        sq.append(("Rseek", [str(rng.choice([0, 0, 4, 8, 1]))]))
                    elif x < 0.65:
                        sq.append(("Rrl", [str(rng.randint(0, 3))]))
                    elif x < 0.85:
                        sq.append(("Rrls", []))
                    elif x < 0.92:
                        sq.append((rng.choice(["Rru8", "Rru32", "Rrs", "Rrp"]), []))
                    else:
                        sq.append(("fresh", []))
                cases.append(Case(pyarchive.render_case(e, 1, lab + sq), "same-object"))
        # interleavings of stream and positional operations
        n_inter = 300 if tier == "quick" else 3000
        for _ in range(n_inter):
            e = rng.choice("LB")
            size = rng.randint(0, 24)
            ops = base(size)
            steps = rng.randint(5, 40)
            for _ in range(steps):
                r = rng.random()
                a = str(rng.choice([rng.randint(0, size + 3), rng.randint(0, max(size, 1))]))
                v32 = str(rng.choice([0, 0, 1, 0xFFFFFFFF, 0x80000000, rng.getrandbits(32), rng.getrandbits(32)]))
                if r < 0.08:
                    ops.append((rng.choice(["Rseek", "Wseek"]), [a]))
                elif r < 0.12:
                    ops.append((rng.choice(["Rskip", "Wskip"]), [str(rng.randint(0, 5))]))
                elif r < 0.40:
                    ops.append((rng.choice(["Rru8", "Rri8", "Rru16", "Rri16", "Rru32", "Rri32", "Rrf32", "Rrs", "Rrp", "Rrc", "Rrls"]), []))
                elif r < 0.45:
                    ops.append(("Rrb", [str(rng.randint(0, 6))]))
                elif r < 0.48:
                    ops.append(("Rrl", [str(rng.randint(0, 2))]))
                elif r < 0.60:
                    k = rng.choice([("Wwu8", 8), ("Wwu16", 16), ("Wwu32", 32), ("Wwf32", 32)])
                    ops.append((k[0], [str(rng.choice([0, rng.getrandbits(k[1]), rng.getrandbits(k[1])]))]))
                elif r < 0.66:
                    k = rng.choice([("Wwi8", 8), ("Wwi16", 16), ("Wwi32", 32)])
                    ops.append((k[0], [str(rng.getrandbits(k[1]) - (1 << (k[1] - 1)))]))
                elif r < 0.70:
                    ops.append(("Wwb", ["B" + bytes(rng.getrandbits(8) for _ in range(rng.randint(0, 6))).hex()]))
                elif r < 0.78:
                    ops.append(rng.choice([("Wws", ["B4142"]), ("Wws0", []), ("Wwp", [a]), ("Wwp0", []), ("Wwl", ["B4c"]), ("Wwc", ["B43"])]))
                elif r < 0.90:
                    ops.append(rng.choice([("ru8", [a]), ("ru16", [a]), ("ru32", [a]), ("ri16", [a]), ("rb", [a, str(rng.randint(0, 5))]),
                                           ("rs", [a]), ("rp", [a]), ("rl", [a]), ("rc", [a])]))
                else:
                    ops.append(rng.choice([("wu8", [a, str(rng.getrandbits(8))]), ("wu16", [a, str(rng.getrandbits(16))]),
                                           ("wu32", [a, v32]), ("wb", [a, "B0102"]), ("ws", [a, "B58"]), ("wp", [a, "0"]),
                                           ("wl", [a, "B4c32"]), ("aae", [str(rng.choice([0, 1, 4]))])]))
            cases.append(Case(pyarchive.render_case(e, 1, ops), "interleavings"))
        return cases

    def nontrivial(self, case, impl_out):
        return "ok" in impl_out and "err:oob" in impl_out or case.stream == "values"

    def oracle(self, case, impl_out, profile):
        f = pyarchive.judge(case.line, impl_out)
        if f:
            return f
        # endianness of the byte layout, independent of the reference's struct.pack: check the 'values' stream literally
        return None

    def agree(self, case, impl_out, model_out, profile):
        return impl_out == pyarchive.mask_lossy(impl_out, model_out)

    def shrink_candidates(self, case):
        e, level, ops = pyarchive.parse_case(case.line)
        for i in range(len(ops) - 1, -1, -1):
            yield Case(pyarchive.render_case(e, level, ops[:i] + ops[i + 1:]), case.stream)


TB = ("Trusted: Coq 8.16.1 kernel (vm_compute, no native_compute), no axioms (Print Assumptions audited on every run), "
      "ExtrOcamlBasic extraction + hand-written OCaml driver, the Rust harness and Python generators/oracles. ")

MANIFEST = dict(
    text="Theorems about an executable Gallina model of BinArchive's accessors and of the stream reader/writer: a typed or block access "
         "returns Ok exactly when the range lies inside the data, Err(out-of-bounds) otherwise and never panics - for every address and "
         "length, also when address+length exceeds 2^64; a successful write changes only the addressed bytes (data = prefix ++ bytes ++ "
         "suffix, five annotation components equal), typed writes are block writes of the endian encoding, reads return what was written "
         "(codec inverse both ways, two's-complement round trip); the byte order is pinned against the base-256 digits of the value "
         "(C04_endian_digits: byte i = digit i little-endian, digit w-1-i big-endian; literal 2- and 4-byte forms); annotation accessors "
         "leave raw bytes alone and are accepted exactly on a 4-byte cell inside the data (labels: any address <= size), else "
         "out-of-bounds, with the exact new state (C04_annotation_writes_bounds / _deletes_bounds / _reads_bounds); stream operations "
         "equal the positional call at the cursor and advance by the width iff they succeed (unsigned, signed, annotations), label "
         "accesses keep the cursor; stream block reads and block writes in closed form (C04_stream_read_bytes_spec, "
         "C04_stream_write_bytes_spec): success iff the block fits behind the cursor, then equal to the positional block operation in "
         "both directions with cursor + length; on failure out-of-bounds, never a panic, cursor at the end of the data - and for "
         "writes the bytes that fit HAVE been written (the stream block write is successive byte writes, not atomic); the empty block "
         "succeeds on a stream wherever the cursor stands while the positional call fails at or beyond the end. Model tied to /repo on "
         "every run by the extracted model vs the real library on an exhaustive boundary grid (incl. usize::MAX region, stream block "
         "reads and writes around the end) + value patterns + random stream/positional interleavings in debug and release builds, "
         "state compared after every call; the harness keeps ONE reader / ONE writer object alive over every run of consecutive stream "
         "operations (and, with the no-op `fresh`, a new object per operation), so state cached inside a long-lived accessor is exercised; "
         "an independent Python reference archive is the oracle.",
    note=TB + "Modelled, not verified: Vec/slice semantics, to_le_bytes/from_le_bytes (A-std). `address + 4` after the lower-bound check "
              "is a plain sum (size <= isize::MAX). seek/skip/tell are not modelled (cursor assignments; `skip` with an overflowing amount is "
              "not a value access); the BinArchiveReader implementation of read_shift_jis_string (encoded_strings.rs, a stream read "
              "built on skip) is not covered. 'Changes nothing on failure' is by the outcome type for positional calls (tied by leg K: "
              "state compared after every failing call) and a real statement for stream writers (arch_of / the closed forms). "
              "Strings are Shift-JIS encoded bytes (A-codec).",
    technique="Coq proof (case analysis on the bounds guards, list splice lemmas, codec round trip by induction) + extracted-model differential check",
    ref="DESIGN.md section 2 (C04)")
