# Common machinery of ./check: builds (Coq project, extracted driver, Rust harness against
# /repo's current tree), proof audit, correspondence (leg K), oracle (leg O), verdict,
# evidence.  Python 3 standard library only.
import fcntl
import hashlib
import json
import os
import random
import re
import subprocess
import sys
import time

VERIF = os.path.dirname(os.path.dirname(os.path.abspath(__file__)))
COQ = os.path.join(VERIF, "coq")
HARNESS = os.path.join(VERIF, "harness")
WORK = os.path.join(VERIF, "work")
EVID = os.path.join(VERIF, "evidence")
REPO = "/repo"
NPROC = os.cpu_count() or 4

ENV = dict(os.environ)
ENV.update({"CARGO_NET_OFFLINE": "true", "GOPROXY": "off", "PIP_NO_INDEX": "1"})

AXIOM_ALLOW = set()  # names of axioms a property theorem may depend on (DESIGN 1.7): none

FORBIDDEN = [
    r"\bAdmitted\b", r"\badmit\b", r"\bAxiom\b", r"\bAxioms\b", r"\bParameter\b", r"\bParameters\b",
    r"\bConjecture\b", r"Unset\s+Guard", r"bypass_check", r"type-in-type", r"impredicative-set",
    r"Admit\s+Obligations", r"Unset\s+Positivity", r"Unset\s+Universe\s+Checking", r"\bnative_compute\b",
]


def log(*a):
    print(*a, file=sys.stderr, flush=True)


class Lock:
    def __init__(self, name):
        os.makedirs(WORK, exist_ok=True)
        self.path = os.path.join(WORK, name + ".lock")

    def __enter__(self):
        self.f = open(self.path, "w")
        fcntl.flock(self.f, fcntl.LOCK_EX)
        return self

    def __exit__(self, *a):
        fcntl.flock(self.f, fcntl.LOCK_UN)
        self.f.close()


def sh(cmd, cwd=None, timeout=3600, env=None):
    p = subprocess.run(cmd, cwd=cwd, shell=isinstance(cmd, str), stdout=subprocess.PIPE,
                       stderr=subprocess.STDOUT, timeout=timeout, env=env or ENV)
    return p.returncode, p.stdout.decode("utf-8", "replace")


# ----------------------------------------------------------------------------- builds
def coq_sources():
    out = []
    for root, _, files in os.walk(COQ):
        for f in files:
            if f.endswith(".v") and not f.startswith("."):
                out.append(os.path.join(root, f))
    return sorted(out)


def strip_comments(src):
    # remove (* ... *) comments (nested) so the textual audit does not trip over prose
    out = []
    depth = 0
    i = 0
    n = len(src)
    while i < n:
        if src.startswith("(*", i):
            depth += 1
            i += 2
        elif src.startswith("*)", i) and depth > 0:
            depth -= 1
            i += 2
        else:
            if depth == 0:
                out.append(src[i])
            i += 1
    return "".join(out)


def textual_audit():
    """No Admitted/admit/Axiom/Parameter/... anywhere in the development (comments ignored)."""
    bad = []
    for path in coq_sources():
        src = strip_comments(open(path, encoding="utf-8").read())
        # Variable / Hypothesis / Context outside a section
        depth = 0
        for ln, line in enumerate(src.split("\n"), 1):
            s = line.strip()
            if re.match(r"Section\s+\w+", s):
                depth += 1
            elif re.match(r"End\s+\w+", s) and depth > 0:
                depth -= 1
            if depth == 0 and re.match(r"(Variable|Variables|Hypothesis|Hypotheses|Context)\b", s):
                bad.append("%s:%d: %s outside a section" % (path, ln, s.split()[0]))
            for pat in FORBIDDEN:
                if re.search(pat, line):
                    bad.append("%s:%d: forbidden %s" % (path, ln, pat))
    proj = open(os.path.join(COQ, "_CoqProject")).read()
    for pat in ("type-in-type", "impredicative-set", "-vos", "bypass"):
        if pat in proj:
            bad.append("_CoqProject: forbidden flag " + pat)
    return bad


def build_coq(targets):
    """Full .vo build (never -vos) of the given targets through coq_makefile's Makefile."""
    with Lock("coq"):
        mk = os.path.join(COQ, "Makefile")
        cp = os.path.join(COQ, "_CoqProject")
        if not os.path.exists(mk) or os.path.getmtime(mk) < os.path.getmtime(cp):
            rc, out = sh("coq_makefile -f _CoqProject -o Makefile", cwd=COQ)
            if rc != 0:
                return False, out
        cmd = "timeout 3000 make -j%d %s" % (NPROC, " ".join(targets))
        rc, out = sh(cmd, cwd=COQ, timeout=3100)
        return rc == 0, out


def build_driver():
    """ocamlopt of the extracted modules (coq/Extract/out/*.ml) + the hand-written driver."""
    with Lock("coq"):
        ex = os.path.join(COQ, "Extract")
        outd = os.path.join(ex, "out")
        drv = os.path.join(ex, "driver")
        srcs = [os.path.join(outd, f) for f in sorted(os.listdir(outd)) if f.endswith((".ml", ".mli"))] if os.path.isdir(outd) else []
        srcs.append(os.path.join(ex, "driver.ml"))
        if os.path.exists(drv) and all(os.path.getmtime(drv) >= os.path.getmtime(s) for s in srcs):
            return True, "driver up to date"
        rc, order = sh("ocamlfind ocamldep -sort -I out out/*.mli out/*.ml", cwd=ex)
        if rc != 0:
            return False, order
        rc, out = sh("ocamlfind ocamlopt -O3 -inline 200 -w -a -I out %s driver.ml -o driver" % order.strip(), cwd=ex, timeout=900)
        return rc == 0, out


def build_harness(release=False):
    """cargo build of the harness against /repo's current working tree."""
    with Lock("cargo"):
        lock_src = os.path.join(REPO, "Cargo.lock")
        lock_dst = os.path.join(HARNESS, "Cargo.lock")
        if not os.path.exists(lock_dst):
            import shutil
            shutil.copy(lock_src, lock_dst)
        cmd = "cargo build --offline" + (" --release" if release else "")
        rc, out = sh(cmd, cwd=HARNESS, timeout=1800)
        return rc == 0, out


def harness_bin(release=False):
    return os.path.join(HARNESS, "target", "release" if release else "debug", "mila-harness")


def driver_bin():
    return os.path.join(COQ, "Extract", "driver")


# ----------------------------------------------------------------------------- proof audit
def theorem_names(prop_file):
    src = strip_comments(open(prop_file, encoding="utf-8").read())
    return re.findall(r"^\s*(?:Theorem|Corollary)\s+([A-Za-z0-9_']+)", src, flags=re.M)


def proof_audit(pid, extra_modules=()):
    """Compile a throw-away file that prints the assumptions of every theorem in
    Properties/<pid>.v; every one must be closed (or depend only on allow-listed axioms)."""
    prop_file = os.path.join(COQ, "Properties", pid + ".v")
    names = theorem_names(prop_file)
    wd = os.path.join(WORK, pid)
    os.makedirs(wd, exist_ok=True)
    audit = os.path.join(wd, "Audit_%s.v" % pid)
    with open(audit, "w") as f:
        f.write("From Mila Require Import Properties.%s.\n" % pid)
        for n in names:
            f.write('Goal True. idtac "BEGIN-ASSUMPTIONS %s". Abort.\n' % n)
            f.write("Print Assumptions %s.\n" % n)
            f.write('Goal True. idtac "END-ASSUMPTIONS". Abort.\n')
    with Lock("coq"):
        rc, out = sh("timeout 600 coqc -noglob -Q %s Mila %s" % (COQ, audit), cwd=wd, timeout=700)
    results = {}
    if rc != 0:
        return names, {n: "audit failed to compile: " + out[-400:] for n in names}, out
    for m in re.finditer(r"BEGIN-ASSUMPTIONS (\S+)\n(.*?)END-ASSUMPTIONS", out, flags=re.S):
        name, body = m.group(1), m.group(2).strip()
        if body.startswith("Closed under the global context"):
            results[name] = "closed"
        else:
            axioms = re.findall(r"^([A-Za-z0-9_.']+)\s*:", body, flags=re.M)
            extra = [a for a in axioms if a.split(".")[-1] not in AXIOM_ALLOW and a not in AXIOM_ALLOW]
            results[name] = "closed-modulo-allowed" if not extra else "axioms: " + ", ".join(extra)
    for n in names:
        results.setdefault(n, "no output")
    return names, results, out


# ----------------------------------------------------------------------------- running the two sides
def _run_stream(binary, lines, wd, tag, isolate, timeout):
    """Feed `lines` to `binary`, return list of output lines (same length).  If the process
    dies the case it died on is recorded as ABORT and the rest is resumed in a new process."""
    outs = []
    pos = 0
    n = len(lines)
    attempt = 0
    while pos < n:
        attempt += 1
        inp = ("\n".join(lines[pos:]) + "\n").encode()
        try:
            p = subprocess.run([binary], input=inp, stdout=subprocess.PIPE, stderr=subprocess.PIPE,
                               timeout=timeout, env=ENV)
            got = p.stdout.decode("utf-8", "replace").split("\n")
            if got and got[-1] == "":
                got.pop()
            rc = p.returncode
        except subprocess.TimeoutExpired as e:
            got = (e.stdout or b"").decode("utf-8", "replace").split("\n")
            if got and got[-1] == "":
                got.pop()
            # last line may be partial
            rc = "timeout"
        if len(got) >= n - pos and rc == 0:
            outs.extend(got[: n - pos])
            pos = n
            break
        # died or timed out in the middle: got[] complete lines, then the culprit
        if rc == 0:
            # too few lines without a crash: protocol error
            outs.extend(got)
            outs.extend(["MISSING-OUTPUT"] * (n - pos - len(got)))
            pos = n
            break
        outs.extend(got)
        pos += len(got)
        if pos < n:
            outs.append("TIMEOUT" if rc == "timeout" else "ABORT")
            pos += 1
        if attempt > 2000:
            outs.extend(["ABORT-LIMIT"] * (n - pos))
            break
    return outs


def run_tool(binary, lines, wd, tag, shards=None, isolate=True, timeout=1800):
    """Run a line-oriented tool over the cases, sharded over processes."""
    from concurrent.futures import ThreadPoolExecutor
    n = len(lines)
    if n == 0:
        return []
    k = shards or min(NPROC, max(1, n // 50))
    chunks = [lines[i * n // k:(i + 1) * n // k] for i in range(k)]
    with ThreadPoolExecutor(max_workers=k) as ex:
        futs = [ex.submit(_run_stream, binary, c, wd, tag, isolate, timeout) for c in chunks]
        res = []
        for f in futs:
            res.extend(f.result())
    return res


# ----------------------------------------------------------------------------- the check itself
class Case:
    __slots__ = ("line", "stream", "meta")

    def __init__(self, line, stream, meta=None):
        self.line = line
        self.stream = stream
        self.meta = meta or {}


class PropertyCheck:
    """Subclass per property.  Override the hooks below."""
    pid = "C00"
    release_too = False          # also run the wrapping-arithmetic (release) build
    coq_targets = None           # defaults to Properties/<pid>.vo + extraction
    assumptions = []
    trusted_base_extra = []
    rule = ""
    use_model = True             # leg K enabled

    def corpus(self):
        path = os.path.join(VERIF, "corpus", self.pid, "cases.txt")
        out = []
        if os.path.exists(path):
            for l in open(path):
                l = l.rstrip("\n")
                if l and not l.startswith("#"):
                    out.append(Case(l, "corpus"))
        return out

    def generate(self, rng, tier):
        return []

    def nontrivial(self, case, impl_out):
        return True

    def oracle(self, case, impl_out, profile):
        """Return None if the property holds on this implementation output, else a description."""
        return None

    def canon_impl(self, case, out, profile):
        """Canonicalise an implementation output line before comparing with the model."""
        return out

    def canon_model(self, case, out, profile):
        return out

    def agree(self, case, impl_out, model_out, profile):
        """Leg K: does the implementation's output correspond to the model's?"""
        return self.canon_impl(case, impl_out, profile) == self.canon_model(case, model_out, profile)

    def known_finding(self, case, impl_out, failure):
        """Return the `what` of a listed known finding that explains this failure, else None."""
        return None

    def shrink_candidates(self, case):
        return []

    def extra_checks(self, ctx):
        """Property-specific extra legs (e.g. multi-process determinism).  Returns list of
        (case_description, failure) violations and a dict merged into coverage."""
        return [], {}


def load_known():
    p = os.path.join(VERIF, "known_findings.json")
    if os.path.exists(p):
        return json.load(open(p))
    return {"findings": []}


def write_json(path, obj):
    os.makedirs(os.path.dirname(path), exist_ok=True)
    tmp = path + ".tmp%d" % os.getpid()
    with open(tmp, "w") as f:
        json.dump(obj, f, indent=1, sort_keys=True)
        f.write("\n")
    os.replace(tmp, path)


def replay_path(pid, payload):
    h = hashlib.sha1(json.dumps(payload, sort_keys=True).encode()).hexdigest()[:12]
    return os.path.join(EVID, "replay", "%s-%s.json" % (pid, h))


def evaluate_one(chk, case_line, profiles):
    """Run one case on impl (all profiles) and model; returns dict."""
    wd = os.path.join(WORK, chk.pid)
    res = {"case": case_line, "impl": {}, "model": None}
    c = Case(case_line, "single")
    for prof in profiles:
        out = run_tool(harness_bin(prof == "release"), [case_line], wd, "one", shards=1)[0]
        res["impl"][prof] = out
    if chk.use_model:
        res["model"] = run_tool(driver_bin(), [case_line], wd, "one", shards=1)[0]
    res["oracle"] = {p: chk.oracle(c, res["impl"][p], p) for p in profiles}
    res["agree"] = {p: (not chk.use_model) or chk.agree(c, res["impl"][p], res["model"], p) for p in profiles}
    return res


def shrink(chk, case, profiles, pred):
    """Greedy shrinking with the property's candidate generator; pred(result) says 'still failing'."""
    cur = case
    budget = 300
    improved = True
    while improved and budget > 0:
        improved = False
        for cand in chk.shrink_candidates(cur):
            budget -= 1
            if budget <= 0:
                break
            r = evaluate_one(chk, cand.line, profiles)
            if pred(r):
                cur = cand
                improved = True
                break
    return cur


def run_check(chk, tier, seed, replay=None):
    t0 = time.time()
    pid = chk.pid
    wd = os.path.join(WORK, pid)
    os.makedirs(wd, exist_ok=True)
    profiles = ["debug"] + (["release"] if chk.release_too else [])
    violations = []   # list of (replay_payload, suffix)
    known_lines = []
    notes = []

    # ---- 1. proofs
    targets = chk.coq_targets or ["Properties/%s.vo" % pid, "Extract/Extract.vo"]
    ok_coq, coq_out = build_coq(targets)
    audit_bad = textual_audit()
    names, assum, audit_out = ([], {}, "")
    if ok_coq:
        names, assum, audit_out = proof_audit(pid)
    obligations = len(names) + 1  # theorems + the textual audit
    discharged = sum(1 for n in names if assum.get(n, "").startswith("closed")) + (0 if audit_bad else 1)
    proof_ok = ok_coq and not audit_bad and obligations == discharged and len(names) > 0
    if not ok_coq:
        m = re.search(r'File "([^"]+)", line (\d+).*?\n(Error:.*?)(?:\n\n|\Z)', coq_out, flags=re.S)
        notes.append("coq build failed: " + (m.group(0)[:600] if m else coq_out[-600:]))
    for b in audit_bad:
        notes.append("audit: " + b)
    for n in names:
        if not assum.get(n, "").startswith("closed"):
            notes.append("theorem %s: %s" % (n, assum.get(n)))

    # ---- 2. builds of the executable sides
    ok_drv, drv_out = (True, "")
    if chk.use_model:
        # extraction needs Extract.vo; if the property file failed, still try to build the model
        if not ok_coq:
            build_coq(["Extract/Extract.vo"])
        ok_drv, drv_out = build_driver()
        if not ok_drv:
            notes.append("driver build failed: " + drv_out[-500:])
    ok_h = True
    for prof in profiles:
        ok, out = build_harness(prof == "release")
        if not ok:
            ok_h = False
            notes.append("harness build (%s) failed: %s" % (prof, out[-800:]))
    if not ok_h:
        # the harness no longer compiles against /repo: nothing can be checked
        payload = {"property": pid, "reason": "harness-build-failed", "notes": notes}
        rp = replay_path(pid, payload)
        write_json(rp, payload)
        print("VIOLATION property=%s replay=%s no-failing-input-found" % (pid, rp))
        finish(chk, tier, seed, t0, obligations, discharged, 0, 0, [], {}, notes, 1, targets)
        return 1

    if replay:
        payload = json.load(open(replay))
        line = payload.get("case")
        if line is None:
            print(json.dumps(payload, indent=1))
            return 0
        r = evaluate_one(chk, line, profiles)
        print(json.dumps(r, indent=1))
        bad = any(v for v in r["oracle"].values()) or not all(r["agree"].values())
        return 1 if bad else 0

    # ---- 3. cases
    rng = random.Random(seed)
    cases = chk.corpus() + chk.generate(rng, tier)
    lines = [c.line for c in cases]
    with open(os.path.join(wd, "cases.txt"), "w") as f:
        f.write("\n".join(lines) + "\n")
    impl = {}
    for prof in profiles:
        impl[prof] = run_tool(harness_bin(prof == "release"), lines, wd, "impl-" + prof)
        with open(os.path.join(wd, "impl-%s.txt" % prof), "w") as f:
            f.write("\n".join(impl[prof]) + "\n")
    model = None
    if chk.use_model and ok_drv:
        model = run_tool(driver_bin(), lines, wd, "model")
        with open(os.path.join(wd, "model.txt"), "w") as f:
            f.write("\n".join(model) + "\n")

    # ---- 4. oracle + correspondence
    nontriv = set()
    dist = {}
    k_diffs = []
    o_fails = []
    for i, c in enumerate(cases):
        dist[c.stream] = dist.get(c.stream, 0) + 1
        for prof in profiles:
            out = impl[prof][i]
            fail = chk.oracle(c, out, prof)
            if fail:
                o_fails.append((c, prof, out, fail))
            if model is not None:
                if not chk.agree(c, out, model[i], prof):
                    k_diffs.append((c, prof, out, model[i]))
        if chk.nontrivial(c, impl["debug"][i]):
            nontriv.add(c.line)

    extra_viol, extra_cov = chk.extra_checks({"tier": tier, "seed": seed, "rng": rng, "wd": wd, "profiles": profiles})

    # ---- 5. verdict
    seen_known = set()
    reported = 0
    MAXREP = 5

    def report(payload, suffix=""):
        nonlocal reported
        rp = replay_path(pid, payload)
        write_json(rp, payload)
        if reported < MAXREP:
            print("VIOLATION property=%s replay=%s%s" % (pid, rp, suffix))
        reported += 1

    for (c, prof, out, fail) in o_fails:
        kf = chk.known_finding(c, out, fail)
        if kf:
            if kf not in seen_known:
                seen_known.add(kf)
                print("KNOWN-FINDING: property=%s %s" % (pid, kf))
            continue
        if reported >= MAXREP:
            reported += 1
            continue
        small = shrink(chk, c, [prof], lambda r: bool(r["oracle"].get(prof)))
        r = evaluate_one(chk, small.line, [prof])
        report({"property": pid, "seed": seed, "tier": tier, "reason": "oracle-failure", "profile": prof,
                "case": small.line, "original_case": c.line, "impl": r["impl"], "model": r["model"],
                "oracle": r["oracle"], "stream": c.stream, "shrunk": small.line != c.line,
                "replay_cmd": "./check %s --replay <this file>" % pid})
    for (desc, fail) in extra_viol:
        report({"property": pid, "seed": seed, "tier": tier, "reason": "oracle-failure", "what": desc, "oracle": fail})

    o_lines = set(c.line for (c, _, _, _) in o_fails)
    kd = [d for d in k_diffs if d[0].line not in o_lines]
    if kd:
        # correspondence broken without a direct oracle failure: search for a failing input
        found = False
        tried = 0
        for (c, prof, out, mout) in kd[:20]:
            small = shrink(chk, c, [prof], lambda r: not r["agree"].get(prof, True))
            for cand in [small] + list(chk.shrink_candidates(small))[:40]:
                tried += 1
                r = evaluate_one(chk, cand.line, [prof])
                if r["oracle"].get(prof):
                    kf = chk.known_finding(cand, r["impl"][prof], r["oracle"][prof])
                    if kf:
                        continue
                    report({"property": pid, "seed": seed, "tier": tier, "reason": "oracle-failure", "profile": prof,
                            "case": cand.line, "impl": r["impl"], "model": r["model"], "oracle": r["oracle"],
                            "found_via": "search after correspondence difference", "shrunk": True})
                    found = True
                    break
            if found:
                break
        if not found:
            (c, prof, out, mout) = kd[0]
            small = shrink(chk, c, [prof], lambda r: not r["agree"].get(prof, True))
            r = evaluate_one(chk, small.line, [prof])
            report({"property": pid, "seed": seed, "tier": tier, "reason": "correspondence", "profile": prof,
                    "theorem_or_relation": "model(%s) = implementation on generated cases (leg K)" % pid,
                    "case": small.line, "impl": r["impl"], "model": r["model"], "differences": len(kd),
                    "search": "oracle evaluated on %d shrunk/neighbouring cases: no failing input" % tried,
                    "shrunk": small.line != c.line}, " no-failing-input-found")

    if not proof_ok or (chk.use_model and not ok_drv):
        # a proof obligation no longer checks: look for a failing input among what was explored (done above);
        # none found => still a violation, named after the theorem
        if reported == 0:
            report({"property": pid, "seed": seed, "tier": tier, "reason": "proof",
                    "theorem_or_relation": notes, "search": "oracle evaluated on %d cases: no failing input" % len(cases)},
                   " no-failing-input-found")

    samples = []
    for s in sorted(dist):
        for i, c in enumerate(cases):
            if c.stream == s:
                samples.append({"stream": s, "case": c.line[:400], "impl": impl["debug"][i][:400]})
                break
    cov_extra = {"streams": dist, "profiles": profiles, "correspondence_differences": len(k_diffs),
                 "oracle_failures": len(o_fails), "known_findings_seen": sorted(seen_known),
                 "theorems": {n: assum.get(n) for n in names}}
    cov_extra.update(extra_cov)
    rc = 1 if reported else 0
    finish(chk, tier, seed, t0, obligations, discharged, len(cases) * len(profiles), len(nontriv), samples, cov_extra,
           notes, reported, targets)
    return rc


def finish(chk, tier, seed, t0, obligations, discharged, evaluations, nontriv, samples, cov_extra, notes, nviol, targets):
    cov = {
        "obligations": obligations,
        "discharged": discharged,
        "checker_cmd": "cd /verif/coq && make %s  (full .vo build, coqc 8.16.1) ; coqc Audit_%s.v (Print Assumptions per theorem) ; textual audit"
                       % (" ".join(targets), chk.pid),
        "trusted_base": [
            "Coq 8.16.1 kernel (coqc; vm_compute used, native_compute not used)",
            "axioms: none (every theorem of Properties/%s.v must print 'Closed under the global context')" % chk.pid,
            "extraction: ExtrOcamlBasic only, no Extract Constant/Inductive of our own; OCaml 4.13.1; hand-written coq/Extract/driver.ml",
            "correspondence harness: /verif/harness (Rust, path dependency on /repo), /verif/gen (Python generators, canonicaliser, oracle)",
        ] + list(chk.trusted_base_extra),
        "evaluations": evaluations,
        "distinct_nontrivial": nontriv,
        "rule": chk.rule,
        "samples": samples[:12] if samples else [{"note": "no cases run"}],
        "notes": notes,
    }
    cov.update(cov_extra)
    ev = {
        "property_id": chk.pid, "tier": tier, "seed": seed, "level": "proof", "coverage": cov,
        "assumptions": list(chk.assumptions), "wall_s": round(time.time() - t0, 2), "violations": nviol,
    }
    write_json(os.path.join(EVID, chk.pid + ".json"), ev)
