# C14: localisation - exhaustive over localizers x languages x structured paths; oracle from the property text.
import itertools
from common import PropertyCheck, Case


class _Lazy:
    """fsgen imports this module (marker table); import it lazily to avoid the cycle"""
    def __getattr__(self, name):
        import fsgen as _f
        return getattr(_f, name)


fsgen = _Lazy()

GAMES = ["NoOp", "FE9", "FE10", "FE13", "FE14", "FE15"]
LANGS = ["EnglishNA", "EnglishEU", "Japanese", "Spanish", "French", "Italian", "German", "Dutch"]

# marker table written from the property statement (not from the source)
DIR13 = {"EnglishNA": "E", "EnglishEU": "U", "Spanish": "S", "French": "F", "German": "G", "Italian": "I", "Japanese": None}
DIR15 = {"EnglishNA": "@NOA_EN", "EnglishEU": "@NOE_EN", "Japanese": "@J", "Spanish": "@NOE_SP", "French": "@NOE_FR",
         "German": "@NOE_GE", "Italian": "@NOE_IT", "Dutch": "@NOE_DU"}
PRE10 = {"EnglishNA": "e_", "EnglishEU": "e_", "Spanish": "s_", "German": "d_", "Italian": "i_", "French": "f_", "Japanese": None}
PRE9 = {"EnglishNA": None, "EnglishEU": None, "Spanish": "s_", "German": "d_", "Italian": "i_", "French": "f_", "Japanese": None}


def marker(game, lang):
    """('unsupported',) | ('none',) | ('dir', m) | ('prefix', m)"""
    if game == "FE13" or game == "FE14":
        if lang == "Dutch":
            return ("unsupported",)
        m = DIR13[lang]
        if m is None:
            return ("none",)
        return ("dir", m if game == "FE13" else "@" + m)
    if game == "FE15":
        return ("dir", DIR15[lang])
    tab = PRE10 if game == "FE10" else PRE9
    if lang == "Dutch":
        return ("unsupported",)
    m = tab[lang]
    return ("none",) if m is None else ("prefix", m)


def L(s):
    return "L" + ",".join(str(ord(c)) for c in s)


def unL(tok):
    b = tok[1:]
    return "".join(chr(int(x)) for x in b.split(",")) if b else ""


def expected(game, lang, comps):
    if game == "NoOp":
        return None
    mk = marker(game, lang)
    if mk[0] == "unsupported":
        return "err unsupported-language"
    if len(comps) == 1:
        d, name = comps[0], ""
    else:
        d, name = "/".join(comps[:-1]), comps[-1]
    if mk[0] == "none":
        return "ok " + L(d + "/" + name)
    if mk[0] == "dir":
        return "ok " + L(d + "/" + mk[1] + "/" + name)
    return "ok " + L(d + "/" + mk[1] + name)


NAMES = ["a", "dir name", "x.y", "@E", ".hidden", "日本", " ", "e_f", "...", "GameData.bin.lz", "b\\s #%."]


class C14(PropertyCheck):
    pid = "C14"
    source_tables = ["Localize", "FS_CONFIG"]   # tables / constants regenerated from /repo's source (gen/srctables.py)
    rule = ("file-system half: random histories of localized and unlocalized write/read/exists/file_exists/directory_exists/resolve/create_dir/list on real "
            "temp-directory layers, rotating over the 5 supported games x 8 languages (generator shared with C12/C13); "
            "localize itself: exhaustive over 6 localizers x 8 languages x (paths of plain components from a 10-name alphabet, depth 1-2 (thorough 1-3) exhaustively, "
            "deeper sampled) x trailing slash; degenerate strings; all strings up to length 5 over {a . / space} plus strings with 2-, 3- and 4-byte characters next to every '/' "
            "(inside and outside the modelled path shapes) for no-panic - the model now HAS a panic outcome (LPanic at the two to_str().unwrap() sites), so a panic of the "
            "implementation is a correspondence difference as well as an oracle failure. "
            "Non-trivial = localizer other than NoOp on a structured path; distinct = distinct case line.")
    assumptions = ["A-fs: std::path::Path::{parent,file_name} modelled on plain-component paths and the strings \"\", \"/\", \"..\", \".\" only; "
                   "other strings are compared for 'returns, does not panic' only",
                   "A-fs (UTF-8 slices): the &OsStr values Path::parent / Path::file_name return for Path::new(&str) are sub-slices of that str cut next to '/' bytes "
                   "(ASCII, so never inside a multi-byte sequence), hence valid UTF-8: in the model, sub-lists of the caller's list of scalar values; "
                   "C14_no_panic / C14_total are proved from it (C14_unwrap_sites_never_fail for every string, C14_model_slices_are_substrings for the modelled shapes)"]

    def corpus(self):
        out = []
        for c in PropertyCheck.corpus(self):
            out.append(Case(fsgen.expand_corpus_line(c.line) if c.line.startswith("fs ") else c.line, "corpus"))
        return out

    def generate(self, rng, tier):
        # file-system half: histories on real temp-directory layers with localized and unlocalized access (shared with C12/C13)
        cases = fsgen.gen_cases(rng, tier, "c12", 800 if tier == "quick" else 8000, "fs-localized-histories")
        maxd = 2 if tier == "quick" else 3
        paths = []
        for d in range(1, maxd + 1):
            for comps in itertools.product(NAMES, repeat=d):
                paths.append(comps)
        nrand = 600 if tier == "quick" else 6000
        for _ in range(nrand):
            d = rng.choice([3, 4]) if tier == "quick" else 4
            paths.append(tuple(rng.choice(NAMES) for _ in range(d)))
        for comps in paths:
            for tr in (False, True):
                p = "/".join(comps) + ("/" if tr else "")
                for g in range(6):
                    for l in range(8):
                        c = Case("c14 %d %d %s" % (g, l, L(p)), "structured")
                        c.meta = {"comps": comps}
                        cases.append(c)
        for p in ["", "/", "..", "."]:
            for g in range(6):
                for l in range(8):
                    cases.append(Case("c14 %d %d %s" % (g, l, L(p)), "degenerate"))
        arb = ["a//b", "./a", "a/..", "a/./b", "/a", "//", "a/../b", "../a", "a/.", "~", "a\\b", "a/b//", "/a/b", " / "]
        # multi-byte characters right next to the cuts Path::parent / file_name make (assumption A-fs, UTF-8 slices): 2-, 3- and 4-byte
        # sequences before / after '/', also in shapes outside the modelled domain
        arb += ["é/é", "日/本/", "/日", "é//日", "./é", "日/..", "\U0001F600/\U0001F600", "a/\U0001F600/", "\U0001F600//é/.", "é/./日", "../日",
                "\u00e9", "日本/", "\ud7ff/\ue000", "\U0010ffff/\U0010ffff/\U0010ffff"]
        for n in range(0, 6):
            for t in itertools.product("a./ ", repeat=n):
                arb.append("".join(t))
        pairs = [(3, 0), (1, 3), (5, 7), (2, 2)] if tier == "quick" else [(g, l) for g in range(1, 6) for l in (0, 2, 3, 7)]
        for p in arb:
            for (g, l) in pairs:
                cases.append(Case("c14 %d %d %s" % (g, l, L(p)), "arbitrary"))
        return cases

    def nontrivial(self, case, impl_out):
        if case.line.startswith("fs "):
            return fsgen.nontrivial(case, impl_out, ("R", "W"))
        return case.stream == "structured" and not case.line.startswith("c14 0 ")

    def agree(self, case, impl_out, model_out, profile):
        if case.line.startswith("fs "):
            return fsgen.agree(impl_out, model_out)
        # outside the modelled path domain the model says so; there only "returns, no panic" is compared
        if model_out == "unmodelled":
            return impl_out.startswith("ok ") or impl_out.startswith("err ")
        return impl_out == model_out

    def _parts(self, case):
        t = case.line.split()
        return GAMES[int(t[1])], LANGS[int(t[2])], unL(t[3])

    def oracle(self, case, impl_out, profile):
        if case.line.startswith("fs "):
            _, c = fsgen.parse_case(case.line)
            return fsgen.check_history(c, impl_out)
        game, lang, path = self._parts(case)
        if impl_out in ("PANIC", "ABORT", "TIMEOUT"):
            return "localize panicked/aborted on %r" % path
        if game == "NoOp":
            return None if impl_out == "ok " + L(path) else "NoOp localizer changed the path"
        comps = [c for c in path.split("/")]
        if comps and comps[-1] == "" and len(comps) > 1:
            comps = comps[:-1]
        structured = len(comps) >= 1 and all(c not in ("", ".", "..") for c in comps)
        if structured:
            want = expected(game, lang, comps)
            if impl_out != want:
                return "localize(%s,%s,%r): want %s got %s" % (game, lang, path, want, impl_out)
            return None
        if path in ("", "/", ".."):
            if not impl_out.startswith("err"):
                return "degenerate path %r not reported as an error: %s" % (path, impl_out)
        return None


TB = ("Trusted: Coq 8.16.1 kernel (vm_compute, no native_compute), no axioms (Print Assumptions audited on every run), "
      "ExtrOcamlBasic extraction + hand-written OCaml driver, the Rust harness and Python generators/oracles. ")

MANIFEST = dict(
    text="Theorems about an executable Gallina model of the six path localizers: the transcribed per-language push strings equal the "
         "specification table written from the property text for all 5x8 pairs (finite proof), localize = directory part + marker + final "
         "component on every path of plain components (any depth, any characters, trailing slash or not), single components get the marker "
         "appended, degenerate paths are the exact errors MissingParent ('', '/') / MissingFileName ('..', '.') before UnsupportedLanguage; NEVER PANICS: the model's result type has a panic outcome LPanic placed at the two `to_str().unwrap()` sites of localization.rs (OsStr::to_str modelled as 'Some iff valid Unicode'), and C14_no_panic / C14_total prove that for every localizer, language and every string that is a Rust str (list of scalar values) the result is Ok of a str, an error, or 'outside the modelled path shapes' - never LPanic - because the slices reaching the unwrap sites are sub-slices of the caller's str (C14_unwrap_sites_never_fail holds for ANY sub-slice, i.e. also outside the modelled shapes, under assumption A-fs on Path::parent/file_name; C14_model_slices_are_substrings discharges it for the model); C14_fs_no_panic lifts it to the file-system operations; the trailing '/' of the input is dropped ('a/b/' -> 'a/<marker>b', pinned by C14_example_trailing_slash); model tied to /repo by exhaustive correspondence over localizers x languages x a structured path "
         "family plus arbitrary strings (no panic), and an independent oracle table. File-system half (last sentence of the property): "
         "C14_fs_consistent - every operation with localized=true equals the same operation with localized=false on localize p (addressing, "
         "existence queries, resolve, list, subdirectories, create_dir, and read/write under the codec-by-name side condition, which "
         "C14_fs_same_codec discharges for dir/name paths - necessary: C14_fs_example_trailing_slash_raw shows read('d/z.lz/', localized) returning the raw stored stream), C14_fs_localisation_error (all nine operations); tied to /repo by localized-access histories on real "
         "temp directories with a walk of every layer after every call.",
    note=TB + "Modelled, not verified: std::path::Path::parent/file_name (on plain-component paths and the strings \"\", \"/\", \"..\", \".\"); "
              "other strings are outside the model's VALUE and only checked for 'returns, no panic' (their panic-freedom is covered by C14_unwrap_sites_never_fail under the assumption that Path::parent/file_name return sub-slices of the input cut at '/' bytes, which is not verified against std). A-fs for the file-system half (std::fs, glob, normpath) as in C12/C13.",
    technique="Coq proof (finite table by computation + list lemmas on split/join) + exhaustive extracted-model differential check",
    ref="DESIGN.md section 5 (C14)")
