# C15: GameCube/Wii pack archive - build -> parse is identity, layout aligned, parser correct on every
# conforming image.  Also runs the pack-archive cases of C05 (gen/packtotal.py) in both build profiles.
import os
import struct

import common
from common import PropertyCheck, Case
import packlib
import packtotal
from packlib import B, unB, hx, MAGIC

GAME_FILE_CONTENT = [(b"FE9ArcTest1.bin", bytes([1, 2, 3, 4, 5])), (b"FE9ArcTest2.bin", bytes([6, 7, 8, 9, 10, 11]))]


def big_files(n, bl):
    return [(("f%d" % i).encode(), bytes((i + j) % 251 for j in range(bl))) for i in range(n)]


def check_image(img, files):
    """The property's statement about a built image, by the reference reader: count, names, offsets,
    sizes exact; every file on a 32-byte boundary."""
    try:
        got, recs = packlib.ref_read(img)
    except packlib.NotConforming as e:
        return "the built image is not a conforming pack image (%s)" % e
    (count,) = struct.unpack_from(">H", img, 4)
    if count != len(files):
        return "header count %d for %d files" % (count, len(files))
    if got != files:
        for i, (g, w) in enumerate(zip(got, files)):
            if g != w:
                return "entry %d of the built image reads back as name %s / %d bytes, want name %s / %d bytes" % (
                    i, hx(g[0]), len(g[1]), hx(w[0]), len(w[1]))
        return "the built image holds %d files, want %d" % (len(got), len(files))
    for i, (na, fa, sz) in enumerate(recs):
        if fa % 32 != 0:
            return "file %d starts at 0x%x, not on a 32-byte boundary" % (i, fa)
        if sz != len(files[i][1]):
            return "file %d: recorded size %d, real size %d" % (i, sz, len(files[i][1]))
    return None


class C15(PropertyCheck):
    pid = "C15"
    source_tables = ["PACK_CONSTS"]   # tables / constants regenerated from /repo's source (gen/srctables.py)
    release_too = True      # the C05 cases speak about both arithmetic profiles
    rule = ("streams: serialize (ordered maps of 0-40 files, body lengths around multiples of 32, empty bodies, lossless Shift-JIS names "
            "incl. prefixes of each other: image compared byte-exact with the extracted model, parse(serialize(x)) with x); layout "
            "(reference writer with knobs - names after bodies, permuted, gaps with junk, overlapping storage, shared name suffixes, "
            "alignment 1/4/32, junk in ignored fields - accepted by the extracted verified conforms_packb, then fe9_arc::parse compared "
            "with the intended content); game-file (resources/test/FE9Arc.bin); big (thorough: 65535 files); pack-* (C05: random bytes, "
            "every truncation, boundary values in every field, wrong magic, flips - outcome category, parsed value, allocation bound, "
            "both profiles). Non-trivial = at least one file / input with the pack magic and a full header; distinct = distinct case line.")
    assumptions = [
        "A-codec: encoding_rs Shift_JIS decode/encode are inverse on the names used (checked per name by the harness: "
        "`unrepresentable` otherwise); names are modelled as their encoded NUL-free byte strings",
        "A-std: Cursor reads past the end fail with UnexpectedEof and never panic; IndexMap::insert keeps the position of an existing key",
        "A-usize: serialize's usize sums of buffer lengths do not overflow (they are bounded by the size of the archive held in memory)",
        "serialize truncates silently (`as u16`, `as u32`) above 65535 files / 4 GiB: outside the property, stated as hypotheses",
    ]

    def generate(self, rng, tier):
        cases = []
        names = packlib.safe_names()
        # ---- (a) serialize + round trip
        nser = 2000 if tier == "quick" else 40000
        fixed = [
            [],                                                     # the empty archive
            [(b"a", b"")],                                          # one empty file
            [(b"", b"x")],                                          # the empty name
            [(b"a", b""), (b"ab", b""), (b"abc", b"")],             # prefixes, all empty
            GAME_FILE_CONTENT,
            [(b"abc", bytes(32)), (b"ab", bytes(31)), (b"a", bytes(33)), (b"b", b"")],
            [(names[i], bytes([i]) * n) for i, n in enumerate([0, 1, 31, 32, 33, 63, 64, 65, 96])],
            [(n, b"\x00") for n in names],                          # every name of the alphabet
        ]
        for L in range(0, 70):                                      # one file of every length 0..69
            fixed.append([(b"x.bin", bytes((7 * j + 1) % 256 for j in range(L)))])
        for L in range(0, 34):                                      # name-table length sweeps the padding boundary
            fixed.append([(b"n" * L, b"\x01\x02"), (b"m", b"\x03" * 33)])
        # long names of mixed one-byte / two-byte characters: a two-byte character straddles every 64- and 256-byte offset of some name
        # (seeded change C15-6 decoded names in fixed 64-byte blocks)
        kanji = bytes.fromhex("955c")     # U+8868, second byte 0x5C
        kana = bytes.fromhex("82a0")
        for lead in (b"a", b"abc", b"", bytes.fromhex("b1")):
            for unit in (kanji, kana):
                for n in (31, 32, 33, 64, 127, 128, 130):
                    fixed.append([(lead + unit * n, b"\x01"), (b"z" + lead, b"")])
        for files in fixed:
            cases.append(Case("packser " + packlib.files_tokens(files), "serialize"))
        for _ in range(nser):
            files = packlib.rand_files(rng)
            cases.append(Case("packser " + packlib.files_tokens(files), "serialize"))
        # ---- (b) reference writer with layout knobs
        nlay = 2000 if tier == "quick" else 40000
        for j in range(nlay):
            files = packlib.rand_files(rng, nmax=24)
            if j == 0:
                files = []
            knobs = dict(names_after=rng.random() < 0.5, permute=rng.random() < 0.5, gaps=rng.random() < 0.5,
                         overlap=rng.random() < 0.4, share_names=rng.random() < 0.4, align=rng.choice([1, 2, 4, 32]),
                         junk_fields=rng.random() < 0.5)
            img = packlib.ref_write(files, rng, **knobs)
            got, _ = packlib.ref_read(img)          # generator self-check
            assert got == files, "reference writer / reader disagree"
            cases.append(Case("packref %s %s" % (B(img), packlib.files_tokens(files)), "layout"))
        # ---- (c) the game file
        gf = os.path.join(common.REPO, "resources", "test", "FE9Arc.bin")
        if os.path.exists(gf):
            img = open(gf, "rb").read()
            cases.append(Case("packref %s %s" % (B(img), packlib.files_tokens(GAME_FILE_CONTENT)), "game-file"))
            cases.append(Case("packparse " + B(img), "game-file"))
        # ---- many files (implementation + oracle only)
        for (n, bl) in ([(300, 1), (1000, 0), (32768, 0), (65535, 0)] if tier == "quick" else [(300, 1), (1000, 33), (65535, 0), (20000, 3)]):
            cases.append(Case("packbig %d %d" % (n, bl), "big"))
        # ---- (d) C05, pack part
        cases += packtotal.total_cases(rng, tier)
        return cases

    # ------------------------------------------------------------------ oracle
    def oracle(self, case, impl_out, profile):
        toks = case.line.split()
        kind = toks[0]
        if impl_out in ("PANIC", "ABORT", "TIMEOUT") or impl_out.startswith("MISSING"):
            if kind not in ("packparse", "packparsebig"):
                return "%s: %s" % (kind, impl_out)
        if kind == "packser":
            files = packlib.parse_files_tokens(toks[1:])
            if impl_out in ("unrepresentable", "duplicate-name"):
                return "generator produced a name outside the property's domain: " + impl_out
            ot = impl_out.split(" ")
            if ot[0] != "ok" or len(ot) < 4 or ot[2] != "rt":
                return "serialize failed on a representable ordered map: %s" % impl_out[:80]
            fail = check_image(unB(ot[1]), files)
            if fail:
                return fail
            want = "ok" + packlib.entries_str(files)
            got = " ".join(ot[3:])
            if got != want:
                return "parse(serialize(x)) differs from x: got %s want %s" % (got[:200], want[:200])
            return None
        if kind == "packref":
            files = packlib.parse_files_tokens(toks[2:])
            want = "ok" + packlib.entries_str(files)
            if impl_out != want:
                return "parse of a conforming image differs from its content: got %s want %s" % (impl_out[:200], want[:200])
            return None
        if kind == "packbig":
            n, bl = int(toks[1]), int(toks[2])
            files = big_files(n, bl)
            ot = impl_out.split(" ")
            if ot[0] != "ok" or len(ot) != 3:
                return "serialize of %d files failed: %s" % (n, impl_out[:80])
            fail = check_image(unB(ot[1]), files)
            if fail:
                return fail
            if ot[2] != "rt=1":
                return "parse(serialize(x)) differs from x for %d files" % n
            return None
        if kind in ("packparse", "packparsebig"):
            return packtotal.total_oracle(case, impl_out, profile)
        return "unknown kind " + kind

    # ------------------------------------------------------------------ correspondence
    def agree(self, case, impl_out, model_out, profile):
        kind = case.line.split(" ", 1)[0]
        if kind == "packbig":
            return model_out == "unmodelled"
        if kind == "packref":
            # the verified checker must accept what the reference writer wrote, and model = implementation
            return model_out.startswith("conforms=1 ") and model_out[len("conforms=1 "):] == impl_out
        if kind in ("packparse", "packparsebig"):
            return packtotal.total_agree(case, impl_out, model_out, profile)
        return impl_out == model_out

    def nontrivial(self, case, impl_out):
        toks = case.line.split()
        if toks[0] == "packser":
            return len(toks) > 1
        if toks[0] == "packref":
            return len(toks) > 2
        if toks[0] in ("packparse", "packparsebig"):
            return packtotal.total_nontrivial(case, impl_out)
        return True

    def shrink_candidates(self, case):
        toks = case.line.split()
        if toks[0] == "packser":
            files = packlib.parse_files_tokens(toks[1:])
            for i in range(len(files)):
                yield Case("packser " + packlib.files_tokens(files[:i] + files[i + 1:]), case.stream)
            for i, (n, b) in enumerate(files):
                if len(b) > 0:
                    for nb in (b[:len(b) // 2], b[:-1]):
                        yield Case("packser " + packlib.files_tokens(files[:i] + [(n, nb)] + files[i + 1:]), case.stream)
                nn = b"n%d" % i          # a plain ASCII name (always representable)
                if len(n) > len(nn) and all(nn != x for x, _ in files):
                    yield Case("packser " + packlib.files_tokens(files[:i] + [(nn, b)] + files[i + 1:]), case.stream)
        elif toks[0] in ("packparse", "packparsebig"):
            for c in packtotal.total_shrink(case):
                yield c
        elif toks[0] == "packbig":
            n, bl = int(toks[1]), int(toks[2])
            for (a, b) in ((n // 2, bl), (n - 1, bl), (n, bl // 2)):
                if (a, b) != (n, bl) and a >= 0:
                    yield Case("packbig %d %d" % (a, b), case.stream)

    def extra_checks(self, ctx):
        return [], {"c05_pack": dict(packtotal.STATS)}


TB = ("Trusted: Coq 8.16.1 kernel (vm_compute, no native_compute), no axioms (Print Assumptions audited on every run), "
      "ExtrOcamlBasic extraction + hand-written OCaml driver, the Rust harness and Python generators/oracles. ")

MANIFEST = dict(
    text="Theorems about an executable machine-level Gallina model of fe9_arc::parse / fe9_arc::serialize (Model/Pack.v) against a format "
         "relation conforms_pack written independently of both (Model/PackFormat.v): the parser returns exactly the files of every "
         "conforming image wherever names and bodies lie (both arithmetic modes); serialize of up to 65535 distinct NUL-free names whose image "
         "fits 32 bits yields a conforming image with exact count, name addresses and sizes and every file on a 32-byte boundary; round trip "
         "as corollary (empty files, empty archive included); a verified boolean checker conforms_packb. All closed under the global context. "
         "The model is tied to /repo on every run: serialize byte-exact and parse(serialize(x)) on generated ordered maps, parse on images of "
         "an independent reference writer with layout knobs that the extracted conforms_packb accepted first, the game file, and (C05 part) "
         "outcome category / value / allocation size on malformed inputs in both build profiles.",
    note=TB + "Domain of 'Shift-JIS-representable names': names s with decode(encode s) = s - U+00A5, U+203E, U+2212 encode without error "
              "but come back as U+005C, U+007E, U+FF0D and are outside it. "
              "Modelled, not verified: encoding_rs Shift_JIS (A-codec; names travel in encoded form, losslessness checked per name by the "
              "harness), Cursor / IndexMap (A-std), usize sums in serialize cannot overflow (A-usize). serialize truncates silently above "
              "65535 files or 4 GiB (`as u16` / `as u32`): stated as hypotheses, outside the property. Defects F7 (todo!() on a wrong "
              "magic) and F8 (buffer sized by an unchecked field) were repaired in /repo; the model describes the repaired code.",
    technique="Coq proof (format relation + list/codec lemmas, lia) + extracted-model differential check + verified format checker as oracle filter",
    ref="DESIGN.md section 6 (C15), section 2 (C05)")
