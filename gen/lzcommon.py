# Shared by the LZ checks C08-C11: an independent (Python) statement of the LZ10 / LZ11 container
# - strict parser, expander, writer, decode classification - and the input generators.
# Nothing here is derived from the Coq model or from mila's code: it is written from the format
# description (see coq/Model/LZSpec.v header for the same description in prose).
import itertools
import os

WINDOW = 4096


def hexb(b):
    return "B" + bytes(b).hex()


def parse_hex(tok):
    """B<hex> = the bytes; P<len>:<hex> = the pattern repeated / truncated to <len> bytes (compact form for large
    periodic inputs, understood by the harness and the model driver alike)."""
    if "+" in tok:                      # several segments joined by '+': concatenation
        return b"".join(parse_hex(t) for t in tok.split("+"))
    if tok[0] == "P":
        n, pat = tok[1:].split(":", 1)
        n = int(n)
        pat = bytes.fromhex(pat) or b"\0"
        return (pat * (n // len(pat) + 1))[:n]
    assert tok[0] == "B", tok[:20]
    return bytes.fromhex(tok[1:])


def ptok(n, pattern):
    return "P%d:%s" % (n, bytes(pattern).hex())


def fnv64(b):
    h = 0xcbf29ce484222325
    for x in b:
        h ^= x
        h = (h * 0x100000001b3) & 0xFFFFFFFFFFFFFFFF
    return h


def show_bytes(b, full):
    return hexb(b) if full else "H%d:%016x" % (len(b), fnv64(b))


class Bad(Exception):
    """The stream is not well-formed; .kind says why (one of the classes C11 names, or 'other')."""

    def __init__(self, kind, msg=""):
        Exception.__init__(self, kind + (": " + msg if msg else ""))
        self.kind = kind


# ------------------------------------------------------------------------------------ tokens
# a token is an int (literal byte) or a pair (length, displacement), displacement counted back
# from the write position (1 = the byte just written)

def expand(tokens):
    out = bytearray()
    for t in tokens:
        if isinstance(t, int):
            out.append(t)
        else:
            ln, d = t
            if d < 1 or d > len(out):
                raise Bad("backref", "reference reaches before the start of the output")
            if d >= ln:
                start = len(out) - d
                out += out[start:start + ln]
            else:
                # overlapping copy: byte by byte it repeats the last d bytes with period d
                chunk = bytes(out[-d:])
                out += (chunk * (ln // d + 1))[:ln]
    return bytes(out)


def read_header(s, pos=0):
    """-> (version, announced size, position of the first flag byte).  Raises Bad."""
    if len(s) - pos == 0:
        raise Bad("empty")
    if len(s) - pos < 4:
        raise Bad("short-header")
    t = s[pos]
    if t not in (0x10, 0x11):
        raise Bad("unknown-type", hex(t))
    size = s[pos + 1] | s[pos + 2] << 8 | s[pos + 3] << 16
    pos += 4
    if t == 0x11 and size == 0:
        if len(s) - pos < 4:
            raise Bad("truncated", "extended size")
        size = s[pos] | s[pos + 1] << 8 | s[pos + 2] << 16 | s[pos + 3] << 24
        pos += 4
    return (10 if t == 0x10 else 11), size, pos


def walk(s, pos=0, keep_tokens=True, limit=None):
    """Read a bare LZ10/LZ11 stream token by token the way the format prescribes.
    -> (version, size, tokens, produced, end position).  Raises Bad('truncated'|'backref'|...)
    when the input ends before `size` bytes are produced or a reference reaches before the start.
    Does not judge overshoot or left-over bytes (strict_parse does)."""
    ver, size, pos = read_header(s, pos)
    if limit is not None and size > limit:
        raise Bad("other", "announced size above the generator's limit")
    toks = []
    produced = 0
    n = len(s)
    while produced < size:
        if pos >= n:
            raise Bad("truncated", "flag byte")
        flags = s[pos]
        pos += 1
        for bit in range(7, -1, -1):
            if produced >= size:
                break
            if not (flags >> bit) & 1:
                if pos >= n:
                    raise Bad("truncated", "literal")
                if keep_tokens:
                    toks.append(s[pos])
                pos += 1
                produced += 1
                continue
            if pos + 2 > n:
                raise Bad("truncated", "reference")
            b0, b1 = s[pos], s[pos + 1]
            if ver == 10:
                ln = (b0 >> 4) + 3
                d = ((b0 & 15) << 8 | b1) + 1
                pos += 2
            elif b0 >> 4 >= 2:
                ln = (b0 >> 4) + 1
                d = ((b0 & 15) << 8 | b1) + 1
                pos += 2
            elif b0 >> 4 == 0:
                if pos + 3 > n:
                    raise Bad("truncated", "reference")
                b2 = s[pos + 2]
                ln = ((b0 & 15) << 4 | b1 >> 4) + 0x11
                d = ((b1 & 15) << 8 | b2) + 1
                pos += 3
            else:
                if pos + 4 > n:
                    raise Bad("truncated", "reference")
                b2, b3 = s[pos + 2], s[pos + 3]
                ln = ((b0 & 15) << 12 | b1 << 4 | b2 >> 4) + 0x111
                d = ((b2 & 15) << 8 | b3) + 1
                pos += 4
            if d > produced:
                raise Bad("backref", "displacement %d with %d bytes produced" % (d, produced))
            if keep_tokens:
                toks.append((ln, d))
            produced += ln
    return ver, size, toks, produced, pos


_BIG_PARSES = {}


def strict_parse(s, want_ver=None):
    """Well-formedness in the sense of C08/C09: -> (version, size, tokens).  Raises Bad.
    (Results for streams above 100 KB are memoised: the 16 MiB boundary cases are looked at by oracle() and
    nontrivial() for each build profile, and a parse of a 2 MB LZ10 stream takes seconds.)"""
    if len(s) <= 100000:
        return _strict_parse(s, want_ver)
    key = (bytes(s), want_ver)
    if key not in _BIG_PARSES:
        if len(_BIG_PARSES) >= 6:
            _BIG_PARSES.clear()
        try:
            _BIG_PARSES[key] = (True, _strict_parse(s, want_ver))
        except Bad as e:
            _BIG_PARSES[key] = (False, e)
    ok, r = _BIG_PARSES[key]
    if ok:
        return r
    raise r


def _strict_parse(s, want_ver=None):
    ver, size, toks, produced, pos = walk(s)
    if want_ver is not None and ver != want_ver:
        raise Bad("unknown-type", "expected LZ%d" % want_ver)
    if produced != size:
        raise Bad("overshoot", "tokens produce %d bytes, header says %d" % (produced, size))
    if pos != len(s):
        raise Bad("leftover", "%d bytes left over" % (len(s) - pos))
    for t in toks:
        if not isinstance(t, int):
            ln, d = t
            if not (1 <= d <= WINDOW):
                raise Bad("other", "displacement %d" % d)
            if ver == 10 and not (3 <= ln <= 18):
                raise Bad("other", "length %d" % ln)
            if ver == 11 and not (3 <= ln <= 65808):
                raise Bad("other", "length %d" % ln)
    return ver, size, toks


def enc_ref(ver, ln, d):
    d -= 1
    if ver == 10:
        assert 3 <= ln <= 18
        return bytes([(ln - 3) << 4 | d >> 8, d & 255])
    if ln <= 16:
        assert ln >= 3
        return bytes([(ln - 1) << 4 | d >> 8, d & 255])
    if ln <= 272:
        l = ln - 17
        return bytes([l >> 4, (l & 15) << 4 | d >> 8, d & 255])
    l = ln - 273
    assert l <= 0xFFFF
    return bytes([0x10 | l >> 12, (l >> 4) & 255, (l & 15) << 4 | d >> 8, d & 255])


def encode_stream(ver, toks, size, ext=False):
    """Write a token sequence down (flag bytes MSB first, eight tokens per flag byte)."""
    out = bytearray([0x10 if ver == 10 else 0x11])
    if ver == 11 and (ext or size == 0 or size > 0xFFFFFF):
        out += bytes([0, 0, 0]) + size.to_bytes(4, "little")
    else:
        out += (size & 0xFFFFFF).to_bytes(3, "little")
    for i in range(0, len(toks), 8):
        grp = toks[i:i + 8]
        flag = 0
        body = bytearray()
        for j, t in enumerate(grp):
            if isinstance(t, int):
                body.append(t)
            else:
                flag |= 0x80 >> j
                body += enc_ref(ver, t[0], t[1])
        out.append(flag)
        out += body
    return bytes(out)


def tokens_total(toks):
    return sum(1 if isinstance(t, int) else t[0] for t in toks)


# ------------------------------------------------------------------------------------ C11: what the entry points must do
def classify_bare(s, limit=None):
    """What C11 demands of decompression of the bare stream s:
       ('ok', data)    s is well-formed: the result must be exactly data
       ('err', kind)   s is empty / shorter than a header / of unknown type / truncated / refers back
                       before the start of the output: the result must be an error
       ('free', kind)  anything else (overshooting last token, left-over bytes, ...): the property only
                       demands that nothing panics; the result is compared with the model"""
    try:
        ver, size, toks, produced, pos = walk(s, limit=limit)
    except Bad as e:
        if e.kind in ("empty", "short-header", "unknown-type", "truncated", "backref"):
            return ("err", e.kind)
        return ("free", e.kind)
    if produced != size:
        return ("free", "overshoot")
    if pos != len(s):
        return ("free", "leftover")
    for t in toks:
        if not isinstance(t, int) and not (1 <= t[1] <= WINDOW):
            return ("free", "range")
    return ("ok", expand(toks))


def classify_entry(entry, s, limit=None):
    """entry '10'/'f10': LZ10CompressionFormat::decompress; '13'/'f13': LZ13CompressionFormat::decompress
    (0x13 wrapper, bare stream, type-0 stored form)."""
    if entry in ("10", "f10"):
        return classify_bare(s, limit)
    if len(s) == 0:
        return ("err", "empty")
    if len(s) < 4:
        return ("err", "short-header")
    if s[0] == 0:
        return ("ok", bytes(s[4:]))
    if s[0] == 0x13:
        r = classify_bare(s[4:], limit)
        return r
    return classify_bare(s, limit)


# ------------------------------------------------------------------------------------ input generators (compressors)
def thue_morse(n, a=0x61, b=0x62):
    return bytes(a if bin(i).count("1") % 2 == 0 else b for i in range(n))


def fibonacci_word(n, a=0x61, b=0x62):
    x, y = bytes([a]), bytes([a, b])
    while len(y) < n:
        x, y = y, y + x
    return y[:n]


def rand_bytes(rng, n, alphabet=256):
    if alphabet == 256:
        return bytes(rng.getrandbits(8) for _ in range(n))
    return bytes(rng.randrange(alphabet) for _ in range(n))


def periodic(pattern, n):
    p = len(pattern)
    return bytes(pattern[i % p] for i in range(n))


def structured_input(rng, maxlen):
    """One structured input of at most maxlen bytes; -> (name, bytes)."""
    kind = rng.randrange(12)
    n = rng.randint(0, maxlen)
    if kind == 0:
        return "run", bytes([rng.getrandbits(8)]) * n
    if kind == 1:
        p = rng.choice([1, 2, 3, 4, 7, 8, 9, 15, 16, 17, 18, 19, 20, 33, 255, 256, 257])
        return "periodic-small", periodic(rand_bytes(rng, p), n)
    if kind == 2:
        p = rng.choice([4094, 4095, 4096, 4097, 4098, 2048, 1000])
        n = rng.randint(min(maxlen, p), maxlen)
        return "periodic-window", periodic(rand_bytes(rng, p), n)
    if kind == 3:
        return "thue-morse", thue_morse(n, rng.getrandbits(8), rng.getrandbits(8))
    if kind == 4:
        return "fibonacci", fibonacci_word(n, rng.getrandbits(8), rng.getrandbits(8))
    if kind == 5:
        return "incompressible", rand_bytes(rng, n)
    if kind == 6:
        return "small-alphabet", rand_bytes(rng, n, rng.choice([2, 3, 4]))
    if kind == 7:
        # a block repeated at a chosen distance around the window edge
        d = rng.choice([4093, 4094, 4095, 4096, 4097, 4098, 4099, 2, 3, 17])
        k = rng.choice([3, 4, 16, 17, 18, 19, 40, 272, 273, 300])
        d = max(d, 2)
        if d + k > maxlen:
            d = max(2, maxlen // 2)
            k = min(k, maxlen - d)
        blk = rand_bytes(rng, min(k, d))
        if k <= d:
            body = blk + rand_bytes(rng, d - k) + blk
        else:
            body = periodic(blk, d + k)
        return "window-edge", body + rand_bytes(rng, rng.randint(0, 5))
    if kind == 8:
        # runs of lengths around the LZ10 / LZ11 length-form boundaries, separated by a random byte
        out = bytearray()
        while len(out) < n:
            ln = rng.choice([1, 2, 3, 4, 15, 16, 17, 18, 19, 20, 35, 36, 37, 271, 272, 273, 274, 275, 289, 4095, 4096, 4097, 4098, 4100])
            out += bytes([rng.getrandbits(8)]) * (ln + 1)
            out += rand_bytes(rng, rng.randint(0, 2))
        return "length-forms", bytes(out[:maxlen])
    if kind == 9:
        # self-copying text: random prefix, then copies of earlier substrings
        out = bytearray(rand_bytes(rng, min(n, rng.randint(1, 40)), rng.choice([4, 256])))
        while len(out) < n:
            if rng.random() < 0.2:
                out += rand_bytes(rng, rng.randint(1, 4))
            else:
                st = rng.randrange(len(out))
                ln = rng.choice([2, 3, 4, 5, 17, 18, 19, 30, 100, 300])
                for i in range(ln):
                    out.append(out[st + i])
        return "self-copy", bytes(out[:n])
    if kind == 10:
        # exactly k tokens' worth of literals / ending inside a flag group
        k = rng.choice([7, 8, 9, 15, 16, 17, 63, 64, 65])
        return "flag-group-edge", bytes(range(k % 256)) if k <= 256 else rand_bytes(rng, k)
    # near-periodic: a periodic input with a few corrupted positions
    p = rng.choice([1, 2, 5, 18, 100, 4096])
    b = bytearray(periodic(rand_bytes(rng, p), n))
    for _ in range(rng.randint(0, 4)):
        if b:
            b[rng.randrange(len(b))] ^= 1 + rng.getrandbits(7)
    return "near-periodic", bytes(b)


LONG_MATCH = 65808          # 0xFFFF + 0x111: the longest match of the LZ11 long form


def long_compressible_inputs(rng, tier):
    """Runs and short-period inputs whose repeat continues beyond LONG_MATCH bytes, blank regions inside
    random data; -> list of (name, bytes, few_tokens).  The wrapper-length computation of LZ13 costs about
    n * 4096 / period steps on these, so the periods are not all tiny."""
    out = []
    for n in (65536, LONG_MATCH, LONG_MATCH + 1, LONG_MATCH + 2, LONG_MATCH + 3, LONG_MATCH + 4, 1 << 17, 140000):
        out.append(("run", bytes([rng.getrandbits(8)]) * n, True))
    for p, ns in ((3, (LONG_MATCH + 3, LONG_MATCH + 4, LONG_MATCH + 5, 140001)), (7, (LONG_MATCH + 8, 140000)),
                  (2, (LONG_MATCH + 3,)), (19, (70000, 2 * LONG_MATCH + 40)), (4096, (4096 + LONG_MATCH + 1, 150000))):
        pat = rand_bytes(rng, p)
        for n in ns:
            out.append(("period-%d" % p, periodic(pat, n), p <= 19))
    out.append(("blank-region", rand_bytes(rng, 500) + bytes(101000) + rand_bytes(rng, 500), False))
    out.append(("periodic-region", rand_bytes(rng, 300) + periodic(rand_bytes(rng, 19), 70000) + rand_bytes(rng, 300), False))
    if tier != "quick":
        for _ in range(20):
            p = rng.choice([1, 2, 3, 5, 18, 100, 1000, 4095, 4096])
            n = rng.choice([LONG_MATCH, LONG_MATCH + 1, LONG_MATCH + 2, 2 * LONG_MATCH + 5, 1 << 17, 1 << 18]) + rng.randint(0, p + 3)
            pre = rng.randint(0, 50)
            out.append(("period-%d" % p, rand_bytes(rng, pre) + periodic(rand_bytes(rng, p), n) + rand_bytes(rng, rng.randint(0, 50)),
                        p <= 18 and n <= (1 << 17) + 30))
    return out


# ---- siblings that collide under cheap fingerprints (seeded C08-8: a memo of recent results keyed by (length, FxHash)) ----
FX_K = 0x517cc1b727220a95
M64 = (1 << 64) - 1


def _rotl5(x):
    return ((x << 5) | (x >> 59)) & M64


def fxhash64(b):
    """rustc_hash::FxHasher::write on a 64-bit little-endian target (8-byte words, then 4, 2, 1 bytes)."""
    h = 0
    i = 0
    for width in (8, 4, 2, 1):
        while len(b) - i >= width and (width == 8 or True):
            h = ((_rotl5(h) ^ int.from_bytes(b[i:i + width], "little")) * FX_K) & M64
            i += width
            if width != 8:
                break
    return h


def fingerprint_siblings(rng, n):
    """-> (x, y): two different inputs of the same length n >= 16 with the same FxHash64, the same last bytes, and
    - by construction of y from x - everything equal except the first 16 bytes.  A cache of compression results keyed
    by length + such a fingerprint hands the first one's stream to the second."""
    x = bytearray(rand_bytes(rng, n, rng.choice([4, 256])))
    y = bytearray(x)
    w0 = int.from_bytes(x[0:8], "little")
    w1 = int.from_bytes(x[8:16], "little")
    w0b = w0 ^ (1 << rng.randrange(64)) ^ rng.getrandbits(64) & 0xFF00
    if w0b == w0:
        w0b ^= 1
    w1b = w1 ^ _rotl5((w0 * FX_K) & M64) ^ _rotl5((w0b * FX_K) & M64)
    y[0:8] = w0b.to_bytes(8, "little")
    y[8:16] = w1b.to_bytes(8, "little")
    assert fxhash64(bytes(x)) == fxhash64(bytes(y)) and x != y
    return bytes(x), bytes(y)


def size_boundary_inputs(kind, rng):
    b = rng.getrandbits(8)
    out = [((1 << 24) - 1, bytes([b])), ((1 << 24) - 2, bytes([b, b ^ 0x55, 7]))]
    if kind.startswith("lz13"):
        out += [(1 << 24, bytes([b])), ((1 << 24) + 1, bytes([b ^ 0xFF, b]))]
    return out


def stretch_inputs(data):
    """Escalation of a correspondence difference that is not (yet) an oracle failure: the same input made
    long - repeated as a whole, and with its longest run / its tail period continued - up to the lengths at
    which the LZ10 / LZ11 size and length fields change form.  -> list of bytes."""
    out = []
    if not data:
        return out
    targets = (4100, 8200, 33000, LONG_MATCH + 3, LONG_MATCH + 300, 101000, 140000, 270000)
    # longest run
    best_i, best_l, i = 0, 0, 0
    while i < len(data):
        j = i
        while j < len(data) and data[j] == data[i]:
            j += 1
        if j - i > best_l:
            best_i, best_l = i, j - i
        i = j
    for t in targets:
        if len(data) <= 4096:
            out.append(periodic(data, t))                                   # the whole input as the period
        out.append(data[:best_i] + bytes([data[best_i]]) * t + data[best_i + best_l:])   # its longest run made long
        tail = data[-min(len(data), 64):]
        from_p = len(tail) - smallest_period_of(tail)
        out.append(data + periodic(tail[from_p:], t))                        # its tail period continued
    return out


def smallest_period_of(x):
    n = len(x)
    for p in range(1, n):
        if all(x[i] == x[i + p] for i in range(n - p)):
            return p
    return max(n, 1)


def small_alphabet_exhaustive(letters, maxlen):
    for n in range(0, maxlen + 1):
        for t in itertools.product(letters, repeat=n):
            yield bytes(t)


# ------------------------------------------------------------------------------------ token-stream generators (decoder)
def random_tokens(rng, ver, ntok, maxout):
    """A valid token sequence (literals and references of every form, displacement 1, window edge,
    overlapping copies); -> tokens."""
    toks = []
    produced = 0
    for _ in range(ntok):
        if produced >= maxout:
            break
        if produced == 0 or rng.random() < 0.35:
            toks.append(rng.choice([0, 1, 0x61, 0xFF, rng.getrandbits(8)]))
            produced += 1
            continue
        if ver == 10:
            ln = rng.choice([3, 4, 17, 18, rng.randint(3, 18)])
        else:
            ln = rng.choice([3, 4, 15, 16, 17, 18, 271, 272, 273, 274, 1000, 4096, 4097, rng.randint(3, 16),
                             rng.randint(17, 272), rng.randint(273, 5000), 65807, 65808])
        if produced + ln > maxout:
            ln = 3
        dmax = min(produced, WINDOW)
        d = rng.choice([1, 1, 2, dmax, dmax, max(1, dmax - 1), rng.randint(1, dmax)])
        toks.append((ln, d))
        produced += ln
    return toks


# ------------------------------------------------------------------------------------ shared check machinery
import common  # noqa: E402
from common import PropertyCheck, Case, NPROC  # noqa: E402
NPROC_SHARDS = NPROC


def case_data_token(line):
    """the input of a compress case: the last token (lz10p / lz13p carry a prelude before it)"""
    return line.split(" ")[-1]


def parse_compress_out(out):
    """impl/model line of lz10c / lz13c -> (category, compressed bytes or None, round-trip text or None)."""
    if out.startswith("ok "):
        parts = out.split(" ")
        return "ok", parse_hex(parts[1]), parts[2] if len(parts) > 2 else None
    return out.split(" ")[0], None, None


def compress_inputs(rng, tier, kind, hdr_flag_small):
    """The input family of C08/C09 (DESIGN section 4): bounded-exhaustive small alphabets, structured
    random inputs <= 6 KiB compared with the model, larger ones implementation + oracle only.
    kind = 'lz10c' | 'lz13c'; hdr_flag_small(n) gives the model flag for an n-byte model-compared input."""
    cases = []

    def add(data, stream, model=True):
        flag = hdr_flag_small(len(data)) if model else "0"
        cases.append(Case("%s %s %s" % (kind, flag, hexb(data)), stream))

    l2, l3 = (12, 7) if tier == "quick" else (16, 10)
    for b in small_alphabet_exhaustive((0x61, 0x62), l2):
        add(b, "exhaustive-2-letters")
    for b in small_alphabet_exhaustive((0x00, 0x7f, 0xff), l3):
        add(b, "exhaustive-3-letters")
    # every length 0..299 (thorough 0..699) of a run; every third length of a period-2 and of a period-19 pattern (token/flag-group and length-form boundaries)
    top = 300 if tier == "quick" else 700
    for n in range(0, top):
        add(b"\x55" * n, "all-lengths-run")
        if n % 3 == 0:
            add(periodic(b"ab", n), "all-lengths-period-2")
            add(periodic(bytes(range(19)), n), "all-lengths-period-19")
    for n in (4094, 4095, 4096, 4097, 4098, 4099, 4100, 4115, 4116, 5000):
        add(b"\x00" * n, "long-run")
        add(periodic(bytes(rng.getrandbits(8) for _ in range(7)), n), "long-period-7")
    # long, highly compressible inputs (a handful of tokens each, so cheap on both sides): repeats that go on for more
    # than 65808 bytes = the longest match an LZ11 token can describe, 2^16, 2^17, ~140000 (seeded change C09-1:
    # a look-ahead of 0x10111 wraps the 16-bit length field for a match of exactly 65809 bytes)
    # (LZ_NO_LONG=1 leaves these out: only used to exercise the escalation path of the runner, see notes/lz.md)
    for name, data, few_tokens in ([] if os.environ.get("LZ_NO_LONG") else long_compressible_inputs(rng, tier)):
        # the list model costs about (number of tokens) * (input length) steps: LZ13 with few tokens is compared with
        # the model (flag 3: compressed bytes only, wrapper length and the model's own decoder left out), the rest is
        # implementation + oracle only
        if kind == "lz13c" and few_tokens:
            cases.append(Case("%s 3 %s" % (kind, hexb(data)), "long-compressible-" + name))
        else:
            add(data, "long-compressible-" + name, model=False)
    # the 16 MiB boundary of the property ("every input shorter than 16 MiB"): 2^24-2 and 2^24-1 bytes must compress
    # with a 24-bit size of 0xFFFFFE / 0xFFFFFF; LZ13 also 2^24 and 2^24+1 (extended size form, theorem
    # C09_round_trip_below_4GiB).  Highly compressible data (run / short period), compact P<len>:<pattern> token,
    # implementation + oracle only (seeded change C08-4: a size guard `>= 0xFFFFFF`)
    for n, pat in size_boundary_inputs(kind, rng):
        cases.append(Case("%s 0 %s" % (kind, ptok(n, pat)), "size-boundary-16MiB"))
    # just below 16 MiB with a compressible body and a LITERAL tail (seeded C09-5: the LZ13 wrapper value = max_lead +
    # simulated stream size exceeds 0xFFFFFF there although the input is in scope): zeros + 200 distinct bytes (total
    # 0xFFFFF0), zeros + 2000 random bytes ending at 2^24-1
    tail200 = bytes(range(1, 201))
    cases.append(Case("%s 0 %s+%s" % (kind, ptok(0xFFFFF0 - 200, b"\0"), hexb(tail200)), "size-boundary-16MiB-literal-tail"))
    cases.append(Case("%s 0 %s+%s" % (kind, ptok((1 << 24) - 1 - 2000, bytes([rng.getrandbits(8)])), hexb(rand_bytes(rng, 2000))),
                      "size-boundary-16MiB-literal-tail"))
    # an incompressible prefix of more than 64 KiB followed by a run longer than two maximal matches (seeded C09-6: the
    # wrapper value computed by calculate_lz13_header - unbounded matches - is then smaller than the stream the compressor
    # writes with matches capped at 0x1000; a debug_assert on that "invariant" panics in debug builds only)
    for npre, nrun in (((68000, 8300), (75000, 13000)) if tier == "quick" else ((68000, 8300), (72000, 9000), (80000, 13000), (66000, 20000))):
        cases.append(Case("%s 0 %s+%s" % (kind, hexb(rand_bytes(rng, npre)), ptok(nrun, bytes([rng.getrandbits(8)]))), "noise-then-long-run"))
    # inputs that are THEMSELVES complete compressed streams (literal-only LZ10 / wrapped LZ11 streams of small payloads): the
    # compressor must compress them like any other bytes (seeded change C08-5 passed "already compressed" input through)
    for n in (1, 5, 8, 9, 16, 40):
        inner = rand_bytes(rng, n)
        body = b""
        for i in range(0, n, 8):
            body += b"\x00" + inner[i:i + 8]
        s10 = bytes([0x10, n & 0xFF, n >> 8, 0]) + body
        s11 = bytes([0x11, n & 0xFF, n >> 8, 0]) + body
        s13 = bytes([0x13, n & 0xFF, n >> 8, 0]) + s11
        for stream in (s10, s13, s11):
            cases.append(Case("%s %s %s" % (kind, hdr_flag_small(len(stream)), hexb(stream)), "input-is-a-compressed-stream"))
    # GENUINE compressed files as input (seeded C09-10: compress returned its input unchanged when the input was a complete
    # LZ13 file whose wrapper value agrees with calculate_lz13_header of the decoded data - hand-made wrappers do not):
    # x = the extracted model's compress13 / compress10 of y (equal to the library's output byte for byte by the
    # correspondence; computed here with the model driver, wrapper length included), for tiny, small and medium y
    ys = [b"\x00", b"a", b"ab", bytes(20), rand_bytes(rng, 20), periodic(b"abc", 100), rand_bytes(rng, 100, 3),
          structured_input(rng, 300)[1] or b"x", rand_bytes(rng, 1000, 4), periodic(rand_bytes(rng, 7), 1100)]
    lines = ["lz13c 2 %s" % hexb(y) for y in ys] + ["lz10c 1 %s" % hexb(y) for y in ys]
    outs = common.run_tool(common.driver_bin(), lines, common.WORK, "lzgen", shards=1)
    for o in outs:
        if o.startswith("ok B"):
            x = parse_hex(o.split(" ")[1])
            cases.append(Case("%s %s %s" % (kind, hdr_flag_small(len(x)), hexb(x)), "input-is-a-genuine-compressed-file"))
            cases.append(Case("%s %s %s" % (kind[:-1] + "f", hdr_flag_small(len(x)), hexb(x)), "input-is-a-genuine-compressed-file"))
    # more than 65536 consecutive LITERAL tokens: 3-byte records (hi, lo, 0xFF) of a counter - no 3-byte substring repeats, so
    # the compressor never finds a match (seeded change C08-6 counted consecutive literals in a u16: overflow panic in debug builds)
    for nrec in ((22000, 23500) if tier == "quick" else (22000, 23500, 30000, 44000)):
        data = b"".join(bytes([i >> 8 & 0xFF, i & 0xFF, 0xFF]) for i in range(nrec))
        cases.append(Case("%s 0 %s" % (kind, hexb(data)), "no-match-longer-than-65536"))
    # F21: LZ10 compress must REJECT 2^24 bytes and more (Err(InputTooLarge)); compared with the model too (flag 1: the
    # model's guard answers before anything is computed)
    if kind == "lz10c":
        for n, pat in ((1 << 24, bytes([rng.getrandbits(8)])), ((1 << 24) + 5, b"\x41\x42")):
            cases.append(Case("lz10c 1 %s" % ptok(n, pat), "size-limit-F21"))
            cases.append(Case("lz10f 1 %s" % ptok(n, pat), "size-limit-F21"))
    # state across calls: pairs of different same-length inputs that collide under the crate's own cheap hasher (FxHash64),
    # compressed one right after the other in the same process (x, y, x): a cache of recent results keyed by length and such
    # a fingerprint returns the wrong stream for the second one (seeded C08-8)
    for _ in range(6 if tier == "quick" else 40):
        x, y = fingerprint_siblings(rng, rng.choice([16, 17, 24, 40, 100, 300]))
        # as ONE replayable case each way: kind lz10p / lz13p = compress the prelude first, then the input ...
        pk = kind[:-1] + "p"
        cases.append(Case("%s %s %s %s" % (pk, hdr_flag_small(len(y)), hexb(x), hexb(y)), "fingerprint-collision-siblings"))
        cases.append(Case("%s %s %s %s" % (pk, hdr_flag_small(len(x)), hexb(y), hexb(x)), "fingerprint-collision-siblings"))
        # ... and as consecutive ordinary cases of the same process
        for d in (x, y, x):
            add(d, "fingerprint-collision-siblings")
    # the same entry points through the enum CompressionFormat (kind lz10f / lz13f): a slice of the family
    fkind = kind[:-1] + "f"
    for b in small_alphabet_exhaustive((0x61, 0x62), 7 if tier == "quick" else 10):
        cases.append(Case("%s %s %s" % (fkind, hdr_flag_small(len(b)), hexb(b)), "format-enum-exhaustive-2-letters"))
    for _ in range(40 if tier == "quick" else 300):
        name, data = structured_input(rng, rng.choice([40, 300, 1500, 6000]))
        cases.append(Case("%s %s %s" % (fkind, hdr_flag_small(len(data)), hexb(data)), "format-enum-" + name))
    nmodel, nbig, bigmax = (220, 40, 65536) if tier == "quick" else (1500, 200, 1 << 20)
    for _ in range(nmodel):
        name, data = structured_input(rng, rng.choice([40, 300, 1500, 6000]))
        add(data, "structured-" + name)
    for i in range(nbig):
        mx = bigmax if i % 10 == 0 else min(bigmax, 65536)
        name, data = structured_input(rng, rng.randint(6001, mx))
        add(data, "large-" + name, model=False)
    return spread_heavy(cases)


def spread_heavy(cases, weight=lambda c: len(c.line)):
    """The runner shards the case list into contiguous ranges; distribute the expensive (long) cases evenly."""
    heavy = [c for c in cases if weight(c) > 1500]
    light = [c for c in cases if weight(c) <= 1500]
    if not heavy:
        return cases
    heavy.sort(key=weight, reverse=True)
    k = NPROC_SHARDS
    buckets = [[] for _ in range(k)]
    for i, c in enumerate(heavy):          # longest first, round robin
        buckets[i % k].append(c)
    out = []
    per = ceil_div(len(light), k)
    for i in range(k):
        out += light[i * per:(i + 1) * per] + buckets[i]
    return out


def shrink_ptok(tok):
    """Shrink candidates of a compact P<len>:<pattern> input: shorter lengths, same pattern (tokens, not bytes);
    of a concatenation: one segment dropped, or one P segment shortened."""
    if "+" in tok:
        segs = tok.split("+")
        for i in range(len(segs)):
            rest = segs[:i] + segs[i + 1:]
            yield "+".join(rest) if len(rest) > 1 else rest[0]
        for i, sg in enumerate(segs):
            if sg[0] == "P":
                for t in shrink_ptok(sg):
                    yield "+".join(segs[:i] + [t] + segs[i + 1:])
        return
    if tok[0] != "P":
        return
    n, pat = tok[1:].split(":", 1)
    n = int(n)
    for k in (n // 2, n - 65536, n - 4096, n - 18, n - 2, n - 1):
        if 0 <= k < n:
            yield "P%d:%s" % (k, pat)


def shrink_bytes(data):
    """Candidates for delta debugging over a byte string: remove a half, a quarter, an eighth, ...; for long
    inputs only the coarse cuts (each evaluation runs the extracted model), for short ones down to single
    bytes, then replace bytes by a common letter."""
    n = len(data)
    k = n // 2
    levels = 0
    while k >= 1 and (n <= 256 or levels < 3):
        for i in range(0, n, k):
            yield data[:i] + data[i + k:]
        k //= 2
        levels += 1
    if n <= 64:
        for i in range(n):
            if data[i] != 0x61:
                yield data[:i] + b"a" + data[i + 1:]


def ceil_div(a, b):
    return -(-a // b)


class LZCheckMixin:
    """agree(): cases flagged 0 are not run through the model; lz13c cases flagged 1 are compared with the
    three wrapper length bytes masked; a difference in those bytes alone (flag 2) is counted, not a violation;
    flag 3 = as 1 without the model's own round trip (long inputs)."""
    wrapper_diffs = 0
    shrink_budget = 60            # every evaluation runs the extracted list model: keep the failure path short
    kdiff_cases = 3
    kdiff_neighbours = 8
    kdiff_smallest_first = True

    def agree(self, case, impl_out, model_out, profile):
        parts = case.line.split(" ")
        kind = parts[0]
        flag = parts[2] if kind == "lzd" else parts[1]
        if flag == "0" or (kind == "lzd" and flag == "2"):
            return model_out == "SKIP"
        if impl_out == model_out:
            return True
        if flag == "3":
            # the model's own decoder was not run (rt:skipped): compare the compressed bytes; the implementation's
            # round trip is judged by the oracle
            impl_out = " ".join(impl_out.split(" ")[:2])
            model_out = " ".join(model_out.split(" ")[:2])
            if impl_out == model_out:
                return True
        if kind in ("lz13c", "lz13f", "lz13p") and impl_out.startswith("ok B13") and model_out.startswith("ok B13"):
            mask = lambda o: o[:6] + "......" + o[12:]
            if mask(impl_out) == mask(model_out):
                if flag == "2":
                    type(self).wrapper_diffs += 1
                return True
        return False

    def escalate_candidates(self, case):
        """Called by the runner when the implementation differs from the model on `case` but the oracle accepts the
        implementation's output: the same input stretched (implementation + oracle only, flag 0)."""
        parts = case.line.split(" ")
        if parts[0] not in ("lz10c", "lz13c", "lz10f", "lz13f"):
            return
        for d in stretch_inputs(parse_hex(parts[2])):
            yield Case("%s 0 %s" % (parts[0], hexb(d)), case.stream + "+stretched")

    def extra_checks(self, ctx):
        return [], {"wrapper_length_byte_differences_not_constrained_by_the_property": type(self).wrapper_diffs}
