# C19: pixel decoding -- generator and oracle.
# Case lines (see harness/src/k_c19.rs): c19 color|bigcolor <fmt> <w> <h> B<payload> ; c19 etc|bigetc <alpha> <w> <h> B<payload> ;
# c19 rgb5a3 B<data> ; c19 idx B<data> B<rgba palette> ; c19 pal|bigpal <w> <h> B<image> B<palette> ;
# c19 cfdec <cf> B<data> ; c19 cfidx <cf> B<data> B<rgba palette>   (cf: 0 RGBA8, 1 RGB5A3, 2 CI8, other Unrecognized; error variant printed).
# "big*" cases are evaluated by the implementation and the oracle only (the list-based extracted model answers "skip").
import struct
from common import PropertyCheck, Case
import texref

POW2 = [8, 16, 32, 64, 128]
COLOR_FORMATS = [0, 2, 3, 4, 5, 7, 8]
MODEL_MAX_PIXELS = 8192          # textures above this go to the oracle-only streams (the list-based extracted model is quadratic:
                                 # 128x64 takes 1.5 s, 128x128 10 s); the thorough tier also runs one round of 128x128 through the model
PAL_MODEL_MAX_PIXELS = 4096      # every palette image of the property's domain (1..64 x 1..64) is model-compared


def f32(x):
    return struct.unpack("<f", struct.pack("<f", x))[0]


def f32_size(bpp, w, h):
    """(bpp * w as f32 * h as f32) as usize, computed with IEEE binary32 roundings (independent of the Coq model round24)"""
    return int(f32(f32(bpp * f32(float(w))) * f32(float(h))))


def hx(b):
    return "B" + bytes(b).hex()


def unhx(tok):
    return bytes.fromhex(tok[1:])


def is_pow2_ge8(n):
    return n >= 8 and (n & (n - 1)) == 0


def rand_bytes(rng, n):
    return bytes(rng.getrandbits(8) for _ in range(n)) if n < 64 else rng.getrandbits(8 * n).to_bytes(n, "little")


def tiled_payload(fmt, w, h, values):
    """payload whose element i is values[i] (so that pixel (X,Y) sees values[tiled_index])"""
    bpe = texref.FORMATS[fmt][1]
    return b"".join(int(v).to_bytes(bpe, "little") for v in values)


def etc_word(diff, flip, t1, t2, rgb1, rgb2, msb, lsb):
    """rgb1/rgb2: individual: 4-bit pairs; differential: rgb1 5-bit bases, rgb2 3-bit two's complement fields"""
    w = (diff << 33) | (flip << 32) | (t1 << 37) | (t2 << 34) | ((msb & 0xFFFF) << 16) | (lsb & 0xFFFF)
    for (a, b, top) in zip(rgb1, rgb2, (63, 55, 47)):
        if diff:
            w |= (a & 31) << (top - 4)
            w |= (b & 7) << (top - 7)
        else:
            w |= (a & 15) << (top - 3)
            w |= (b & 15) << (top - 7)
    return w


def etc_image(alpha, blocks, rng):
    """smallest square power-of-two image holding the blocks (list of (word, alpha_word)); padded with random blocks"""
    side = 8
    while (side // 4) * (side // 4) < len(blocks):
        side *= 2
    n = (side // 4) ** 2
    blocks = list(blocks) + [(rng.getrandbits(64) & ~(1 << 33), rng.getrandbits(64)) for _ in range(n - len(blocks))]
    out = bytearray()
    for (word, aw) in blocks:
        if alpha:
            out += struct.pack("<Q", aw)
        out += struct.pack("<Q", word)
    return side, bytes(out)


class C19(PropertyCheck):
    pid = "C19"
    source_tables = ["Tile", "Etc1", "Pixel"]   # tables / constants regenerated from /repo's source (gen/srctables.py)
    release_too = True
    rule = ("streams: every 16-bit value of RGBA5551/RGB565/RGBA4/LA8 and every 8-bit value of L8/A8 (model-compared in 32x32 textures, plus one "
            "256x256 texture per format for the oracle), RGBA8 byte sweeps and boundary values; periodic payloads (byte period 1, 2, 4, 8, 16 with differing pixels inside the period, whole textures and alternating tiles) for every raw format; all 25 power-of-two sizes 8..128 x 9 formats with random payloads; ETC1 "
            "blocks: individual/differential x 64 table pairs x flip x constant selector fills + per-position selector values + random selectors, "
            "every in-range (base, delta) pair, all 4-bit colour pairs, every alpha nibble, boundary alpha words (zero, ones, one nibble set/cleared per position) x varied and boundary colour words; all 65536 RGB5A3 values; CI8 palette images of sizes 1..64 "
            "(sampled in the quick tier, all 4096 in the thorough tier; every one model-compared); small palettes (1, 2, 16, 255 colours) with visible indices in range and cropped-away padding bytes 0xFF / random / = palette size, and the converse (one visible index outside: error); decode_indexed directly; ColorFormat::decode / "
            "decode_indexed for every ColorFormat with the error variant; ETC1/ETC1A4 also through the CTPK path; every modifier-table entry with "
            "both signs on unclamped bases; edge cases (odd sizes, wrong payload length, first index outside the palette, formats outside the "
            "list) for the model correspondence only; textures above 4096 (quick) / 8192-16384 (thorough) pixels are oracle-only.  Both build profiles.  Non-trivial = the case is inside the property's domain and the implementation returned "
            "pixels; distinct = distinct case line.")
    assumptions = [
        "A-float: f64 ceil/log2 in etc1::decode and the f32 size product in ctpk::read are exact on the domain (modelled by integer functions; "
        "confirmed by the correspondence over all 25 sizes, odd sizes, and the block consumption of d x 1 / 1 x d images for d = 1..40 (300 thorough) "
        "and 2^k-1, 2^k, 2^k+1 up to 2049; the f32 size product is modelled by round24 / payload_size_f32 and compared with ctpk::read at and beyond the "
        "exactness boundary w*h = 2^24 (stream ctpk-f32-size, independent IEEE emulation in the oracle))",
        "A-alloc: allocations below 2^32 pixels succeed",
        "the 3DS formats are reached through a single-texture CTPK built by the harness, CI8 through a single-image TPL built by the harness",
        "every input slice is handed to the library at an even and at an odd start address; the two results must coincide (marker ADDRESS-DEPENDENT)",
    ]

    # ------------------------------------------------------------------ generation
    def generate(self, rng, tier):
        thorough = tier == "thorough"
        cases = []

        def color(fmt, w, h, payload, stream, limit=MODEL_MAX_PIXELS):
            kind = "color" if w * h <= limit else "bigcolor"
            cases.append(Case("c19 %s %d %d %d %s" % (kind, fmt, w, h, hx(payload)), stream))

        def etc(alpha, w, h, payload, stream, limit=MODEL_MAX_PIXELS, ctpk=None):
            """ETC1 / ETC1A4 through mila::decode; with ctpk (default: one case in three) also through a single-texture CTPK"""
            kind = "etc" if w * h <= limit else "bigetc"
            cases.append(Case("c19 %s %d %d %d %s" % (kind, 1 if alpha else 0, w, h, hx(payload)), stream))
            if ctpk is None:
                ctpk = rng.randrange(3) == 0
            if ctpk:
                color(13 if alpha else 12, w, h, payload, stream + "-ctpk", limit)

        # 1. every value of the 16-bit and 8-bit formats
        for fmt in (2, 3, 4, 5):
            for chunk in range(64):
                vals = list(range(chunk * 1024, (chunk + 1) * 1024))
                rng.shuffle(vals)
                color(fmt, 32, 32, tiled_payload(fmt, 32, 32, vals), "all-16bit-values")
            color(fmt, 256, 256, tiled_payload(fmt, 256, 256, range(65536)), "all-16bit-values-256x256")
        for fmt in (7, 8):
            vals = list(range(256))
            rng.shuffle(vals)
            color(fmt, 16, 16, tiled_payload(fmt, 16, 16, vals), "all-8bit-values")
        for byte in range(4):
            vals = [((v << (8 * byte)) | (rng.getrandbits(32) & ~(0xFF << (8 * byte)))) & 0xFFFFFFFF for v in range(256)]
            color(0, 16, 16, tiled_payload(0, 16, 16, vals), "rgba8-byte-sweep")

        # RGBA8 boundary values: all zero, all ones, each byte alone at 0x00 / 0xFF / 0x01 / 0x80 (special-value fast paths)
        vals = [0, 0xFFFFFFFF]
        for byte in range(4):
            for v in (0xFF, 0x01, 0x80, 0x7F):
                vals += [v << (8 * byte), 0xFFFFFFFF ^ (v << (8 * byte))]
        vals += [rng.getrandbits(32) for _ in range(64 - len(vals))]
        rng.shuffle(vals)
        color(0, 8, 8, tiled_payload(0, 8, 8, vals), "rgba8-byte-sweep")

        # periodic payloads: the source bytes repeat with byte period 1, 2, 4, 8 or 16 while the pixels inside a period differ
        # (1-pixel stripes, checkerboards, two-colour dithers) - whole textures and textures with only some periodic tiles
        for fmt in COLOR_FORMATS:
            bpe = texref.FORMATS[fmt][1]
            for (w, h) in ((8, 8), (16, 8), (32, 16)):
                n = texref.payload_size(fmt, w, h)
                for period in (1, 2, 4, 8, 16):
                    while True:
                        unit = rand_bytes(rng, period)
                        els = [unit[i:i + bpe] for i in range(0, period, bpe)] if period >= 2 * bpe else None
                        if els is None or len(set(els)) > 1:
                            break
                    payload = (unit * (n // period + 1))[:n]
                    color(fmt, w, h, payload, "periodic-payloads")
                    if w * h > 64:
                        # mixed: random texture in which every other tile is periodic
                        tile = 64 * bpe
                        mixed = bytearray(rand_bytes(rng, n))
                        for t in range(0, n // tile, 2):
                            mixed[t * tile:(t + 1) * tile] = (unit * (tile // period + 1))[:tile]
                        color(fmt, w, h, bytes(mixed), "periodic-payloads")

        # 2. all 25 sizes x all listed formats, random payloads
        reps = 1 if not thorough else 8
        for rep_no in range(reps):
            limit = (16384 if rep_no == 0 else MODEL_MAX_PIXELS) if thorough else 4096
            for w in POW2:
                for h in POW2:
                    for fmt in COLOR_FORMATS:
                        color(fmt, w, h, rand_bytes(rng, texref.payload_size(fmt, w, h)), "sizes-random", limit)
                    for alpha in (False, True):
                        n = texref.payload_size(13 if alpha else 12, w, h)
                        etc(alpha, w, h, rand_bytes(rng, n), "sizes-random-etc", limit, ctpk=True)
        # extra small random textures for the model correspondence
        for _ in range(60 if not thorough else 1500):
            w, h = rng.choice([8, 16, 32]), rng.choice([8, 16, 32])
            fmt = rng.choice(COLOR_FORMATS)
            color(fmt, w, h, rand_bytes(rng, texref.payload_size(fmt, w, h)), "sizes-random")
            alpha = rng.random() < 0.5
            etc(alpha, w, h, rand_bytes(rng, texref.payload_size(13 if alpha else 12, w, h)), "sizes-random-etc")

        # 3. ETC1 field products
        blocks = []
        for diff in (0, 1):
            for t1 in range(8):
                for t2 in range(8):
                    for flip in (0, 1):
                        fills = [(0, 0), (0, 0xFFFF), (0xFFFF, 0), (0xFFFF, 0xFFFF), (rng.getrandbits(16), rng.getrandbits(16))]
                        for (msb, lsb) in fills:
                            if diff:
                                rgb1 = [rng.randrange(4, 28) for _ in range(3)]
                                rgb2 = [rng.randrange(8) for _ in range(3)]
                            else:
                                rgb1 = [rng.randrange(16) for _ in range(3)]
                                rgb2 = [rng.randrange(16) for _ in range(3)]
                            blocks.append((etc_word(diff, flip, t1, t2, rgb1, rgb2, msb, lsb), rng.getrandbits(64)))
        # every modifier-table entry with both signs where nothing clamps (base 0x44 + m <= 255, base 0xBB - m >= 0):
        # each table as table 1 and as table 2, both orientations, all four constant selector fills
        for t in range(8):
            for flip in (0, 1):
                for (msb, lsb) in ((0, 0), (0, 0xFFFF), (0xFFFF, 0), (0xFFFF, 0xFFFF)):
                    base = 0xB if msb else 0x4
                    blocks.append((etc_word(0, flip, t, (t + 3) % 8, [base] * 3, [base] * 3, msb, lsb), rng.getrandbits(64)))
        # every pixel position x every index value
        for pos in range(16):
            for idx in range(4):
                msb = ((idx >> 1) & 1) << pos | (rng.getrandbits(16) & ~(1 << pos))
                lsb = (idx & 1) << pos | (rng.getrandbits(16) & ~(1 << pos))
                for diff in (0, 1):
                    rgb1 = [rng.randrange(4, 12) for _ in range(3)]
                    rgb2 = [rng.randrange(4) for _ in range(3)]
                    blocks.append((etc_word(diff, rng.getrandbits(1), rng.randrange(8), rng.randrange(8), rgb1, rgb2, msb, lsb),
                                   rng.getrandbits(64)))
        # every in-range (base, delta) pair, rotated through the three channels
        pairs = [(b, d) for b in range(32) for d in range(8) if 0 <= b + (d - 8 if d >= 4 else d) <= 31]
        for k, (b, d) in enumerate(pairs):
            others = [pairs[(k * 7 + 3) % len(pairs)], pairs[(k * 13 + 5) % len(pairs)]]
            for rot in range(3):
                trip = [others[0], others[1]]
                trip.insert(rot, (b, d))
                blocks.append((etc_word(1, rng.getrandbits(1), rng.randrange(8), rng.randrange(8), [t[0] for t in trip], [t[1] for t in trip],
                                        rng.getrandbits(16), rng.getrandbits(16)), rng.getrandbits(64)))
        # every pair of 4-bit colours (individual mode)
        for a in range(16):
            for b in range(16):
                blocks.append((etc_word(0, rng.getrandbits(1), rng.randrange(8), rng.randrange(8), [a, b, (a + b) % 16], [b, a, (a * 3 + b) % 16],
                                        rng.getrandbits(16), rng.getrandbits(16)), rng.getrandbits(64)))
        # every alpha nibble at every position
        for v in range(16):
            aw = 0
            for k in range(16):
                aw |= ((v + k) % 16) << (4 * k)
            blocks.append((rng.getrandbits(64) & ~(1 << 33), aw))
        # ETC1A4: boundary alpha words (all zero, all ones, one nibble set / cleared at every position, single bits) crossed with
        # varied colour words -- the colour of a texel must not depend on the alpha word (a transparent block keeps its r, g, b)
        M64 = (1 << 64) - 1
        alpha_words = [0, M64, 1, 0xF, 0xF << 60, 1 << 63, 0x00000000FFFFFFFF, 0xFFFFFFFF00000000, 0x0F0F0F0F0F0F0F0F, 0xF0F0F0F0F0F0F0F0]
        alpha_words += [0xF << (4 * k) for k in range(16)] + [M64 ^ (0xF << (4 * k)) for k in range(16)]
        colour_words = [etc_word(0, 0, 2, 5, [15, 8, 3], [1, 12, 7], 0x0F0F, 0x3355),
                        etc_word(0, 1, 7, 0, [4, 4, 4], [11, 11, 11], 0xFFFF, 0xFFFF),
                        etc_word(1, 0, 3, 6, [20, 9, 30], [7, 3, 4], 0x00FF, 0xF00F),
                        etc_word(1, 1, 0, 7, [1, 31, 16], [1, 7, 0], 0x1234, 0xFEDC)]
        ablocks = []
        for aw in alpha_words:
            for cw in colour_words + [etc_word(rng.getrandbits(1), rng.getrandbits(1), rng.randrange(8), rng.randrange(8),
                                               [rng.randrange(4, 12) for _ in range(3)], [rng.randrange(4) for _ in range(3)],
                                               rng.getrandbits(16), rng.getrandbits(16))]:
                ablocks.append((cw, aw))
        # boundary colour words (each 64-bit field group empty / full) under boundary alpha words
        for cw in (0, M64, 1 << 33, 1 << 32, 0xFFFF, 0xFFFF0000, 0xFFFFFFFF, 0xFFFFFFFF00000000, 0xFF00000000000000, 0x000000FC00000000):
            if texref.etc1_block(cw)[0][0] is None or texref.etc1_block(cw)[3][3] is None:
                continue                                    # differential sums outside 0..31: not defined by the rules
            for aw in (0, M64, 1, 0xF << 60):
                ablocks.append((cw, aw))
        for i in range(0, len(ablocks), 16):
            side, payload = etc_image(True, ablocks[i:i + 16], rng)
            etc(True, side, side, payload, "etc1a4-alpha-words", ctpk=(i // 16) % 2 == 0)
            side, payload = etc_image(False, ablocks[i:i + 16], rng)
            etc(False, side, side, payload, "etc1a4-alpha-words", ctpk=False)
        for i in range(0, len(blocks), 16):
            for alpha in (False, True):
                side, payload = etc_image(alpha, blocks[i:i + 16], rng)
                etc(alpha, side, side, payload, "etc1-fields")
        # out-of-range differential blocks: no claim about the colours, but no panic in either profile
        oor = [(b, d) for b in range(32) for d in range(8) if not (0 <= b + (d - 8 if d >= 4 else d) <= 31)]
        oblocks = [(etc_word(1, 0, 3, 4, [b, 10, 10], [d, 0, 0], 0x1234, 0x5678), 0) for (b, d) in oor]
        for i in range(0, len(oblocks), 16):
            side, payload = etc_image(False, oblocks[i:i + 16], rng)
            etc(False, side, side, payload, "etc1-out-of-range-delta")

        # 3b. A-float: the tile count 1 << (ceil(d / 8.0).log2() as usize) of etc1::decode, observed through the number of blocks
        # consumed: d x 1 and 1 x d images with exactly tiles(w)*tiles(h) blocks (ok) and one block fewer (slice panic); model-compared
        def tiles(d):
            return 1 if d <= 8 else 1 << (((d + 7) // 8).bit_length() - 1)
        ds = set(range(1, 41 if not thorough else 301))
        for k in range(6, 12):
            ds.update([(1 << k) - 1, 1 << k, (1 << k) + 1])
        for d in sorted(ds):
            for (w, h) in ((d, 1), (1, d)):
                n = tiles(w) * tiles(h) * 4 * 8
                etc(False, w, h, rand_bytes(rng, n), "etc-tile-count", ctpk=False)
                etc(False, w, h, rand_bytes(rng, n - 8), "etc-tile-count", ctpk=False)

        # 3c. A-float, the binary32 size product of ctpk::read at and beyond the exactness boundary w*h = 2^24: L4 (format 10, reads
        # nothing) with a zero payload of exactly the rounded size (ok) and one byte fewer (error); model = round24 / payload_size_f32
        probes = [(4096, 4096), (4097, 4099)] if not thorough else [(4096, 4096), (4097, 4099), (4099, 4101), (5793, 5795), (8191, 2053), (4097, 4097)]
        for (w, h) in probes:
            S = f32_size(0.5, w, h)
            for L in (S, S - 1):
                cases.append(Case("c19 ctpkprobe 10 %d %d %d" % (w, h, L), "ctpk-f32-size"))

        # 4. RGB5A3: all 65536 values
        for chunk in range(16):
            vals = list(range(chunk * 4096, (chunk + 1) * 4096))
            rng.shuffle(vals)
            cases.append(Case("c19 rgb5a3 %s" % hx(b"".join(struct.pack(">H", v) for v in vals)), "rgb5a3-all-values"))

        # 5. palette images
        if thorough:
            sizes = [(w, h) for w in range(1, 65) for h in range(1, 65)]
        else:
            sizes = [(w, h) for w in (1, 7, 8, 9, 16, 33, 64) for h in (1, 3, 4, 5, 8, 31, 64)]
            sizes += [(rng.randrange(1, 65), rng.randrange(1, 65)) for _ in range(120)]
        for (w, h) in sizes:
            n = texref.ci8_data_size(w, h)
            ncol = rng.choice([256, 256, 16, 200])
            img = bytes(rng.randrange(ncol) for _ in range(n))
            pal = b"".join(struct.pack(">H", rng.getrandbits(16)) for _ in range(ncol))
            kind = "pal" if w * h <= PAL_MODEL_MAX_PIXELS else "bigpal"
            cases.append(Case("c19 %s %d %d %s %s" % (kind, w, h, hx(img), hx(pal)), "palette-images"))
        # only the VISIBLE pixels' indices have to lie inside the palette (C19_palette): small palettes, visible indices in range,
        # the cropped-away padding bytes 0xFF / random / = palette size; and the converse: one visible index outside -> error (model-compared)
        psizes = [(1, 1), (3, 2), (7, 4), (8, 3), (9, 5), (12, 4), (13, 7), (8, 4), (16, 8), (17, 9), (31, 30), (33, 1), (63, 63), (64, 61)]
        if thorough:
            psizes += [(rng.randrange(1, 65), rng.randrange(1, 65)) for _ in range(60)]
        for (w, h) in psizes:
            n = texref.ci8_data_size(w, h)
            visible = set(texref.ci8_index(w, x, y) for y in range(h) for x in range(w))
            for ncol in (1, 2, 16, 255):
                for fill in ("ff", "random", "ncol"):
                    img = bytearray(rng.randrange(ncol) for _ in range(n))
                    for i in range(n):
                        if i not in visible:
                            img[i] = 0xFF if fill == "ff" else (rng.randrange(ncol, 256) if fill == "random" else ncol)
                    pal = b"".join(struct.pack(">H", rng.getrandbits(16)) for _ in range(ncol))
                    cases.append(Case("c19 pal %d %d %s %s" % (w, h, hx(img), hx(pal)), "palette-padding"))
                # converse: a single visible pixel points outside the palette, padding all valid
                img = bytearray(rng.randrange(ncol) for _ in range(n))
                img[rng.choice(sorted(visible))] = rng.choice([ncol, 255])
                pal = b"".join(struct.pack(">H", rng.getrandbits(16)) for _ in range(ncol))
                cases.append(Case("c19 pal %d %d %s %s" % (w, h, hx(img), hx(pal)), "palette-visible-index-outside"))
        for _ in range(20 if not thorough else 200):
            n = rng.randrange(0, 200)
            ncol = rng.randrange(1, 257)
            data = bytes(rng.randrange(ncol) for _ in range(n))
            pal = rand_bytes(rng, 4 * ncol)
            cases.append(Case("c19 idx %s %s" % (hx(data), hx(pal)), "decode-indexed"))

        # 5b. ColorFormat::decode / decode_indexed for every ColorFormat, with the error variant (model: Model/ColorFormat.v)
        for _ in range(40 if not thorough else 400):
            cf = rng.choice([0, 0, 1, 1, 2, 3])
            n = rng.choice([0, 4, 8, 64, rng.randrange(0, 70)])
            cases.append(Case("c19 cfdec %d %s" % (cf, hx(rand_bytes(rng, n))), "colorformat-decode"))
            cf = rng.choice([0, 1, 2, 2, 2, 3])
            ncol = rng.randrange(1, 257)
            npal = 4 * ncol if rng.random() < 0.8 else rng.randrange(0, 40)
            data = bytes(rng.randrange(ncol if rng.random() < 0.8 else 256) for _ in range(rng.randrange(0, 40)))
            cases.append(Case("c19 cfidx %d %s %s" % (cf, hx(data), hx(rand_bytes(rng, npal))), "colorformat-decode"))

        # 6. edge cases: correspondence only (outside the property's domain, the oracle is silent)
        for (w, h) in [(12, 8), (8, 20), (24, 24), (4, 4), (40, 16), (1, 1), (0, 8), (8, 0), (9, 9)]:
            for fmt in (0, 1, 2, 6, 7, 9, 10, 11):
                n = {0: 8, 1: 6, 2: 4, 6: 2, 7: 2, 9: 2, 10: 1, 11: 2}[fmt] * w * h // 2
                color(fmt, w, h, rand_bytes(rng, n), "edge-odd-size")
            for alpha in (False, True):
                tiles = lambda d: 1 if d <= 8 else 1 << (((d + 7) // 8).bit_length() - 1)
                n = tiles(w) * tiles(h) * 4 * (16 if alpha else 8)
                # (not through a CTPK: ctpk::read cuts the payload by its own size formula first - that is C20's subject)
                etc(alpha, w, h, rand_bytes(rng, n), "edge-odd-size", ctpk=False)
                etc(alpha, w, h, rand_bytes(rng, max(0, n - 3)), "edge-short-payload", ctpk=False)
        for fmt in (14, 15, 255):
            color(fmt, 8, 8, b"", "edge-unknown-format")
        cases.append(Case("c19 rgb5a3 %s" % hx(b"\x12\x34\x56"), "edge-odd-size"))
        cases.append(Case("c19 idx %s %s" % (hx(b"\x00\x05"), hx(bytes(16))), "edge-index-out-of-palette"))
        for ncol in (1, 4, 255):     # the first index outside the palette, and the last one inside
            cases.append(Case("c19 idx %s %s" % (hx(bytes([0, ncol])), hx(rand_bytes(rng, 4 * ncol))), "edge-index-out-of-palette"))
            cases.append(Case("c19 idx %s %s" % (hx(bytes([0, ncol - 1])), hx(rand_bytes(rng, 4 * ncol))), "decode-indexed"))
            img = bytes([ncol] + [0] * 31)
            cases.append(Case("c19 pal 8 4 %s %s" % (hx(img), hx(rand_bytes(rng, 2 * ncol))), "edge-index-out-of-palette"))
        cases.append(Case("c19 idx %s %s" % (hx(b"\x00"), hx(bytes(7))), "edge-odd-size"))
        cases.append(Case("c19 pal 8 4 %s %s" % (hx(bytes([9] * 32)), hx(bytes(8))), "edge-index-out-of-palette"))
        # the runner shards the case list into contiguous chunks: spread the expensive (large, model-compared) cases over the shards
        rng.shuffle(cases)
        return cases

    # ------------------------------------------------------------------ comparison
    def agree(self, case, impl_out, model_out, profile):
        if model_out == "skip":
            return True
        return impl_out == model_out

    def _domain(self, toks):
        """(kind, args) when the case is inside the property's domain, else None"""
        k = toks[1]
        if k in ("color", "bigcolor"):
            fmt, w, h = int(toks[2]), int(toks[3]), int(toks[4])
            payload = unhx(toks[5])
            if fmt in texref.FORMATS and is_pow2_ge8(w) and is_pow2_ge8(h) and len(payload) == texref.payload_size(fmt, w, h):
                return ("color", fmt, w, h, payload)
            if fmt in (12, 13) and is_pow2_ge8(w) and is_pow2_ge8(h) and len(payload) == texref.payload_size(fmt, w, h):
                return ("etc", fmt == 13, w, h, payload)      # ETC1 / ETC1A4 through the CTPK path
        elif k in ("etc", "bigetc"):
            alpha, w, h = toks[2] == "1", int(toks[3]), int(toks[4])
            payload = unhx(toks[5])
            if is_pow2_ge8(w) and is_pow2_ge8(h) and len(payload) == texref.payload_size(13 if alpha else 12, w, h):
                return ("etc", alpha, w, h, payload)
        elif k == "ctpkprobe":
            return ("probe", int(toks[2]), int(toks[3]), int(toks[4]), int(toks[5]))
        elif k == "rgb5a3":
            data = unhx(toks[2])
            if len(data) % 2 == 0:
                return ("rgb5a3", data)
        elif k == "cfdec":
            cf, data = int(toks[2]), unhx(toks[3])
            if cf == 1 and len(data) % 2 == 0:
                return ("rgb5a3", data)
            if cf == 0 and len(data) % 4 == 0:
                return ("rgba8", data)
        elif k in ("idx", "cfidx"):
            if k == "cfidx":
                if toks[2] != "2":
                    return None
                toks = [toks[0], "idx"] + toks[3:]
            data, pal = unhx(toks[2]), unhx(toks[3])
            if len(pal) % 4 == 0 and all(i < len(pal) // 4 for i in data):
                return ("idx", data, pal)
        elif k in ("pal", "bigpal"):
            w, h = int(toks[2]), int(toks[3])
            img, pal = unhx(toks[4]), unhx(toks[5])
            if 1 <= w <= 64 and 1 <= h <= 64 and len(img) == texref.ci8_data_size(w, h) and len(pal) % 2 == 0:
                if all(img[texref.ci8_index(w, x, y)] < len(pal) // 2 for y in range(h) for x in range(w)):
                    return ("pal", w, h, img, pal)
        return None

    def nontrivial(self, case, impl_out):
        return impl_out.startswith("ok ") and self._domain(case.line.split()) is not None

    def oracle(self, case, impl_out, profile):
        toks = case.line.split()
        dom = self._domain(toks)
        if dom is None:
            return None
        if dom[0] == "probe":
            fmt, w, h, L = dom[1:]
            want = ("ok %d" % (4 * w * h)) if L >= f32_size({10: 0.5, 11: 1.0}[fmt], w, h) else "err"
            return None if impl_out == want else "ctpk::read of a %dx%d format-%d texture with %d payload bytes: %s, binary32 size product says %s" % (w, h, fmt, L, impl_out, want)
        if not impl_out.startswith("ok B"):
            return "input inside the property's domain but the decoder answered %s (%s build)" % (impl_out[:40], profile)
        out = bytes.fromhex(impl_out[4:])
        if dom[0] == "color":
            return texref.check_tiled_image(dom[1], dom[2], dom[3], dom[4], out)
        if dom[0] == "etc":
            return texref.check_etc1_image(dom[1], dom[2], dom[3], dom[4], out)
        if dom[0] == "rgb5a3":
            data = dom[1]
            if len(out) != 2 * len(data):
                return "RGB5A3: %d output bytes for %d input bytes" % (len(out), len(data))
            for i in range(len(data) // 2):
                why = texref.check_rgb5a3(struct.unpack(">H", data[2 * i:2 * i + 2])[0], out[4 * i:4 * i + 4])
                if why:
                    return why
            return None
        if dom[0] == "rgba8":
            return None if out == dom[1] else "GameCube RGBA8 decode is not the identity"
        if dom[0] == "idx":
            data, pal = dom[1], dom[2]
            want = b"".join(pal[4 * i:4 * i + 4] for i in data)
            return None if out == want else "decode_indexed: output is not the palette entries of the indices"
        if dom[0] == "pal":
            w, h, img, pal = dom[1:]
            if len(out) != 4 * w * h:
                return "palette image %dx%d: %d output bytes" % (w, h, len(out))
            seen = {}
            for y in range(h):
                for x in range(w):
                    idx = img[texref.ci8_index(w, x, y)]
                    px = out[4 * (y * w + x):4 * (y * w + x) + 4]
                    why = texref.check_rgb5a3(struct.unpack(">H", pal[2 * idx:2 * idx + 2])[0], px)
                    if why:
                        return "pixel (%d,%d) <- palette entry %d: %s" % (x, y, idx, why)
                    if seen.setdefault(idx, px) != px:
                        return "pixel (%d,%d): palette entry %d decoded to two different colours" % (x, y, idx)
            return None
        return None

    def shrink_candidates(self, case):
        toks = case.line.split()
        if toks[1] in ("color", "bigcolor", "etc", "bigetc"):
            payload = bytearray(unhx(toks[5]))
            n = len(payload)
            step = max(1, n // 8)
            for i in range(0, n, step):
                if any(payload[i:i + step]):
                    p2 = bytearray(payload)
                    p2[i:i + step] = bytes(len(p2[i:i + step]))
                    yield Case(" ".join(toks[:5] + [hx(p2)]), case.stream)


TB = ("Trusted: Coq 8.16.1 kernel (vm_compute, no native_compute), no axioms (Print Assumptions audited on every run), "
      "ExtrOcamlBasic extraction + hand-written OCaml driver, the Rust harness and Python generators/oracles. ")

MANIFEST = dict(
    text="Proved (40 theorems in Properties/C19.v, all closed, none partial) about executable Gallina models of texture_decoder.rs, etc1.rs, "
         "pixel_encodings.rs, texture_utils.rs and the CI8 path of tpl.rs: TILE_ORDER is the Morton order; for every listed raw format and EVERY "
         "width/height that is a multiple of 8 (w*h < 2^32) pixel (X,Y) is decode_color of the element at its Z-order index; every channel of all "
         "65536 values per format is within one quantisation step of the linear expansion (exact for 8/4/1-bit fields); the ETC1 block decoder equals a "
         "specification written from the published rules for every block the rules define, and ETC1/ETC1A4 images place block/texel as the 3DS layout "
         "says (all powers of two); RGB5A3 all values; CI8 palette images in 8x4 blocks for EVERY size >= 1 with crop; output size; bytes-per-pixel "
         "table, with the binary32 size product of ctpk::read modelled (round24) and its exactness an explicit hypothesis (holds for w*h < 2^24). "
         "Overflow checks: MODED models (Model/PixelM.v, Model/Etc1M.v) put every machine operation that can overflow its Rust type (u8/u16/u32/u64/"
         "usize/i32 +,-,*, shifts incl. computed amounts, `as u8`, table and slice indexing, divisions) through the Machine monad with the mode and are "
         "PROVED to return, in both modes, exactly the mode-free models' results for every byte payload and all u16 sizes (ETC: sides < 2^31) - no "
         "operation overflows, so checked and unchecked builds agree. The moded models are what the check compares with /repo on every run, in both "
         "modes and both build profiles, by exhaustive / finite-product correspondence through ctpk::read, Tpl::extract_textures, mila::decode, "
         "ColorFormat::decode/decode_indexed; independent Python re-statement of the formats (gen/texref.py) as oracle on the implementation's output.",
    note=TB + "Modelled, not verified: f64 ceil/log2 of the ETC tile count (A-float: integer function, confirmed by the correspondence over all 25 "
              "sizes, odd sizes, d x 1 / 1 x d block consumption) and the binary32 size product (integer model round24, compared with ctpk::read at and "
              "beyond w*h = 2^24 and against an independent IEEE emulation); allocation success (A-alloc). `as` casts, wrapping_add and Wrapping<u8> are "
              "mode-free by Rust's semantics and modelled as truncations. The harness wraps payloads in minimal CTPK/TPL containers to reach the "
              "private decoders through the public API. ETC1 differential blocks whose base+delta leaves 0..31 are outside the ETC1 rules: compared "
              "with the model only. Formats outside the property's list (RGB8, HILO8, LA4, L4, A4) are model-compared (moded), no specification "
              "theorem. F15 (u8 overflow on negative ETC1 deltas in checked builds) was repaired in /repo (dde5f7c); the pre-repair expression is kept "
              "in the model and proved to panic.",
    technique="Coq proof (finite sweeps by vm_compute for tables, channels and the scalar moded decoders, scatter/gather lemma + div/mod arithmetic for "
              "the tile, ETC and 8x4 block layouts, field decomposition of the 64-bit word for ETC1, bound arithmetic for the moded loops) + "
              "extracted-model differential check + independent oracle",
    ref="DESIGN.md section 7 (C19); notes/tex.md")
