# MANIFEST.setup_cmd: build everything from files on disk (offline).
import common


def main():
    st = common.regenerate_source_tables(force_main=True)
    for n, msg in st["failures"].items():
        print("SETUP: source table %s not generated: %s" % (n, msg))
    ok, out = common.build_coq(["all"])
    print(out[-3000:])
    if not ok:
        print("SETUP: coq build failed")
        return 1
    ok, out = common.build_driver()
    if not ok:
        print(out[-3000:])
        print("SETUP: driver build failed")
        return 1
    for rel in (False, True):
        ok, out = common.build_harness(rel)
        print(out[-1500:])
        if not ok:
            print("SETUP: harness build failed")
            return 1
    print("SETUP: ok")
    return 0
