# MANIFEST.setup_cmd: build everything from files on disk (offline).
import common


def main():
    st = common.regenerate_source_tables(force_main=True)
    for n, msg in st["failures"].items():
        print("SETUP: source table %s not generated: %s" % (n, msg))
    targets = ["all"]
    if st["failures"]:
        # tables whose anchors are lost in the current source: their agreement files cannot be built (see
        # common.check_source_tables: the group is skipped, the tie falls back to the correspondence)
        import srctables
        lostg = set(g for g, names in srctables.groups().items() if any(n in st["failures"] for n in names))
        targets = [v[:-2] + ".vo" for v in common.gen_coqproject() if not any(v.endswith("Proofs/SrcAgree_%s.v" % g) for g in lostg)]
    ok, out = common.build_coq(targets)
    print(out[-3000:])
    if not ok:
        print("SETUP: coq build failed")
        return 1
    ok, out = common.build_driver()
    if not ok:
        print(out[-3000:])
        print("SETUP: driver build failed")
        return 1
    for rel in (False, True):
        ok, out = common.build_harness(rel)
        print(out[-1500:])
        if not ok:
            print("SETUP: harness build failed")
            return 1
    print("SETUP: ok")
    return 0
