# Random well-formed bin-archive contents and API histories that build them (shared by C01, C02, C06...).
import struct

# Shift-JIS encoded strings that encoding_rs round-trips losslessly (checked by harness kind `sjis`)
ASCII_STRS = [b"A", b"AB", b"", b"a b", b"~", b"\\", b"Count", b"Info", b"MID_H", b"x" * 9]
KANA_STRS = [bytes.fromhex("82a0"), bytes.fromhex("835c"), bytes.fromhex("b1"), bytes.fromhex("82a082a2")]
# codec edge strings (seeds C17-8 / C18-8; all lossless, checked with harness kind `sjdec`): half-width katakana whose bytes are also valid
# UTF-8 (d0bd, c3b1) or not (cadfca), and wave-dash-class code points U+FF5E, U+FF0D, U+FFE2, U+2225
KANA_STRS += [bytes.fromhex(h) for h in ("d0bd", "c3b1", "cadfca", "8160", "817c", "81ca", "8161")]
KANJI_STRS = [bytes.fromhex("8abf8e9a"), bytes.fromhex("8140")]
# names whose Shift-JIS byte order differs from their String (code point) order - the order BinArchive::serialize uses for
# big-endian label tables: Greek alpha 83 BF (U+03B1) vs hiragana 82 A0 (U+3042), prolonged sound mark 81 5B (U+30FC),
# kanji 88 9F (U+4E9C) vs 88 EA (U+4E00), full-width A 82 60 (U+FF21), half-width katakana B1 (U+FF71) vs everything
ORDER_STRS = [bytes.fromhex("83bf"), bytes.fromhex("815b"), bytes.fromhex("889f"), bytes.fromhex("88ea"), bytes.fromhex("8260"),
              bytes.fromhex("83bf82a0"), bytes.fromhex("82a083bf"), bytes.fromhex("41889f"), bytes.fromhex("88ea41")]


# strings built from ASCII and characters that take 2 bytes in UTF-8 AND 2 bytes in Shift-JIS (Latin-1 symbols, Greek, Cyrillic) and
# contain no 3-byte-UTF-8 character: their encoded length equals their UTF-8 length, the tightest case for an encoder that sizes its
# output buffer from the UTF-8 length; most of them END in an ASCII character (seeded change C01-8 dropped it: "90°C" -> "90°")
SYMBOL_STRS = [bytes.fromhex("3930818b43"),        # 90°C
               bytes.fromhex("35817e35"),          # 5×5
               bytes.fromhex("817d78"),            # ±x
               bytes.fromhex("83bf31"),            # α1
               bytes.fromhex("81986181f762"),      # §a¶b
               bytes.fromhex("844441"),            # ДA
               bytes.fromhex("818b"),              # °
               bytes.fromhex("4181804281804378")]  # A÷B÷Cx


def hexb(b):
    return "B" + bytes(b).hex()


def long_str(rng):
    """a string of several hundred encoded bytes whose double-byte characters straddle the 256-byte (and 512-byte)
    offsets - an odd number of single-byte characters followed by a long kana run (seeded change binshared-3 decoded in
    fixed 256-byte blocks)"""
    head = rng.choice([b"x", b"abc", b"k" * 255, b"", b"MID_"])
    kana = [bytes.fromhex("82a0"), bytes.fromhex("82a2"), bytes.fromhex("835c"), bytes.fromhex("8341")]
    n = rng.choice([128, 129, 130, 200, 256, 300])
    return head + b"".join(rng.choice(kana) for _ in range(n)) + rng.choice([b"", b"!", bytes.fromhex("b1")])


class Content:
    def __init__(self, endian, data, text, ptr, lab, cs):
        self.e = endian
        self.data = data      # bytes
        self.text = text      # {cell: bytes}
        self.ptr = ptr        # {cell: dest}
        self.lab = lab        # {addr: [bytes]}
        self.cs = cs          # [(cell, bytes)]


def random_content(rng, endian, max_size=64, cstrings=True, aligned_len=None):
    size = rng.randint(0, max_size)
    if aligned_len is True or (aligned_len is None and rng.random() < 0.6):
        size -= size % 4
    data = bytes(rng.getrandbits(8) for _ in range(size))
    cells = list(range(0, size - 3, 4))
    # a few unaligned (but non-overlapping) cells: shift a suffix by 1..3 when there is room
    if cells and rng.random() < 0.15 and size % 4:
        sh = rng.randint(1, size % 4)
        k = rng.randrange(len(cells))
        cells = cells[:k] + [c + sh for c in cells[k:]]
    text, ptr, cs = {}, {}, []
    pool = ASCII_STRS + KANA_STRS + KANJI_STRS + ORDER_STRS + SYMBOL_STRS
    label_pool = pool          # any lossless name in either endianness (sort keys: gen/namekeys.py)
    dense = rng.random()
    longs = rng.random() < 0.15          # some archives carry strings of several hundred bytes
    if longs:
        pool = pool + [long_str(rng) for _ in range(2)]
        label_pool = label_pool + [long_str(rng)]
    if rng.random() < 0.15:
        # two different texts with the same 64-bit FxHash (gen/fxpairs.py), used often in this archive: pools or groupings keyed by
        # a hash of the text instead of the text hand one string's bytes to the other (seeded change C18-10)
        import fxpairs
        x, y = rng.choice(fxpairs.ALL_PAIRS)
        tail = rng.choice([b"", b"_cl0n"])
        pair = [x + tail, y + tail]
        pool = pool[:6] + pair * 4
        label_pool = label_pool[:6] + pair * 2
    for c in cells:
        r = rng.random()
        if r < 0.3 * dense + 0.05:
            text[c] = rng.choice(pool if rng.random() < 0.7 else label_pool)
        elif r < 0.55 * dense + 0.1:
            ptr[c] = rng.choice([0, size, rng.randint(0, size), 4 * rng.randint(0, size // 4)])
        elif cstrings and r < 0.7 * dense + 0.12:
            cs.append((c, rng.choice([s for s in pool if s != b""] + [b""])))
    lab = {}
    for _ in range(rng.randint(0, 6)):
        a = rng.choice([size, 0, rng.randint(0, size), 4 * rng.randint(0, size // 4)])
        names = lab.setdefault(a, [])
        for _ in range(rng.choice([1, 1, 1, 2, 3])):
            names.append(rng.choice([n for n in label_pool if n != b""] + [b"L%d" % rng.randint(0, 3)]))
    return Content(endian, data, text, ptr, lab, cs)


def coincidence_contents():
    """Archives in which the value stored in a string cell (text_start + text offset, counted from the data start) equals the NAME
    OFFSET of a label (counted from the text start), and the neighbours one byte off: d data bytes, one string cell whose string is
    also the first label's name (text offset 0), extra internal pointers, two or three labels; text_start = d + 4*pointers + 8*labels,
    so a first name of text_start - 1 bytes puts the second label's name at offset text_start (seeded changes C01-5 / C02-5 memoised
    decoded text by offset alone, across the two offset spaces)."""
    out = []
    for e in "LB":
        for d in (8, 12, 16, 24):
            for extra_ptrs in (0, 1, 2):
                for nlab in (2, 3):
                    tstart = d + 4 * (1 + extra_ptrs) + 8 * nlab
                    for delta in (-1, 0, 1):
                        n1 = b"A" * (tstart - 1 + delta)          # sorts first by name (big-endian order) and by address
                        ptr = {8 + 4 * k: 0 for k in range(extra_ptrs)}
                        lab = {0: [n1], 4: [b"Second"]}
                        if nlab == 3:
                            lab[d] = [b"Third"]
                        out.append(Content(e, bytes(d), {4: n1}, ptr, lab, []))
    return out


def build_ops(rng, c, shuffle=True, noise=True):
    """an API history that builds content c; with `noise` some annotations are first written with other values,
    deleted and rewritten, so different histories reach the same content"""
    ops = []
    size = len(c.data)
    if size:
        # grow in pieces
        rest = size
        while rest > 0:
            k = rng.randint(1, rest) if noise else rest
            ops.append(("aae", [str(k)]))
            rest -= k
        ops.append(("wb", ["0", hexb(c.data)]))
    ann = []
    for cell, s in c.text.items():
        seq = []
        if noise and rng.random() < 0.3:
            seq.append(("ws", [str(cell), hexb(b"tmp")]))
            if rng.random() < 0.5:
                seq.append(("ds", [str(cell)]))
        seq.append(("ws", [str(cell), hexb(s)]))
        ann.append(seq)
    for cell, d in c.ptr.items():
        seq = []
        if noise and rng.random() < 0.3:
            seq.append(("wp", [str(cell), "0"]))
            if rng.random() < 0.5:
                seq.append(("wp0", [str(cell)]))
        seq.append(("wp", [str(cell), str(d)]))
        ann.append(seq)
    for a, names in c.lab.items():
        seq = []
        if noise and rng.random() < 0.3:
            seq.append(("wl", [str(a), hexb(b"old")]))
            if a + 4 <= size and rng.random() < 0.5:
                seq.append(("dls", [str(a)]))
                seq += [("wl", [str(a), hexb(n)]) for n in names]
            else:
                seq.append(("wls", [str(a), str(len(names))] + [hexb(n) for n in names]))
        elif rng.random() < 0.5:
            seq.append(("wls", [str(a), str(len(names))] + [hexb(n) for n in names]))
        else:
            seq += [("wl", [str(a), hexb(n)]) for n in names]
        ann.append(seq)
    for cell, s in c.cs:
        ann.append([("wc", [str(cell), hexb(s)])])
    if shuffle:
        rng.shuffle(ann)
    for seq in ann:
        ops += seq
    return ops


# ------------------------------------------------------------------ reference file writer with layout knobs (C01)
def knob_file(rng, c, junk=True):
    """a file that CONFORMS to the format for content c (no c-strings) but is laid out differently from the canonical
    image: permuted pointer table, interleaved label table, strings anywhere in the text section (shared, duplicated,
    separated by junk), label names and strings mixed, trailing junk."""
    end = "<" if c.e == "L" else ">"
    u32 = lambda v: struct.pack(end + "I", v)
    size = len(c.data)
    ptab = list(c.ptr) + list(c.text)
    rng.shuffle(ptab)
    # label entries: per address the bucket order must be kept; entries of different addresses interleave freely
    queues = [[(a, n) for n in names] for a, names in c.lab.items() if names]
    lent = []
    while queues:
        q = rng.choice(queues)
        lent.append(q.pop(0))
        if not q:
            queues.remove(q)
    nlab = len(lent)
    text_start = size + 4 * len(ptab) + 8 * nlab
    tsec = bytearray()
    placed = {}

    def place(s):
        # share an earlier copy, or store a new (possibly duplicate) copy, possibly after some junk
        if s in placed and rng.random() < 0.5:
            return rng.choice(placed[s])
        # tail sharing (a string-pooling packer): point into the MIDDLE of a longer stored string that ends with s
        hosts = [t for t in placed if len(t) > len(s) and t.endswith(s)]
        if hosts and rng.random() < 0.5:
            t = rng.choice(hosts)
            return rng.choice(placed[t]) + len(t) - len(s)
        if junk and rng.random() < 0.3:
            tsec.extend(bytes(rng.choice([1, 65, 255]) for _ in range(rng.randint(1, 3))) + b"\0")
        o = len(tsec)
        tsec.extend(s + b"\0")
        placed.setdefault(s, []).append(o)
        return o
    items = [("l", i) for i in range(nlab)] + [("t", cell) for cell in c.text]
    rng.shuffle(items)
    loff = {}
    toff = {}
    for kind, k in items:
        if kind == "l":
            loff[k] = place(lent[k][1])
        else:
            toff[k] = place(c.text[k])
    if junk and rng.random() < 0.3:
        tsec.extend(b"junk")
    data = bytearray(c.data)
    for cell, d in c.ptr.items():
        data[cell:cell + 4] = u32(d)
    for cell in c.text:
        data[cell:cell + 4] = u32(text_start + toff[cell])
    body = bytes(data) + b"".join(u32(x) for x in ptab) + b"".join(u32(lent[i][0]) + u32(loff[i]) for i in range(nlab)) + bytes(tsec)
    return u32(len(body) + 32) + u32(size) + u32(len(ptab)) + u32(nlab) + bytes(16) + body, bytes(data)
