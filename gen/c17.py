# C17: animation-set file round trip.
import os
import struct
from common import PropertyCheck, Case, REPO
import recsfmt as R


def blank_set(label=None):
    return [label] + [None] * 256


def set_with(rng, slots, label=None, names=None):
    s = blank_set(label)
    for i in slots:
        s[i] = names(i) if names else (b"c%d" % i)
    return s


def rand_table(rng, dens):
    return [R.rand_string(rng) if rng.random() < dens else None for _ in range(257)]


def wf(meta, table, sets):
    """the property's quantifier: 257 table entries, every set label + 256 slots, NUL-free strings (any label, also the table's)"""
    strs = [meta] + list(table) + [x for s in sets for x in s]
    return len(table) == 257 and all(len(s) == 257 for s in sets) and all(x is None or 0 not in x for x in strs)


def norm_set(s):
    """what the reader makes of a set vector of any non-zero length (C17_round_trip_normalises): label + exactly 256 slots"""
    return [s[0]] + [(s[i] if i < len(s) else None) for i in range(1, 257)]


def in_wider_domain(meta, table, sets):
    """257 table entries, sets of ANY non-zero length: the normalised value must be read back"""
    return len(table) == 257 and all(len(s) >= 1 for s in sets) and wf(meta, table, [norm_set(s) for s in sets])


class C17(PropertyCheck):
    pid = "C17"
    release_too = True       # both build profiles (review 2: the both-modes theorems must be tied to a release build too)
    source_tables = ["ASet", "BIN_HEADER"]   # tables / constants regenerated from /repo's source (gen/srctables.py)
    rule = ("values built through the public fields of ASetFile: every presence pattern of one group over a 7-slot window (first six "
            "slots and the last slot of the group; thorough: 2^16 patterns over 16 slots) for groups 0, 3 and 7, cross patterns over two "
            "groups, dense / sparse / entirely empty sets, labelled and unlabelled sets, the last slot of every group, empty-string "
            "names, meta absent / empty / present, tables empty / full / random / first or last entry alone, 0-5 (once 12) sets per file, values outside the quantifier "
            "(empty set vectors, tables of other lengths) for the correspondence only; sets labelled AnimClipNameTable (finding F22, each case 12 times: the failure depended on the hash state); short and long set "
            "vectors with the normalised value as expected result; the game file FE14Aset_Test.bin.  "
            "Non-trivial = at least one present slot; distinct = distinct case line.")
    assumptions = ["A-codec: strings are given in Shift-JIS encoded form; encoding_rs decodes/encodes the generated alphabet losslessly",
                   "image (data + strings + labels + 35) below 2^32 (aset_fits)"]

    def generate(self, rng, tier):
        cases = []

        def add(meta, table, sets, stream):
            cases.append(Case(R.aset_case(meta, table, sets), stream))

        none_table = [None] * 257
        # every presence pattern of one group (window of slots), for three groups
        window = [0, 1, 2, 3, 4, 5, 31] if tier == "quick" else [0, 1, 2, 3, 4, 5, 6, 7, 24, 25, 26, 27, 28, 29, 30, 31]
        groups = (0, 3, 7) if tier == "quick" else (5,)
        for g in groups:
            for mask in range(1 << len(window)):
                slots = [1 + 32 * g + b for k, b in enumerate(window) if (mask >> k) & 1]
                add(None, none_table, [set_with(rng, slots, b"L" if mask & 2 else None)], "group-exhaustive")
        if tier != "quick":
            for g in (0, 3, 7):
                w = [0, 1, 2, 3, 4, 5, 31]
                for mask in range(1 << len(w)):
                    slots = [1 + 32 * g + b for k, b in enumerate(w) if (mask >> k) & 1]
                    add(None, none_table, [set_with(rng, slots, b"L" if mask & 2 else None)], "group-exhaustive")
        # cross patterns over all groups: first and last slot of every group
        edge = [1 + 32 * g for g in range(8)] + [32 * g + 32 for g in range(8)]
        for mask in range(256):
            slots = [1 + 32 * g for g in range(8) if (mask >> g) & 1]
            add(b"m", none_table, [set_with(rng, slots, None), set_with(rng, [x + 31 for x in slots], b"second")], "group-cross")
        for i in edge:
            add(None, none_table, [set_with(rng, [i])], "edge-slots")
            add(None, none_table, [set_with(rng, [i], names=lambda _: b"")], "edge-slots")
        # dense / sparse / empty, labels, meta, tables
        full = [b"t%d" % i for i in range(257)]
        add(None, none_table, [], "no-sets")
        add(b"", none_table, [], "no-sets")
        add(b"meta", full, [], "no-sets")
        add(b"meta", [b""] * 257, [blank_set()], "empty-sets")
        add(None, none_table, [blank_set(), blank_set(b""), blank_set(b"x"), blank_set()], "empty-sets")
        add(b"meta", full, [set_with(rng, range(1, 257), b"dense")], "dense")
        add(b"meta", full, [set_with(rng, range(1, 257), None, names=lambda _: b""), set_with(rng, range(1, 257), b"d2")], "dense")
        # finding F22 (repaired): sets labelled AnimClipNameTable - the reviewer's witness, one / several / all sets, next to empty and
        # ordinary labels.  The failure was hash-state dependent (a fresh RandomState per HashMap): every case is run 12 times.
        acnt_cases = [(b"m", [b"c0"] + [None] * 256, [set_with(rng, [1], R.ACNT, names=lambda _: b"a")]),
                      (None, none_table, [blank_set(R.ACNT)]),
                      (None, none_table, [blank_set(R.ACNT), blank_set(R.ACNT), blank_set(R.ACNT)]),
                      (b"m", none_table, [set_with(rng, [256], b""), set_with(rng, [1, 33], R.ACNT), blank_set(), set_with(rng, [40], R.ACNT)]),
                      (None, full, [set_with(rng, range(1, 257), R.ACNT), blank_set(b"x"), blank_set(R.ACNT)]),
                      (b"", none_table, [blank_set(b""), blank_set(R.ACNT), blank_set(b"")])]
        for (m_, t_, s_) in acnt_cases:
            for _ in range(12):
                add(m_, t_, s_, "table-label-on-sets")
        # codec edge strings (seeds C17-8, C18-8): as meta, table entry, label and slot name
        for k, w in enumerate(R.CODEC_WORDS):
            st = blank_set(w if k % 2 else None)
            st[1 + (37 * k) % 256] = w
            st[256] = R.CODEC_WORDS[(k + 1) % len(R.CODEC_WORDS)]
            add(w, [w] + [None] * 255 + [w], [st], "codec-edge")
        # different strings with equal FxHash (seed C18-10): both members in the clip table, in one set, across sets, as labels
        for k, (x, y) in enumerate(R.FX_PAIRS):
            for suf in (b"", b"_cl0n"):
                a, b = x + suf, y + suf
                t = [None] * 257
                t[k], t[256 - k] = a, b
                s1 = blank_set(a); s1[1 + k] = b; s1[256] = a
                s2 = blank_set(b); s2[33] = a
                add(a, t, [s1, s2], "fx-collision")
        # table: first / last entry alone; many sets in one file (labels repeated, interleaved empty sets)
        add(None, [b"first"] + [None] * 256, [], "table-edges")
        add(None, [None] * 256 + [b"last"], [set_with(rng, [256])], "table-edges")
        add(b"", [None] * 255 + [b"", b""], [], "table-edges")
        many = []
        for k in range(12):
            many.append(blank_set(b"s%d" % (k % 3)) if k % 4 == 3 else set_with(rng, [1 + (37 * k) % 256, 256 - k], b"s%d" % (k % 3) if k % 2 else None))
        add(b"meta", none_table, many, "many-sets")
        n_rand = 150 if tier == "quick" else 2500
        for _ in range(n_rand):
            meta = rng.choice([None, b"", R.rand_string(rng)])
            table = rand_table(rng, rng.choice([0.0, 0.1, 0.9, 1.0]))
            sets = []
            for _ in range(rng.choice([0, 1, 1, 2, 3, 5])):
                dens = rng.choice([0.0, 0.01, 0.05, 0.3, 0.9, 1.0])
                lab = rng.choice([None, b"", R.rand_string(rng, allow_empty=False), b"same", R.ACNT])
                s = blank_set(lab)
                gmask = rng.getrandbits(8) if rng.random() < 0.5 else 255
                for i in range(1, 257):
                    if (gmask >> ((i - 1) // 32)) & 1 and rng.random() < dens:
                        s[i] = R.rand_string(rng)
                sets.append(s)
            add(meta, table, sets, "random")
        # values outside the quantifier: tie the model to the code on them, no oracle
        add(None, none_table, [[]], "outside")
        add(None, none_table, [[b"only-label"]], "outside")
        add(None, none_table, [[None, b"a", None, b"b"]], "outside")
        add(None, none_table, [set_with(rng, [1, 256]) + [b"extra", None, b"extra2"]], "outside")
        # set vectors of other lengths (wider domain: the normalised value is expected back)
        for _ in range(30 if tier == "quick" else 600):
            sets = []
            for _ in range(rng.choice([1, 1, 2, 3])):
                n = rng.choice([1, 2, 32, 33, 34, 256, 258, rng.randint(1, 300)])
                dens = rng.choice([0.0, 0.05, 0.5, 1.0])
                sets.append([rng.choice([None, b"l"])] + [(R.rand_string(rng) if rng.random() < dens else None) for _ in range(n - 1)])
            add(rng.choice([None, b"m"]), none_table, sets, "other-lengths")
        add(None, [], [set_with(rng, [1])], "outside")
        add(None, [b"a", None, b"b"], [], "outside")
        add(b"m", [None] * 300, [set_with(rng, [2])], "outside")
        game = open(os.path.join(REPO, "resources", "test", "FE14Aset_Test.bin"), "rb").read()
        cases.append(Case("aset p " + R.B(game), "gamefile"))
        for _ in range(20 if tier == "quick" else 300):
            sets = [set_with(rng, [i for i in range(1, 257) if rng.random() < 0.05], rng.choice([None, b"lab"])) for _ in range(rng.randint(0, 3))]
            extra = [(rng.choice([1040, 1044, 2000, 8]), R.ACNT)] if rng.random() < 0.3 else []
            img = R.encode_aset_image(rng.choice([None, b"meta"]), rand_table(rng, 0.5), sets, extra_labels=extra)
            cases.append(Case("aset p " + R.B(img), "foreign-image"))
        # the runner splits the list into contiguous shards: mix cheap (sparse) and expensive (dense, game file) cases
        rng.shuffle(cases)
        return cases

    def nontrivial(self, case, impl_out):
        toks = case.line.split()
        if toks[1] == "p":
            return "re=ok" in impl_out
        _, _, sets, _ = R.parse_aset_value(toks[2:])
        return any(x is not None for s in sets for x in s[1:])

    def oracle(self, case, impl_out, profile):
        toks = case.line.split()
        if impl_out in ("ABORT", "TIMEOUT", "MISSING-OUTPUT") or impl_out.startswith("UNKNOWN"):
            return "implementation %s" % impl_out
        if toks[1] == "p":
            if impl_out == "PANIC":
                return "implementation PANIC"
            parts = dict(p.split("=", 1) for p in impl_out.replace("amb ", "").split(" | "))
            if case.stream == "gamefile":
                if not parts.get("re", "").startswith("ok:"):
                    return "game file rejected"
                if parts.get("ser2") != toks[2]:
                    return "game file: re-serialized bytes differ from the file"
                dec = R.decode_aset_image(R.unB(toks[2]))
                if isinstance(dec, str):
                    return "game file: independent decoder: " + dec
                m, t, s, _ = R.parse_aset_value(parts["re"][3:].split())
                if (m, t, s) != dec:
                    return "game file: value read differs from the independent decoder's"
            elif parts.get("re", "").startswith("ok:") and parts.get("ser2", "err") == "err":
                return "accepted image cannot be re-serialized"
            return None
        meta, table, sets, _ = R.parse_aset_value(toks[2:])
        if not in_wider_domain(meta, table, sets):
            return None
        sets = [norm_set(s) for s in sets]
        if impl_out == "PANIC":
            return "implementation PANIC"
        parts = dict(p.split("=", 1) for p in impl_out.replace("| amb ", "| ").split(" | "))
        ser = parts.get("ser")
        if ser is None or ser == "err":
            return "serialize failed"
        re_ = parts.get("re", "")
        if not re_.startswith("ok:"):
            return "the serialized image is rejected by the reader (%s)" % re_
        m2, t2, s2, _ = R.parse_aset_value(re_[3:].split())
        if m2 != meta:
            return "meta %r read back as %r" % (meta, m2)
        if t2 != table:
            k = next((i for i in range(min(len(t2), 257)) if t2[i] != table[i]), None)
            return "clip table differs (%d entries, first difference at %s)" % (len(t2), k)
        if len(s2) != len(sets):
            return "%d sets written, %d read back" % (len(sets), len(s2))
        for k, (a, b) in enumerate(zip(sets, s2)):
            if len(b) != 257:
                return "set %d read back with %d entries" % (k, len(b))
            if a[0] != b[0]:
                return "set %d: label %r read back as %r" % (k, a[0], b[0])
            for i in range(1, 257):
                if a[i] != b[i]:
                    return "set %d: slot %d %r read back as %r" % (k, i, a[i], b[i])
        if parts.get("ser2") != ser:
            return "re-serializing the re-read value gives different bytes"
        img = R.unB(ser)
        dsz = struct.unpack_from("<I", img, 4)[0]
        if dsz != R.aset_space(sets):
            return "data region has %d bytes, the space formula gives %d" % (dsz, R.aset_space(sets))
        dec = R.decode_aset_image(img)
        if isinstance(dec, str):
            return "layout: " + dec
        if dec != (meta, table, sets):
            return "independent decoder reads a different value from the image"
        return None

    def agree(self, case, impl_out, model_out, profile):
        # the table label on several addresses ("amb" prefix of both lines): since fix 10408e9 the lookup is the lowest address,
        # deterministic on both sides - compared verbatim like everything else
        return impl_out == model_out

    def shrink_candidates(self, case):
        toks = case.line.split()
        if toks[1] != "v":
            return
        meta, table, sets, _ = R.parse_aset_value(toks[2:])
        for k in range(len(sets)):
            yield Case(R.aset_case(meta, table, sets[:k] + sets[k + 1:]), case.stream)
        if any(x is not None for x in table):
            yield Case(R.aset_case(meta, [None] * len(table), sets), case.stream)
        for k, s in enumerate(sets):
            pres = [i for i in range(1, len(s)) if s[i] is not None]
            for i in pres[:40]:
                s2 = s[:i] + [None] + s[i + 1:]
                yield Case(R.aset_case(meta, table, sets[:k] + [s2] + sets[k + 1:]), case.stream)
        if meta is not None:
            yield Case(R.aset_case(None, table, sets), case.stream)


TB = ("Trusted: Coq 8.16.1 kernel (vm_compute, no native_compute), no axioms (Print Assumptions audited on every run), "
      "ExtrOcamlBasic extraction + hand-written OCaml driver, the Rust harness and Python generators/oracles. ")

MANIFEST = dict(
    text="Theorems about an executable Gallina model of ASetFile::from_archive / ASetFile::serialize (transcribed call by call over the "
         "bin-archive stream model). For every value with 257 table entries and 257 entries per set (label + 256 slots), any meta, any "
         "present/absent pattern: the writer builds exactly the archive of the cell list header ++ 257 string cells ++ per set [main flags "
         "word, per non-empty group its flags word and one string cell per present slot] with AnimClipNameTable at 12 and each set label "
         "on the first byte of its record (C17_writer_builds_cells, C17_write_set); the reader returns the value on every archive showing "
         "that layout and those labels (C17_reader_inverts_layout, C17_round_trip_archive; for set vectors of any non-zero length the "
         "normalised value is read back: C17_round_trip_normalises; whatever the reader returns from any archive is a fixed point of "
         "write -> read: C17_reader_output_round_trips) - bit lemmas testbit(compile_flags bs) j = "
         "nth j bs for the 32-bit group words and the 8-bit main mask. Space: a set record is 4*(1 + #non-empty groups + #present slots) "
         "bytes = what the writer allocates, the data region is 12 + 4*257 + the sum over sets, an all-absent group contributes no cell, an "
         "all-absent set costs 4 bytes, and that size is the data-size field of the file image (C17_space_set, C17_space_file, "
         "C17_space_file_bytes, C17_absent_group_omitted, C17_space_empty_set). Byte level "
         "(C17_round_trip_final, no premise): for NUL-free strings (empty allowed), ANY labels - also sets labelled AnimClipNameTable: "
         "the repaired lookup (finding F22, fix 10408e9) returns the lowest address carrying the label, which is the table at 12, for "
         "every order of the label map (C17_table_lookup_order_independent, C17_table_lookup_built, Examples C17_regression_F22_*) - and "
         "image < 2^32, in both arithmetic modes serialize succeeds and parse(bytes) returns the same value (hence, the model being "
         "deterministic, re-serializing whatever is re-read gives the same bytes; that two runs of the real serializer agree is C02's, "
         "observed here by the harness as ser2 = ser); proved from the bin-archive round trip C01 via Proofs/RecsBinBridge.v (C17_round_trip states the same relative to "
         "that round trip as an explicit premise). Model tied to /repo on every run: value -> serialize -> parse -> re-serialize compared "
         "line by line with the extracted model, plus an independent Python decoder of the image and the space formula as oracle.",
    note=TB + "Strings are Shift-JIS encoded byte lists (A-codec: encoding_rs lossless on the generated alphabet is assumed, exercised by "
              "the harness). HashMap iteration order is modelled as an arbitrary list order: the reader theorem holds for every order (obs_equal; the "
              "table lookup is order independent: Proofs/FindLabel.v). Finding F22 (a set labelled AnimClipNameTable was unreadable in "
              "about half of the runs) is repaired in /repo; the generator runs such values 12 times each (fresh hash state per map).",
    technique="Coq proof (cell-list simulation of the writer, layout inversion by the reader, bit lemmas for the flag words; byte level from the "
              "bin-archive round trip C01) + extracted-model differential check + independent decoder/space-formula oracle",
    ref="DESIGN.md section 6 (C17)")
