# Small, tolerant reader of Rust source text for gen/srctables.py (python3 stdlib only).
# Not a Rust parser: comments and string contents are masked, brackets are balanced, and the
# few shapes the translator needs (const/static items, `match` arms, integer/float/string
# literals, constant integer expressions) are recognised.  Everything is anchored on names
# that appear in the source; a missing anchor raises AnchorError with file and reason.
import ast
import os
import re


class AnchorError(Exception):
    pass


INT_SUFFIX = r"(?:_?(?:u8|u16|u32|u64|u128|usize|i8|i16|i32|i64|i128|isize))?"
INT_RE = re.compile(r"(?<![A-Za-z0-9_.])(0x[0-9A-Fa-f_]+|0b[01_]+|0o[0-7_]+|[0-9][0-9_]*)" + INT_SUFFIX + r"(?![A-Za-z0-9_.])")


def parse_int(tok):
    """One Rust integer literal (hex/bin/octal/decimal, `_` separators, type suffix, optional sign)."""
    t = tok.strip()
    neg = False
    if t.startswith("-"):
        neg = True
        t = t[1:].strip()
    m = re.fullmatch(r"(0x[0-9A-Fa-f_]+|0b[01_]+|0o[0-7_]+|[0-9][0-9_]*)" + INT_SUFFIX, t)
    if not m:
        raise AnchorError("not an integer literal: %r" % tok)
    d = m.group(1).replace("_", "")
    if d.startswith("0x"):
        v = int(d[2:], 16)
    elif d.startswith("0b"):
        v = int(d[2:], 2)
    elif d.startswith("0o"):
        v = int(d[2:], 8)
    else:
        v = int(d, 10)
    return -v if neg else v


def parse_float2(tok):
    """A Rust float (or integer) literal, returned DOUBLED as an integer (4.0 -> 8, 0.5 -> 1)."""
    t = tok.strip().replace("_", "")
    t = re.sub(r"(f32|f64)$", "", t)
    try:
        v = float(t)
    except ValueError:
        raise AnchorError("not a float literal: %r" % tok)
    d = v * 2
    if d != int(d):
        raise AnchorError("float literal %r is not a multiple of 0.5" % tok)
    return int(d)


_ALLOWED = (ast.Expression, ast.BinOp, ast.UnaryOp, ast.Constant, ast.Add, ast.Sub, ast.Mult, ast.FloorDiv,
            ast.LShift, ast.RShift, ast.BitOr, ast.BitAnd, ast.BitXor, ast.USub, ast.Mod, ast.Name, ast.Load)


def const_eval(expr, env=None):
    """Value of a constant integer expression (literals, named constants from env, + - * / % << >> | & ^,
    parentheses, `as <type>` casts ignored).  So `0x1000`, `4096`, `1 << 12` and `WINDOW` are the same."""
    env = env or {}
    t = re.sub(r"\bas\s+[a-z0-9]+\b", "", expr)
    t = INT_RE.sub(lambda m: str(parse_int(m.group(0))), t)
    t = t.replace("/", "//")
    try:
        tree = ast.parse(t.strip(), mode="eval")
    except SyntaxError:
        raise AnchorError("not a constant integer expression: %r" % expr)
    for node in ast.walk(tree):
        if not isinstance(node, _ALLOWED):
            raise AnchorError("not a constant integer expression: %r" % expr)
        if isinstance(node, ast.Name) and node.id not in env:
            raise AnchorError("unknown constant %s in %r" % (node.id, expr))
        if isinstance(node, ast.Constant) and not isinstance(node.value, int):
            raise AnchorError("not a constant integer expression: %r" % expr)
    return int(eval(compile(tree, "<const>", "eval"), {"__builtins__": {}}, dict(env)))


def parse_str_lit(tok):
    """A Rust string literal "..." (or char literal '.') -> list of Unicode scalar values."""
    t = tok.strip()
    if len(t) >= 2 and t[0] == '"' and t[-1] == '"':
        body = t[1:-1]
    elif len(t) >= 3 and t[0] == "'" and t[-1] == "'":
        body = t[1:-1]
    else:
        m = re.fullmatch(r'r(#*)"(.*)"\1', t, flags=re.S)
        if m:
            return [ord(c) for c in m.group(2)]
        raise AnchorError("not a string literal: %r" % tok)
    out = []
    i = 0
    while i < len(body):
        c = body[i]
        if c != "\\":
            out.append(ord(c))
            i += 1
            continue
        e = body[i + 1]
        if e == "n":
            out.append(10); i += 2
        elif e == "r":
            out.append(13); i += 2
        elif e == "t":
            out.append(9); i += 2
        elif e == "0":
            out.append(0); i += 2
        elif e in "\\\"'":
            out.append(ord(e)); i += 2
        elif e == "x":
            out.append(int(body[i + 2:i + 4], 16)); i += 4
        elif e == "u":
            j = body.index("}", i)
            out.append(int(body[i + 3:j].replace("_", ""), 16)); i = j + 1
        elif e == "\n":
            i += 2
            while i < len(body) and body[i] in " \t\n\r":
                i += 1
        else:
            raise AnchorError("unknown escape in %r" % tok)
    return out


def _mask(src):
    """(text, mask): text = source with comments blanked; mask = additionally string/char contents blanked.
    Same length as the source, newlines kept, so offsets and line numbers stay valid."""
    n = len(src)
    text = list(src)
    mask = list(src)
    i = 0

    def blank(a, b, both):
        for k in range(a, b):
            if src[k] != "\n":
                mask[k] = " "
                if both:
                    text[k] = " "

    while i < n:
        c = src[i]
        if src.startswith("//", i):
            j = src.find("\n", i)
            j = n if j < 0 else j
            blank(i, j, True)
            i = j
        elif src.startswith("/*", i):
            depth, j = 1, i + 2
            while j < n and depth:
                if src.startswith("/*", j):
                    depth += 1; j += 2
                elif src.startswith("*/", j):
                    depth -= 1; j += 2
                else:
                    j += 1
            blank(i, j, True)
            i = j
        elif c == '"':
            j = i + 1
            while j < n and src[j] != '"':
                j += 2 if src[j] == "\\" else 1
            blank(i + 1, j, False)
            i = j + 1
        elif c == "r" and re.match(r'r#*"', src[i:i + 8]) and (i == 0 or not (src[i - 1].isalnum() or src[i - 1] == "_")):
            m = re.match(r'r(#*)"', src[i:])
            close = '"' + m.group(1)
            j = src.find(close, i + len(m.group(0)))
            j = n if j < 0 else j
            blank(i + len(m.group(0)), j, False)
            i = j + len(close)
        elif c == "'":
            if i + 1 < n and src[i + 1] == "\\":
                j = src.find("'", i + 3)
                blank(i + 1, j, False)
                i = j + 1
            elif i + 2 < n and src[i + 2] == "'":
                blank(i + 1, i + 2, False)
                i += 3
            else:
                i += 1      # lifetime
        else:
            i += 1
    return "".join(text), "".join(mask)


OPEN = {"(": ")", "[": "]", "{": "}"}
CLOSE = {v: k for k, v in OPEN.items()}


class Src:
    def __init__(self, repo, rel):
        self.rel = rel
        self.path = os.path.join(repo, rel)
        try:
            raw = open(self.path, encoding="utf-8").read()
        except OSError as e:
            raise AnchorError("%s: cannot read (%s)" % (rel, e))
        self.text, self.mask = _mask(raw)

    def line(self, pos):
        return self.text.count("\n", 0, pos) + 1

    def where(self, pos):
        return "%s:%d" % (self.rel, self.line(pos))

    def fail(self, what):
        raise AnchorError("%s: %s" % (self.rel, what))

    def search(self, pattern, span=None, in_text=False, what=None, flags=0):
        """First match of the regex inside span (on the mask unless in_text)."""
        s, e = span or (0, len(self.text))
        m = re.compile(pattern, flags).search(self.text if in_text else self.mask, s, e)
        if not m:
            self.fail("anchor not found: %s" % (what or pattern))
        return m

    def finditer(self, pattern, span=None, in_text=False, flags=0):
        s, e = span or (0, len(self.text))
        return list(re.compile(pattern, flags).finditer(self.text if in_text else self.mask, s, e))

    def balanced(self, pos):
        """pos is the offset of an opening bracket in the mask; returns (inner_start, inner_end)."""
        o = self.mask[pos]
        if o not in OPEN:
            self.fail("internal: expected a bracket at offset %d" % pos)
        stack = [o]
        i = pos + 1
        n = len(self.mask)
        while i < n:
            c = self.mask[i]
            if c in OPEN:
                stack.append(c)
            elif c in CLOSE:
                if not stack or stack[-1] != CLOSE[c]:
                    self.fail("unbalanced brackets near line %d" % self.line(i))
                stack.pop()
                if not stack:
                    return pos + 1, i
            i += 1
        self.fail("unbalanced brackets from line %d" % self.line(pos))

    def block_after(self, pos, opener="{", span=None):
        e = span[1] if span else len(self.mask)
        i = self.mask.find(opener, pos, e)
        if i < 0:
            self.fail("no '%s' after line %d" % (opener, self.line(pos)))
        return self.balanced(i)

    def fn_body(self, name, span=None):
        m = self.search(r"\bfn\s+%s\b" % re.escape(name), span, what="fn " + name)
        return self.block_after(m.end(), "{", span)

    def impl_body(self, ty, span=None):
        m = self.search(r"\bimpl(?:\s*<[^>{]*>)?\s+%s\b\s*\{" % re.escape(ty), span, what="impl " + ty)
        return self.balanced(m.end() - 1)

    def impl_for_body(self, trait_re, ty, span=None):
        m = self.search(r"\bimpl(?:\s*<[^>{]*>)?\s+%s\s+for\s+%s\b\s*\{" % (trait_re, re.escape(ty)), span,
                        what="impl %s for %s" % (trait_re, ty))
        return self.balanced(m.end() - 1)

    def enum_variants(self, name):
        """[(variant, explicit discriminant or None)] of `enum name { ... }` in declaration order."""
        m = self.search(r"\benum\s+%s\b\s*\{" % re.escape(name), what="enum " + name)
        s, e = self.balanced(m.end() - 1)
        out = []
        for part in self.split_top(s, e, ","):
            t = self.text[part[0]:part[1]]
            t = re.sub(r"#\[[^\]]*\]", " ", t).strip()
            if not t:
                continue
            mm = re.match(r"([A-Za-z_][A-Za-z0-9_]*)\s*(?:\([^)]*\)|\{[^}]*\})?\s*(?:=\s*(.+))?$", t, flags=re.S)
            if not mm:
                self.fail("enum %s: cannot read variant %r" % (name, t))
            out.append((mm.group(1), const_eval(mm.group(2)) if mm.group(2) else None))
        if not out:
            self.fail("enum %s has no variants" % name)
        return out

    def struct_fields(self, name):
        """[(field, type text)] of `struct name { ... }` in declaration order."""
        m = self.search(r"\bstruct\s+%s\b\s*\{" % re.escape(name), what="struct " + name)
        s, e = self.balanced(m.end() - 1)
        out = []
        for part in self.split_top(s, e, ","):
            t = self.text[part[0]:part[1]]
            t = re.sub(r"#\[[^\]]*\]", " ", t).strip()
            if not t:
                continue
            mm = re.match(r"(?:pub(?:\([^)]*\))?\s+)?([A-Za-z_][A-Za-z0-9_]*)\s*:\s*(.+)$", t, flags=re.S)
            if not mm:
                self.fail("struct %s: cannot read field %r" % (name, t))
            out.append((mm.group(1), re.sub(r"\s+", "", mm.group(2))))
        return out

    def split_top(self, s, e, sep):
        """Split [s,e) at top-level occurrences of sep (brackets balanced on the mask; `<`/`>` are not brackets).
        Returns list of (start, end)."""
        parts = []
        depth = 0
        a = s
        i = s
        L = len(sep)
        while i < e:
            c = self.mask[i]
            if c in OPEN:
                depth += 1
            elif c in CLOSE:
                depth -= 1
            elif depth == 0 and self.mask.startswith(sep, i):
                # `|` must not split `||`, `|=`
                if sep == "|" and (self.mask[i + 1:i + 2] in ("|", "=") or self.mask[i - 1:i] == "|"):
                    i += 1
                    continue
                parts.append((a, i))
                a = i + L
                i += L
                continue
            i += 1
        parts.append((a, e))
        return parts

    def items(self, s, e):
        """Top-level comma separated items of [s,e) as stripped text (empty trailing item dropped)."""
        out = []
        for a, b in self.split_top(s, e, ","):
            t = self.text[a:b].strip()
            if t:
                out.append(t)
        return out

    def const_item(self, name, span=None):
        """Right-hand side text span of `const NAME: T = <rhs>;` or `static NAME: T = <rhs>;`."""
        m = self.search(r"\b(?:const|static)\s+%s\s*:[^=;]*=" % re.escape(name), span, what="const/static " + name)
        depth = 0
        i = m.end()
        while i < len(self.mask):
            c = self.mask[i]
            if c in OPEN:
                depth += 1
            elif c in CLOSE:
                depth -= 1
            elif c == ";" and depth == 0:
                return m.end(), i, m.start()
            i += 1
        self.fail("const %s: no terminating ';'" % name)

    def const_int(self, name, env=None):
        s, e, p = self.const_item(name)
        return const_eval(self.text[s:e], env), self.where(p)

    def array_items(self, s, e):
        """Items of the first [...] (after optional `&`, `vec!`) inside [s,e)."""
        i = self.mask.find("[", s, e)
        if i < 0:
            self.fail("no array literal near line %d" % self.line(s))
        a, b = self.balanced(i)
        return self.items(a, b), (a, b)

    def match_after(self, pattern, span=None, what=None):
        """Arms of the first `match <pattern> {` inside span."""
        m = self.search(r"\bmatch\s+%s\s*\{" % pattern, span, what=what or ("match " + pattern))
        s, e = self.balanced(m.end() - 1)
        return self.match_arms(s, e), m.start()

    def match_arms(self, s, e):
        """[(pattern text, expression text, offset)] of a match body."""
        arms = []
        i = s
        while True:
            while i < e and self.mask[i] in " \t\r\n,":
                i += 1
            if i >= e:
                break
            depth = 0
            j = i
            while j < e:
                c = self.mask[j]
                if c in OPEN:
                    depth += 1
                elif c in CLOSE:
                    depth -= 1
                elif depth == 0 and self.mask.startswith("=>", j):
                    break
                j += 1
            if j >= e:
                self.fail("match arm without '=>' near line %d" % self.line(i))
            pat = self.text[i:j].strip()
            k = j + 2
            while k < e and self.mask[k] in " \t\r\n":
                k += 1
            if k < e and self.mask[k] == "{":
                a, b = self.balanced(k)
                # `{ ... }` may be followed by more of the expression only in odd code; take the block
                expr = self.text[k:b + 1]
                k2 = b + 1
            else:
                depth = 0
                k2 = k
                while k2 < e:
                    c = self.mask[k2]
                    if c in OPEN:
                        depth += 1
                    elif c in CLOSE:
                        depth -= 1
                    elif c == "," and depth == 0:
                        break
                    k2 += 1
                expr = self.text[k:k2]
            arms.append((pat, expr.strip(), i))
            i = k2
        if not arms:
            self.fail("empty match near line %d" % self.line(s))
        return arms


def split_alternatives(pat):
    """`A | B | 2..=5` -> ['A', 'B', '2..=5'] (a leading `|` is allowed; an `if` guard is refused)."""
    if re.search(r"\bif\b", pat):
        raise AnchorError("match guard not supported: %r" % pat)
    return [p.strip() for p in pat.split("|") if p.strip()]


def int_pattern_values(alt, env=None):
    """Values an integer pattern alternative covers: literal, `a..=b`, `a..b`.  None for `_`/binding."""
    alt = alt.strip()
    if alt == "_" or re.fullmatch(r"[a-z_][a-z0-9_]*", alt):
        return None
    m = re.fullmatch(r"(.+?)\.\.(=?)(.+)", alt)
    if m:
        lo, hi = const_eval(m.group(1), env), const_eval(m.group(3), env)
        return list(range(lo, hi + 1 if m.group(2) else hi))
    return [const_eval(alt, env)]


def path_tail(alt):
    """`Language::Spanish`, `&Game::FE9`, `PathLocalizer::FE9(p)` -> 'Spanish' / 'FE9'; `_` -> None."""
    alt = alt.strip().lstrip("&").strip()
    if alt == "_":
        return None
    m = re.fullmatch(r"(?:[A-Za-z_][A-Za-z0-9_]*::)*([A-Za-z_][A-Za-z0-9_]*)\s*(?:\(.*\)|\{.*\})?", alt, flags=re.S)
    if not m:
        raise AnchorError("cannot read pattern %r" % alt)
    return m.group(1)


def expand_enum_match(arms, variants, what):
    """{variant: expr} for a match over an enum: explicit arms first, `_` covers the variants not named."""
    out = {}
    default = None
    for pat, expr, _ in arms:
        for alt in split_alternatives(pat):
            v = path_tail(alt)
            if v is None:
                if default is None:
                    default = expr
            elif v in variants:
                out.setdefault(v, expr)
            else:
                raise AnchorError("%s: pattern %r names no known variant" % (what, alt))
    for v in variants:
        if v not in out:
            if default is None:
                raise AnchorError("%s: variant %s is not covered" % (what, v))
            out[v] = default
    return out


def expand_int_match(arms, env=None):
    """({value: expr}, default expr or None) of a match over integers."""
    out = {}
    default = None
    for pat, expr, _ in arms:
        for alt in split_alternatives(pat):
            vals = int_pattern_values(alt, env)
            if vals is None:
                if default is None:
                    default = expr
            else:
                for v in vals:
                    out.setdefault(v, expr)
    return out, default
