# Sort keys of label names for the MODEL side of the correspondence (Model/BinFormat.v name_key).
#
# BinArchive::serialize orders the label table of a BIG-ENDIAN archive by the names as Rust Strings, i.e. by the Unicode
# scalar values of the decoded names; the model holds Shift-JIS encoded names and takes the key function as a parameter.
# The case line therefore carries, for every non-ASCII name a big-endian archive of the case can hold, the scalars the
# LIBRARY'S OWN decoder assigns (harness kind sjdec through txtfile.DECODER), as a trailing token group
#       K <n> B<name> L<scalars> ...            (n pairs)
# which the model driver turns into the key function (coq/Extract/drv/dcommon.ml; names without an entry - ASCII - are
# their own key) and the harness drops (harness/src/main.rs).  common.Case adds the group to every case line
# (generated, corpus, shrink candidates, replays), so no generator restricts big-endian names any more.
import struct


def _decoder():
    import txtfile
    return txtfile.DECODER


def key_of(name):
    """the sequence the library compares for this encoded name: scalars of the decoded String"""
    name = bytes(name)
    if all(x < 0x80 for x in name):
        return list(name)
    tok, _ = _decoder().dec(name)
    body = tok[1:]
    return [int(x) for x in body.split(",")] if body else []


def bucket_key(names):
    """Vec<String> comparison key of a label bucket"""
    return [key_of(n) for n in names]


def strip_toks(toks):
    """the tokens of a case line without the key group"""
    if "K" in toks:
        return toks[:toks.index("K")]
    return toks


def strip(line):
    return " ".join(strip_toks(line.split(" ")))


def file_label_names(endian, f):
    """label names BinArchive::from_bytes can read from a (possibly malformed) file image"""
    f = bytes(f)
    if len(f) < 32:
        return []
    e = "<" if endian == "L" else ">"
    dsz, pc, lc = struct.unpack(e + "III", f[4:16])
    tstart = dsz + 4 * pc + 8 * lc
    pos = 32 + dsz + 4 * pc
    out = []
    for _ in range(min(lc, len(f) // 8 + 1)):
        if pos + 8 > len(f):
            break
        _addr, off = struct.unpack(e + "II", f[pos:pos + 8])
        at = tstart + off + 32
        if at < len(f):
            z = f.find(b"\0", at)
            if z >= 0:
                out.append(f[at:z])
        pos += 8
    return out


def _unB(tok):
    return bytes.fromhex(tok[1:])


def _is_B(tok):
    return tok[:1] == "B"


def harvest(toks):
    """encoded label names that a big-endian archive of this case may hold"""
    kind = toks[0]
    names = []
    try:
        if kind == "ba" and toks[1] == "B":
            i = 3
            while i < len(toks):
                t = toks[i]
                if t == "wl" and i + 2 < len(toks) and _is_B(toks[i + 2]):
                    names.append(_unB(toks[i + 2]))
                elif t == "Wwl" and i + 1 < len(toks) and _is_B(toks[i + 1]):
                    names.append(_unB(toks[i + 1]))
                elif t == "wls" and i + 2 < len(toks):
                    cnt = int(toks[i + 2])
                    names += [_unB(x) for x in toks[i + 3:i + 3 + cnt] if _is_B(x)]
                elif t == "from" and i + 1 < len(toks) and _is_B(toks[i + 1]):
                    names += file_label_names("B", _unB(toks[i + 1]))
                i += 1
        elif kind == "bafrom" and toks[1] == "B":
            names += file_label_names("B", _unB(toks[2]))
        elif kind == "txt" and toks[2] == "B":
            n = int(toks[4])
            names += [_unB(toks[5 + 2 * i]) for i in range(n)]
        elif kind == "txtf" and toks[2] == "B":
            names += file_label_names("B", _unB(toks[3]))
        elif kind == "txta" and toks[2] == "B":
            n = int(toks[4])
            names += [_unB(toks[6 + 2 * i]) for i in range(n)]
        elif kind == "typedfs":
            for i, t in enumerate(toks):
                if t == "WA" and toks[i + 3] == "be":
                    names += file_label_names("B", _unB(toks[i + 4]))
                elif t == "WT" and toks[i + 4] == "be":
                    names += file_label_names("B", _unB(toks[i + 5]))
    except (IndexError, ValueError, struct.error):
        pass
    seen, out = set(), []
    for n in names:
        if n not in seen and any(x >= 0x80 for x in n):
            seen.add(n)
            out.append(n)
    return out


KINDS = ("ba", "bafrom", "txt", "txtf", "txta", "typedfs")


def with_keys(line):
    """the case line with a fresh key group (idempotent); unchanged for kinds without big-endian bin archives"""
    sp = line.find(" ")
    if (line[:sp] if sp > 0 else line) not in KINDS:
        return line
    toks = strip_toks([t for t in line.split(" ") if t != ""])
    names = harvest(toks)
    if not names:
        return " ".join(toks)
    group = ["K", str(len(names))]
    for n in names:
        group += ["B" + n.hex(), "L" + ",".join(str(x) for x in key_of(n))]
    return " ".join(toks + group)
