# C07: generator and oracle for the in-memory TextArchive API.
import itertools
from common import PropertyCheck, Case
import c06   # histories observed through serialize -> from_bytes (kind txth, the C06/C07 link)

BS, LN, NL, X = 92, 110, 10, 120


def L(s):
    return "L" + ",".join(str(c) for c in s)


def parse_L(tok):
    b = tok[1:]
    return tuple(int(x) for x in b.split(",")) if b else ()


def unescape(s):
    out = []
    i = 0
    while i < len(s):
        if i + 1 < len(s) and s[i] == BS and s[i + 1] == LN:
            out.append(NL)
            i += 2
        else:
            out.append(s[i])
            i += 1
    return tuple(out)


def escape(s):
    out = []
    for c in s:
        if c == NL:
            out += [BS, LN]
        else:
            out.append(c)
    return tuple(out)


def parse_ops(line):
    toks = line.split()[1:]
    ops = []
    i = 0
    while i < len(toks):
        t = toks[i]
        if t == "S":
            ops.append(("S", parse_L(toks[i + 1]), parse_L(toks[i + 2])))
            i += 3
        elif t == "N":
            ops.append(("N", parse_L(toks[i + 1]), parse_L(toks[i + 2]), parse_L(toks[i + 3])))
            i += 4
        else:
            ops.append((t, parse_L(toks[i + 1])))
            i += 2
    return ops


def render(ops):
    parts = ["c07"]
    for o in ops:
        parts.append(o[0])
        for a in o[1:]:
            parts.append(L(a))
    return " ".join(parts)


def spec_run(ops):
    """The property's own words, executable: ordered list of alive keys by birth, last value."""
    keys = []      # alive keys in order of (re-)insertion
    val = {}
    title = ()
    dirty = False
    steps = []
    for o in ops:
        out = "-"
        if o[0] in ("S", "N"):
            k, m = (o[1], unescape(o[2])) if o[0] == "S" else (o[2], unescape(o[3]))     # N = the same set <count> times
            if o[0] == "N" and o[1][0] == 0:
                es = " ".join("%s=%s" % (L(k2), L(val[k2])) for k2 in keys)
                steps.append("- %s %s [%s]" % ("d1" if dirty else "d0", L(title), es))
                continue
            if k not in val:
                keys.append(k)
            val[k] = m
            dirty = True
        elif o[0] == "D":
            k = o[1]
            if k in val:
                del val[k]
                keys.remove(k)
        elif o[0] == "T":
            title = o[1]
        elif o[0] == "H":
            out = "true" if o[1] in val else "false"
        elif o[0] == "G":
            out = ("some:" + L(escape(val[o[1]]))) if o[1] in val else "none"
        elif o[0] == "R":
            # get, then store the looked-up message back: must change nothing but the dirty flag
            k = o[1]
            if k in val:
                out = "some:" + L(escape(val[k]))
                dirty = True
            else:
                out = "none"
        es = " ".join("%s=%s" % (L(k), L(val[k])) for k in keys)
        steps.append("%s %s %s [%s]" % (out, "d1" if dirty else "d0", L(title), es))
    return " ; ".join(steps)


class C07(PropertyCheck):
    pid = "C07"
    rule = ("streams: exhaustive histories over {set,delete,has,get,restore} x small key/message alphabets; every message over "
            "{backslash,n,newline,x} up to a length bound through set/get/store-back; random long histories over a wider key "
            "alphabet. Non-trivial = the history contains a set and at least one later operation on a present key; distinct = distinct case line.")
    assumptions = ["A-std: IndexMap::entry/shift_remove and str::replace behave as documented (observed only through the correspondence)",
                   "strings are modelled as lists of Unicode scalar values"]

    def generate(self, rng, tier):
        cases = []
        ka, kb, kc = (97,), (98,), (99,)
        msgs = [(), (BS, LN), (NL, X)]
        full = [("S", k, m) for k in (ka, kb, kc) for m in msgs] + [(t, k) for t in "DHG" for k in (ka, kb, kc)]
        red = [("S", k, m) for k in (ka, kb) for m in ((X,), (BS, LN))] + [(t, k) for t in "DR" for k in (ka, kb)]
        lf, lr = (3, 5) if tier == "quick" else (4, 6)
        for n in range(1, lf + 1):
            for h in itertools.product(full, repeat=n):
                cases.append(Case(render(h), "exhaustive-full-alphabet"))
        for n in range(lf + 1, lr + 1):
            for h in itertools.product(red, repeat=n):
                cases.append(Case(render(h), "exhaustive-reduced-alphabet"))
        ml = 6 if tier == "quick" else 7
        for n in range(0, ml + 1):
            for m in itertools.product((BS, LN, NL, X), repeat=n):
                cases.append(Case(render([("S", ka, m), ("G", ka), ("R", ka), ("G", ka)]), "all-messages"))
        # carriage returns are ordinary characters: only backslash+n is rewritten (seeded change C07-8 folded CR LF into LF in set_message)
        for n in range(1, ml + 1):
            for m in itertools.product((BS, LN, NL, 13), repeat=n):
                if 13 in m:
                    cases.append(Case(render([("S", ka, m), ("G", ka), ("R", ka), ("G", ka)]), "all-messages-cr"))
        keys = [(), (97,), (97, 98), (98,), (0x3042,), (0x1F600,), (92, 110), (10,), (97, 0x301)]
        nh, maxlen = (120, 80) if tier == "quick" else (400, 300)
        for _ in range(nh):
            n = rng.randint(1, maxlen)
            h = []
            for _ in range(n):
                k = rng.choice(keys)
                r = rng.random()
                if r < 0.45:
                    m = tuple(rng.choice((BS, LN, NL, X, BS, 0x3042, 0x1F600, 13)) for _ in range(rng.randint(0, 8)))
                    h.append(("S", k, m))
                elif r < 0.65:
                    h.append(("D", k))
                elif r < 0.75:
                    h.append(("H", k))
                elif r < 0.85:
                    h.append(("G", k))
                elif r < 0.95:
                    h.append(("R", k))
                else:
                    h.append(("T", tuple(rng.choice((65, 66, 0x3042)) for _ in range(rng.randint(0, 4)))))
            cases.append(Case(render(h), "random-history"))
        # two different texts with the same 64-bit FxHash (the crate's own cheap hasher, gen/fxpairs.py): a cache stamped with length +
        # hash instead of the text itself hands back the older one (seeded change C07-10); as messages of one key and as keys
        import fxpairs
        for (x, y) in fxpairs.ALL_PAIRS:
            for (u, v) in ((x, y), (y, x), (x + b"_cl0n", y + b"_cl0n")):
                mu, mv = tuple(u), tuple(v)
                cases.append(Case(render([("S", ka, mu), ("G", ka), ("S", ka, mv), ("G", ka), ("R", ka), ("G", ka)]), "fingerprint-collision"))
                cases.append(Case(render([("S", ka, mu), ("G", ka), ("D", ka), ("S", ka, mv), ("G", ka)]), "fingerprint-collision"))
                cases.append(Case(render([("S", mu, (X,)), ("S", mv, (BS, LN)), ("G", mu), ("G", mv), ("D", mu), ("H", mv), ("G", mv)]), "fingerprint-collision"))
        # very long histories of the same call: the dirty flag is set after ANY set - also the 65536th (seeded change C07-6 counted edits in a u16)
        for n in (1, 255, 256, 65535, 65536, 65537, 131072):
            cases.append(Case(render([("N", (n,), ka, (X,)), ("H", ka)]), "long-repetition"))
            cases.append(Case(render([("S", kb, ()), ("N", (n,), kb, (BS, LN)), ("G", kb)]), "long-repetition"))
        # "serialized order" (observe_at of the property): after a history, serialize -> from_bytes must list exactly the surviving
        # keys in order of first insertion with the last value set - also when several keys hold the SAME text (seeded change C07-3
        # pooled equal messages in serialize and lost the later key); few distinct messages on purpose
        pool = [[], [97], [0x5C, 0x6E], [97, 98], [0x0A], [13, 0x5C, 0x6E], [13, 10]]
        for _ in range(150 if tier == "quick" else 1500):
            f = "U" if rng.random() < 0.7 else "S"
            ks = rng.sample(c06.H_KEYS, rng.choice([2, 3, 5]))
            ops = []
            for _ in range(rng.randint(2, 12)):
                r, k = rng.random(), rng.choice(ks)
                if r < 0.6:
                    ops.append(("S", k, rng.choice(pool)))
                elif r < 0.80:
                    ops.append(("D", k))
                elif r < 0.92:
                    ops.append(("Z",))       # serialize in mid-history on the SAME object, image discarded (seeded change C07-7: stale memo after delete)
                else:
                    ops.append(("T", [84]))
            cases.append(Case(c06.render_hist(f, rng.choice("LB"), ops), "serialized-order"))
        return cases

    def nontrivial(self, case, impl_out):
        if case.line.startswith("txth "):
            return len(c06.hist_expected(c06.parse_hist(case.line)[2])[1]) >= 2
        ops = [(("S", o[2], o[3]) if o[0] == "N" else o) for o in parse_ops(case.line)]
        alive = set()
        for o in ops:
            if o[0] != "S" and o[0] != "T" and o[1] in alive:
                return True
            if o[0] == "S":
                if o[1] in alive:
                    return True
                alive.add(o[1])
            if o[0] == "D":
                alive.discard(o[1])
        return False

    def oracle(self, case, impl_out, profile):
        if case.line.startswith("txth "):
            return c06.C06().oracle_history(case, impl_out)
        want = spec_run(parse_ops(case.line))
        if impl_out != want:
            return "implementation state differs from the insertion-ordered-map specification: want %r got %r" % (want[:300], impl_out[:300])
        return None

    def shrink_candidates(self, case):
        if case.line.startswith("txth "):
            yield from c06.C06().shrink_candidates(case)
            return
        ops = parse_ops(case.line)
        for i in range(len(ops)):
            yield Case(render(ops[:i] + ops[i + 1:]), case.stream)
        for i, o in enumerate(ops):
            if o[0] == "S" and len(o[2]) > 0:
                for j in range(len(o[2])):
                    yield Case(render(ops[:i] + [("S", o[1], o[2][:j] + o[2][j + 1:])] + ops[i + 1:]), case.stream)


TB = ("Trusted: Coq 8.16.1 kernel (vm_compute, no native_compute), no axioms (Print Assumptions audited on every run), "
      "ExtrOcamlBasic extraction + hand-written OCaml driver, the Rust harness and Python generators/oracles. ")

MANIFEST = dict(
    text="Theorems about an executable Gallina model of TextArchive's in-memory API (step laws, NoDup keys, lookup = last write, "
         "keys in strict birth order, escape/unescape inverse on stored messages, store-back is the identity, dirty flag), all closed under "
         "the global context; the model is tied to /repo on every run by running the extracted model and the real library on the same "
         "histories (bounded-exhaustive + random) and comparing the full observable state after every call; an independent executable "
         "statement of the property is evaluated on the implementation's outputs as oracle.",
    note=TB + "Modelled, not verified: IndexMap, str::replace (A-std); strings as lists of scalar values.",
    technique="Coq proof (induction over histories, refinement to ordered key list) + extracted-model differential check",
    ref="DESIGN.md section 3 (C07)")
