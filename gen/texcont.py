# Reference WRITERS of the four texture containers (C20) with placement knobs -- written from the published
# layouts (see coq/Model/TexFormat.v for the tables), independently of mila's readers and of the Coq models.
# A texture is a dict(name=bytes (encoded), w=, h=, fmt=, data=bytes, pal=bytes).
# Every writer returns (file bytes, extents) where extents = [(offset, length)] of every texture payload
# (TPL: image data and palette data) as the file's own tables locate them.
import struct


class Placer:
    """Lays chunks out one after the other in a chosen order, with optional alignment, junk gaps, shared
    storage for equal contents and names stored as the tail of a longer name."""

    def __init__(self, rng, start, knobs):
        self.rng = rng
        self.pos = start
        self.knobs = knobs
        self.buf = {}          # offset -> bytes
        self.by_content = {}   # content -> offset (shared storage)
        self.names = []        # (offset, bytes incl. NUL)
        self.far = knobs.get("far", 0)   # one junk gap of this many bytes somewhere: offsets beyond 16 bits

    def gap(self):
        if self.far and self.rng.random() < 0.4:
            self.buf[self.pos] = bytes(self.rng.getrandbits(8) for _ in range(64)) * (self.far // 64)
            self.pos += 64 * (self.far // 64)
            self.far = 0
        if self.knobs.get("gaps") and self.rng.random() < 0.6:
            n = self.rng.randrange(1, 12)
            self.buf[self.pos] = bytes(self.rng.randrange(256) for _ in range(n))
            self.pos += n
        a = self.knobs.get("align", 1)
        if a > 1 and self.pos % a:
            n = a - self.pos % a
            self.buf[self.pos] = bytes(self.rng.randrange(256) for _ in range(n)) if self.knobs.get("gaps") else bytes(n)
            self.pos += n

    def reserve(self, size):
        """room for a table that is filled in later"""
        self.gap()
        off = self.pos
        self.pos += size
        return off

    def put(self, content, share=False):
        if share and self.knobs.get("share") and content in self.by_content and len(content) > 0:
            return self.by_content[content]
        self.gap()
        off = self.pos
        self.buf[off] = content
        self.pos += len(content)
        self.by_content.setdefault(content, off)
        return off

    def put_name(self, name, min_off=0):
        z = name + b"\0"
        if self.knobs.get("share"):
            for (o, stored) in self.names:
                if stored.endswith(z) and o + len(stored) - len(z) >= min_off:
                    return o + len(stored) - len(z)
        self.gap()
        off = self.pos
        self.buf[off] = z
        self.pos += len(z)
        self.names.append((off, z))
        return off

    def image(self, fixed):
        """fixed: dict offset -> bytes written last (tables)"""
        tail = self.rng.randrange(0, 9) if self.knobs.get("tail") else 0
        total = self.pos + tail
        out = bytearray(self.rng.randrange(256) for _ in range(total)) if self.knobs.get("gaps") or tail else bytearray(total)
        for off, b in self.buf.items():
            out[off:off + len(b)] = b
        for off, b in fixed.items():
            out[off:off + len(b)] = b
        return bytes(out)


def order_of(rng, items, knobs):
    items = list(items)
    if knobs.get("permute"):
        rng.shuffle(items)
    return items


def junk32(rng, knobs):
    return rng.getrandbits(32) if knobs.get("junk_fields") else 0


# ------------------------------------------------------------------------------------------------ CTPK
def write_ctpk(texs, rng, **knobs):
    n = len(texs)
    pl = Placer(rng, 32 + 32 * n, knobs)
    name_off = [None] * n
    data_off = [None] * n
    jobs = [("n", i) for i in range(n)] + [("d", i) for i in range(n)]
    if knobs.get("names_last"):
        jobs = order_of(rng, [j for j in jobs if j[0] == "d"], knobs) + order_of(rng, [j for j in jobs if j[0] == "n"], knobs)
    else:
        jobs = order_of(rng, jobs, knobs)
    for (k, i) in jobs:
        if k == "n":
            name_off[i] = pl.put_name(texs[i]["name"])
        else:
            data_off[i] = pl.put(texs[i]["data"], share=True)
    lo = min(data_off) if n else pl.pos
    base = knobs.get("base", "min")
    tsec = lo if base == "min" else (0 if base == "zero" else rng.randrange(0, lo + 1))
    hdr = struct.pack("<IHHIIII", 0x4B505443, 1, n, tsec, sum(len(t["data"]) for t in texs), junk32(rng, knobs), junk32(rng, knobs))
    hdr += struct.pack("<II", junk32(rng, knobs), junk32(rng, knobs))
    fixed = {0: hdr}
    for i, t in enumerate(texs):
        rec = struct.pack("<IIIIHHBBHII", name_off[i], len(t["data"]), data_off[i] - tsec, t["fmt"], t["w"], t["h"],
                          1, rng.randrange(256) if knobs.get("junk_fields") else 0, junk32(rng, knobs) & 0xFFFF,
                          junk32(rng, knobs), junk32(rng, knobs))
        fixed[32 + 32 * i] = rec
    return pl.image(fixed), [(data_off[i], len(texs[i]["data"])) for i in range(n)]


# ------------------------------------------------------------------------------------------------ BCH
def write_bch(texs, rng, **knobs):
    n = len(texs)
    bc = knobs.get("bc", 0x21)
    ext = 8 if bc > 0x20 else 0
    hlen = 56 + ext
    pl = Placer(rng, hlen, knobs)
    jobs = [("contents", 0), ("table", 0)] + [(k, i) for i in range(n) for k in ("rec", "cmd", "n", "d")]
    if knobs.get("names_last"):
        jobs = order_of(rng, [j for j in jobs if j[0] != "n"], knobs) + order_of(rng, [j for j in jobs if j[0] == "n"], knobs)
    else:
        jobs = order_of(rng, jobs, knobs)
    # the contents header must not lie behind the things addressed relative to it (table, records)
    jobs.remove(("contents", 0))
    first = min(ix for ix, j in enumerate(jobs) if j[0] in ("table", "rec"))
    jobs.insert(first, ("contents", 0))
    off = {}
    for (k, i) in jobs:
        if k == "contents":
            off[(k, i)] = pl.reserve(0x30)
        elif k == "table":
            off[(k, i)] = pl.reserve(4 * n)
        elif k == "rec":
            off[(k, i)] = pl.reserve(32)
        elif k == "cmd":
            off[(k, i)] = pl.reserve(28)
        elif k == "n":
            off[(k, i)] = pl.put_name(texs[i]["name"])
        else:
            off[(k, i)] = pl.put(texs[i]["data"], share=True)
    base = knobs.get("base", "min")

    def pick(lo):
        return lo if base == "min" else (0 if base == "zero" else rng.randrange(0, lo + 1))
    ca = off[("contents", 0)]
    sa = pick(min([off[("n", i)] for i in range(n)] + [pl.pos]))
    cma = pick(min([off[("cmd", i)] for i in range(n)] + [pl.pos]))
    ra = pick(min([off[("d", i)] for i in range(n)] + [pl.pos]))
    toff = off[("table", 0)] - ca
    words = [ca, sa, cma, ra]
    if ext:
        words.append(junk32(rng, knobs))
    words.append(junk32(rng, knobs))                         # relocation address
    words += [junk32(rng, knobs) for _ in range(4)]          # contents / strings / commands / raw data lengths
    if ext:
        words.append(junk32(rng, knobs))
    words += [junk32(rng, knobs) for _ in range(3)]          # relocation length, two uninitialised lengths
    hdr = struct.pack("<IBBH", 0x00484342, bc, rng.randrange(256) if knobs.get("junk_fields") else bc, 0xA000 + (junk32(rng, knobs) & 0xFFF))
    hdr += b"".join(struct.pack("<I", w) for w in words)
    assert len(hdr) == hlen
    fixed = {0: hdr}
    contents = bytearray(struct.pack("<I", junk32(rng, knobs)) * 12)
    contents[0x24:0x28] = struct.pack("<I", toff)
    contents[0x28:0x2C] = struct.pack("<I", n)
    fixed[ca] = bytes(contents)
    table = b"".join(struct.pack("<I", off[("rec", i)] - ca) for i in range(n))
    if n:
        fixed[off[("table", 0)]] = table
    for i, t in enumerate(texs):
        rec = bytearray(struct.pack("<I", junk32(rng, knobs)) * 8)
        rec[0:4] = struct.pack("<I", off[("cmd", i)] - cma)
        rec[28:32] = struct.pack("<I", off[("n", i)] - sa)
        fixed[off[("rec", i)]] = bytes(rec)
        cmd = bytearray(struct.pack("<I", junk32(rng, knobs)) * 7)
        cmd[0:4] = struct.pack("<HH", t["h"], t["w"])
        cmd[16:20] = struct.pack("<I", off[("d", i)] - ra)
        cmd[24:28] = struct.pack("<I", t["fmt"])
        fixed[off[("cmd", i)]] = bytes(cmd)
    return pl.image(fixed), [(off[("d", i)], len(texs[i]["data"])) for i in range(n)]


# ------------------------------------------------------------------------------------------------ CGFX
def write_cgfx(texs, rng, **knobs):
    """knob backward: TXOBs, names and payloads may lie in FRONT of the field that refers to them (and of the
    dictionary); the self-relative offset is then "negative" (two's complement, position + offset modulo 2^32)"""
    n = len(texs)
    back = knobs.get("backward")
    pl = Placer(rng, 0x9C, knobs)
    jobs = [("txob", i) for i in range(n)]
    rest = [(k, i) for i in range(n) for k in ("n", "d")] + ([("dn", i) for i in range(n)] if knobs.get("two_names") else [])
    off = {}
    if back:
        order = [("dict", 0)] + jobs + rest
        rng.shuffle(order)
    elif knobs.get("permute"):
        # forward references only: a TXOB before its name and payload, the dictionary before everything
        pending = list(jobs) + rest
        rng.shuffle(pending)
        done = set()
        order = [("dict", 0)]
        while pending:
            for j in list(pending):
                if j[0] == "txob" or ("txob", j[1]) in done or j[0] == "dn":
                    order.append(j)
                    done.add(j)
                    pending.remove(j)
                    break
    else:
        order = [("dict", 0)] + jobs + rest
    if knobs.get("names_last"):
        order = [j for j in order if j[0] not in ("n", "dn")] + [j for j in order if j[0] in ("n", "dn")]
    d = None
    for (k, i) in order:
        if k == "dict":
            d = pl.reserve(28 + 16 * n)
        elif k == "txob":
            off[(k, i)] = pl.reserve(76)
        elif k in ("n", "dn"):
            if k == "dn":
                off[(k, i)] = pl.put_name(texs[i]["name"], 0 if back else d + 28 + 16 * i + 8)
            elif not knobs.get("two_names"):
                off[(k, i)] = pl.put_name(texs[i]["name"], 0 if back else off[("txob", i)] + 12)
            else:
                # a private copy for the TXOB
                pl.gap()
                off[(k, i)] = pl.pos
                pl.buf[pl.pos] = texs[i]["name"] + b"\0"
                pl.pos += len(texs[i]["name"]) + 1
        else:
            off[(k, i)] = pl.put(texs[i]["data"], share=bool(back))

    def rel(target, field):
        assert back or target >= field
        return (target - field) & 0xFFFFFFFF
    hdr = struct.pack("<IHHIII", 0x58464743, 0xFEFF, 0x14, 0x05000000, 0, 1)
    data = bytearray(struct.pack("<II", 0x41544144, 0))
    for j in range(16):
        if j == 1:
            data += struct.pack("<II", n, rel(d, 0x20 + 8 * j))
        else:
            # an empty dictionary (offset 0) or, with junk, any offset (only entry 1 is ever followed)
            v = 0
            if knobs.get("junk_fields") and rng.random() < 0.5:
                v = rng.getrandbits(32) if rng.random() < 0.5 else rng.randrange(0, max(1, pl.pos - (0x20 + 8 * j)))
            data += struct.pack("<II", junk32(rng, knobs) if v else 0, v)
    fixed = {0: hdr, 0x14: bytes(data)}
    dic = bytearray(struct.pack("<III", 0x54434944, 28 + 16 * n, n))
    dic += struct.pack("<IHHII", 0xFFFFFFFF, 1 if n else 0, 0, junk32(rng, knobs) & 0xFFFF, junk32(rng, knobs) & 0xFFFF)
    for i in range(n):
        r = d + 28 + 16 * i
        nm = off[("dn", i)] if knobs.get("two_names") else off[("n", i)]
        dic += struct.pack("<IHHII", junk32(rng, knobs), i, (i + 1) % max(n, 1), rel(nm, r + 8), rel(off[("txob", i)], r + 12))
    fixed[d] = bytes(dic)
    for i, t in enumerate(texs):
        o = off[("txob", i)]
        tx = bytearray(struct.pack("<I", junk32(rng, knobs)) * 19)
        tx[0:4] = struct.pack("<I", 0x20000011)
        tx[4:8] = struct.pack("<I", 0x424F5854)
        tx[12:16] = struct.pack("<I", rel(off[("n", i)], o + 12))
        tx[24:28] = struct.pack("<I", t["h"])
        tx[28:32] = struct.pack("<I", t["w"])
        tx[40:44] = struct.pack("<I", 1)
        tx[52:56] = struct.pack("<I", t["fmt"])
        tx[68:72] = struct.pack("<I", len(t["data"]))
        tx[72:76] = struct.pack("<I", rel(off[("d", i)], o + 72))
        fixed[o] = bytes(tx)
    img = bytearray(pl.image(fixed))
    img[12:16] = struct.pack("<I", len(img))
    return bytes(img), [(off[("d", i)], len(texs[i]["data"])) for i in range(n)]


# ------------------------------------------------------------------------------------------------ TPL
def write_tpl(texs, rng, **knobs):
    n = len(texs)
    pl = Placer(rng, 12, knobs)
    jobs = [("table", 0)] + [(k, i) for i in range(n) for k in ("ih", "ph", "d", "p")]
    jobs = order_of(rng, jobs, knobs)
    off = {}
    for (k, i) in jobs:
        if k == "table":
            off[(k, i)] = pl.reserve(8 * n)
        elif k == "ih":
            off[(k, i)] = pl.reserve(36)
        elif k == "ph":
            off[(k, i)] = pl.reserve(12)
        elif k == "d":
            off[(k, i)] = pl.put(texs[i]["data"], share=True)
        else:
            off[(k, i)] = pl.put(texs[i]["pal"], share=True)
    fixed = {0: struct.pack(">III", 0x0020AF30, n, off[("table", 0)])}
    if n:
        fixed[off[("table", 0)]] = b"".join(struct.pack(">II", off[("ih", i)], off[("ph", i)]) for i in range(n))
    for i, t in enumerate(texs):
        ih = struct.pack(">HHII", t["h"], t["w"], 9, off[("d", i)])
        ih += b"".join(struct.pack(">I", junk32(rng, knobs)) for _ in range(6))
        fixed[off[("ih", i)]] = ih
        fixed[off[("ph", i)]] = struct.pack(">HBBII", len(t["pal"]) // 2, rng.randrange(256) if knobs.get("junk_fields") else 0,
                                            rng.randrange(256) if knobs.get("junk_fields") else 0, 2, off[("p", i)])
    ext = []
    for i in range(n):
        ext.append((off[("d", i)], len(texs[i]["data"])))
        ext.append((off[("p", i)], len(texs[i]["pal"])))
    return pl.image(fixed), ext


WRITERS = {"ctpk": write_ctpk, "bch": write_bch, "cgfx": write_cgfx, "tpl": write_tpl}
