#!/bin/bash
# runs every registered check in the quick tier with several seeds (used with `vp run`): no alarm may depend on the seed
cd "$(dirname "$0")/.."
./check setup > /tmp/seeds_setup.log 2>&1 || { tail -20 /tmp/seeds_setup.log; exit 1; }
for seed in "$@"; do
  for id in C01 C02 C03 C04 C05 C06 C07 C08 C09 C10 C11 C12 C13 C14 C15 C16 C17 C18 C19 C20; do
    VERIF_SEED=$seed ./check $id --tier quick > /tmp/seeds_${seed}_$id.log 2>&1; rc=$?
    [ $rc -ne 0 ] && { echo "seed=$seed $id rc=$rc"; grep '^VIOLATION' /tmp/seeds_${seed}_$id.log | head -3; }
  done
  echo "seed $seed done"
done
