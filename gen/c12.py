# C12: layered filesystem - top layer wins, writes stay on top, read-after-write, per-game configuration.
from common import PropertyCheck, Case
import fsgen
import typedfs


@typedfs.hook
class C12(PropertyCheck):
    pid = "C12"
    source_tables = ["FsConfig", "LZ"]   # tables / constants regenerated from /repo's source (gen/srctables.py)
    rule = ("streams: corpus (hand-written and minimised cases); every history up to length 2 (thorough 3) over a 13-call alphabet on three "
            "colliding paths from five two-layer states; random histories of write/read/exists/file_exists/directory_exists/resolve/"
            "create_dir/list/subdirectories and the typed helpers (<= 25 calls quick, <= 120 thorough) on 1-4 real temp-directory layers with colliding trees, "
            "localized and not, payloads empty/tiny/compressible/incompressible/around the LZ length thresholds, names with and without "
            "the game's compressed suffix, rotating games x languages (thorough: all 5 x 8); the configuration table exhaustively "
            "(7 games x 8 languages x 0-2 layers).  Non-trivial = the history contains a successful read or write; distinct = distinct case line.")
    assumptions = ["A-fs: std::fs (create_dir_all, write, read, metadata), Path::join, normpath::normalize and glob 0.3 behave like the "
                   "tree model on relative paths of plain components in existing, symlink-free layer directories; observed only through the correspondence; "
                   "the model's name domain is wider than a disk's: components containing NUL or longer than NAME_MAX (255 bytes) and paths longer than "
                   "PATH_MAX are accepted by the model but refused by the OS (WriteError / IOError) - outside the model like every I/O error other than a file/directory conflict",
                   "the compression codec is a parameter of the model (section variables); the correspondence feeds the real compressor's "
                   "output to the model as data, the oracle decodes stored files with its own LZ10/LZ11 decoders"]

    def corpus(self):
        out = []
        for c in PropertyCheck.corpus(self):
            out.append(Case(fsgen.expand_corpus_line(c.line) if c.line.startswith("fs ") else c.line.replace("$BASE", fsgen.fresh_base()), "corpus"))
        return out

    def generate(self, rng, tier):
        n = 2000 if tier == "quick" else 15000      # quick trimmed from 3000 (wall time under load)
        # F21: one 2^24+5-byte write to a .cmp name is in corpus/C12 (both tiers); two more variants in the thorough tier (each costs ~15 s on the model side)
        cases = fsgen.exhaustive_cases(tier) + (fsgen.size_limit_cases() if tier != "quick" else []) + fsgen.gen_cases(rng, tier, "c12", n, "histories")
        for g in range(7):
            for l in range(8):
                for nl in range(3):
                    cases.append(Case("fscfg %s %d %d %d" % (fsgen.fresh_base(), g, l, nl), "config-table"))
        return cases

    def nontrivial(self, case, impl_out):
        if case.line.startswith("fscfg"):
            return impl_out.startswith("ok")
        return fsgen.nontrivial(case, impl_out, ("R", "W"))

    def oracle(self, case, impl_out, profile):
        if case.line.startswith("fscfg"):
            return cfg_oracle(case.line, impl_out)
        _, c = fsgen.parse_case(case.line)
        return fsgen.check_history(c, impl_out)

    def agree(self, case, impl_out, model_out, profile):
        return fsgen.agree(impl_out, model_out)

    def shrink_candidates(self, case):
        if case.line.startswith("fscfg"):
            return []
        return fsgen.shrink_case(case)

    def extra_checks(self, ctx):
        return [], {"scratch_directories_swept": fsgen.sweep_leftovers()}


def cfg_oracle(line, out):
    t = line.split()
    g, l, nl = fsgen.GAMES[int(t[2])], int(t[3]), int(t[4])
    if nl == 0:
        return None if out == "err:nolayers" else "no layers: expected NoLayers, got %s" % out
    if g not in fsgen.SPEC_CFG:
        return None if out == "err:unsupported-game" else "%s: expected UnsupportedGame, got %s" % (g, out)
    fmt, sufs, endian, text = fsgen.SPEC_CFG[g]
    probes = ["x.lz", "x.cmp", "x.cms", "x.bin", "x.lz.bak", "lz"]
    want = "ok endian=%s text=%s loc=%s lang=%d " % (endian, text, g, l)
    want += " ".join("%s=%s" % (p, fmt if any(p.endswith(s) for s in sufs) else "raw") for p in probes)
    return None if out == want else "configuration of %s: want %r got %r" % (g, want, out)


TB = ("Trusted: Coq 8.16.1 kernel (vm_compute, no native_compute), no axioms (Print Assumptions audited on every run), "
      "ExtrOcamlBasic extraction + hand-written OCaml driver, the Rust harness and Python generators/oracles. ")

MANIFEST = dict(
    text="Theorems (Coq 8.16, closed under the global context) about an executable Gallina model of LayeredFilesystem on a tree model of the layer directories, for EVERY codec (compress/decompress are section parameters): read returns the decoded file of the highest layer that holds a FILE at the addressed location and FileNotFound iff none does (a directory of that name higher up does not shadow); whatever write/create_dir return, configuration, language and all layers but the last are unchanged; a successful write leaves File(encoded payload) at the location, directories at its ancestors and everything else of the top layer as it was; a failed write changes nothing on well-formed layers unless the path ends in '/' (then exactly the missing ancestor directories stay created - the code's real behaviour, stated instead of DESIGN's S'=S); WHEN the calls succeed (C12_write_ok_iff, C12_write_result, C12_create_dir_ok_iff, C12_create_dir_result; no well-formedness needed): write returns Ok iff the path localizes (when asked to) to a modelled path without trailing '/', the codec accepts the payload (never refused below 16 MiB by the real codec models: C12_write_ok_iff_real; refused from the format's size limit on: C12_write_too_large_fails), and in the TOP layer no proper ancestor of the target is a file and the target is not a directory (lower layers play no role) - otherwise exactly the localisation/path error, the codec's error or WriteError; create_dir returns Ok iff neither the target nor an ancestor is a file in the top layer, otherwise IOError; create_dir, whatever it returns, leaves every read and every file_exists answer unchanged and keeps exists / directory_exists true where they were (C12_create_dir_frame); along every history of the byte-level operations (fs_run: read/write/create_dir/queries/listings, any codec) that contains no write addressed to the location of p - create_dir calls unrestricted - read p and file_exists p answer as before, and read-after-write survives such a history (C12_run_keeps_read, C12_read_after_write_history); read-after-write for every codec satisfying the round-trip law, AND for the real codec models (C12_read_after_write_real / _by_game: LZ10 for FE9/FE10 with suffixes .cms/.cmp, LZ13 for FE13-FE15 with suffix .lz; EVERY byte payload of every successful write - no size bound: after the repair of F21 the compressors reject what their size field cannot store, so success of the write is the size condition, and for a name without the game's suffix no codec runs; any combination of build profiles; for LZ13 payloads between 2^31 and 2^32 bytes the list model's three wrapper length bytes are not proved equal to the code's, the decoder ignores them and C09_round_trip_machine proves the same round trip on the machine-level model); a payload the configured format cannot store (2^24 bytes and more for FE9/FE10) written to a compressed name fails with the compression error and leaves the state unchanged (C12_write_too_large_fails, _fe9_fe10: finding F21); the stored file of a compressed name proved to be a valid LZ10 / wrapped LZ11 stream of the payload (C12_stored_stream_real); exists/file_exists/directory_exists/resolve are the same top-down search; the 7-game configuration table and the compressed-suffix rule equal a specification table written from the property text (finite proof); the typed helpers END TO END (C12_e2e_*; Model/FsTyped.v instantiates codec, parsers and serializers with the models of the real code): what write_archive stores is read back by read_archive as an archive related to the written one exactly as in C01_round_trip, what write_text_archive stores is read back with the same title, keys in order and messages (C06), a conforming pack / arc / CTPK / BCH / CGFX / TPL image stored with write is returned by read_fe9_arc / read_arc / read_*_textures as C15 / C16 / C20 say (texture maps keyed by name, the last texture of a name wins), for every game, path, localisation flag and pair of build profiles, images shorter than 16 MiB, the archive carrying the game's endianness / text format (necessary: C12_e2e_archive_wrong_endian); the typed writers touch the top layer only; well-formedness of layers is an invariant of all histories. The model is tied to /repo on every run by executing the extracted model and the real library on the same histories (<= 25 calls quick, <= 120 thorough, 1-4 real temp-directory layers, all 5 games x 8 languages, localized or not, typed helpers included) and comparing every return value and a full walk of every layer directory after every call, plus the configuration table exhaustively; an independent Python oracle (top-most file wins, lower layers untouched, stored file decodes to the payload with its own LZ10/LZ11 decoders, localisation from C14's specification table) is evaluated on the implementation's outputs.",
    note=TB + "Modelled, not verified (A-fs): std::fs (create_dir_all, write, read, metadata), Path::join, normpath::normalize on relative paths of plain components in existing symlink-free layer directories; symlinks, permissions, non-UTF-8 names, concurrent modification and I/O errors other than file/directory conflicts are outside the model - among them the name limits of a real file system: a component containing NUL or longer than NAME_MAX (255 bytes), a path longer than PATH_MAX, is accepted by the model (and by wf_layer) but refused by the OS, so the success criteria hold for names within those limits only. Seven of the counted theorems (C12_stored_form, C12_typed_helpers, C12_e2e_helpers_unfold, C12_e2e_same_codec, C12_e2e_same_archive_is_C01, C12_e2e_top_layer_effect_is, C12_e2e_writes_elsewhere_is) are unfolding lemmas that display definitions (marked as such in Properties/C12.v); they establish nothing about the code. The codec is a parameter: the correspondence feeds the real compressor's output to the model as data, so the LZ streams themselves are checked here only by the oracle's decoders (their proofs are C08-C11). Build profiles: the byte-level histories (kind fs) run on the debug build only; the release build is exercised by the typed-e2e stream (writer and reader in the same profile). Typed helpers: stream typed-e2e runs the extracted model with the REAL codec / parser / serializer models (nothing fed in as data) and compares every typed result as a value and every stored file byte for byte; its oracle uses independent Python reference readers.",
    technique='Coq proof (list/association-list induction, top-down search characterisation, invariant over histories, finite table by computation) + extracted-model differential check on real temp directories + independent oracle',
    ref='DESIGN.md section 5 (C12); notes/fs.md')
