# C06: text archive serialize -> parse round trip (title, ordered keys, every message), 4-aligned labelled layout.
import os
import struct

from common import PropertyCheck, Case
import txtfile
from txtfile import B, L, unB, unL

TESTDIR = "/repo/resources/test"

# ----------------------------------------------------------------------------- alphabets (ENCODED forms)
# legacy format / keys / title: characters as Shift-JIS byte strings that encoding_rs converts losslessly
# (the harness re-checks every string and answers LOSSY otherwise - that would be a generator error)
SJ_ASCII = [bytes([c]) for c in range(0x20, 0x7F)]
SJ_CTRL = [b"\t", b"\n", b"\r", b"\x01", b"\x7f"]
SJ_HALF_KANA = [bytes([c]) for c in range(0xA1, 0xE0)]
SJ_TRAIL_5C = [b"\x83\x5c", b"\x95\x5c", b"\x8f\x5c", b"\x94\x5c", b"\x97\x5c", b"\x89\x5c", b"\x8b\x5c", b"\x90\x5c", b"\x9d\x5c", b"\xe0\x5c"]
SJ_TWO = ([bytes([0x82, c]) for c in range(0x9F, 0xF2)] +                      # hiragana
          [bytes([0x83, c]) for c in range(0x40, 0x97) if c != 0x7F] +          # katakana
          [bytes([0x88, c]) for c in range(0x9F, 0xFD)] +                       # first kanji row
          [b"\x81\x40", b"\x81\x5f", b"\x81\x60", b"\x81\x91", b"\x81\xca", b"\x81\x7c", b"\x98\x72", b"\xea\xa4", b"\x93\xfa", b"\x96\x7b"])
SJ_ALPHABETS = {
    "ascii": SJ_ASCII,
    "kana": SJ_HALF_KANA + SJ_ASCII[:20],
    "two": SJ_TWO + SJ_TRAIL_5C,
    "trail5c": SJ_TRAIL_5C + [b"n", b"\\", b"a"],
    "mixed": SJ_ASCII + SJ_CTRL + SJ_HALF_KANA + SJ_TWO + SJ_TRAIL_5C,
}

# Unicode format: scalar values
U_ASCII = list(range(0x20, 0x7F))
U_BMP = [0x3042, 0x30BD, 0x8868, 0xFF71, 0xFEFF, 0xFFFE, 0xFFFF, 0xFFFD, 0xD7FF, 0xE000, 0xF8FF, 0x0100, 0x0001, 0x00FF, 0x0101,
         0x0A00, 0x000A, 0x000D, 0x0009, 0x2028, 0x00E9, 0x0301, 0xBBEF, 0x00BF, 0xFF00, 0x00FE, 0xFE00, 0x1000, 0x0010]
U_ASTRAL = [0x10000, 0x1F600, 0x10FFFF, 0x20000, 0x1D11E, 0xFFFFF, 0x100000, 0x1F1EF, 0x1F1F5]
U_ALPHABETS = {
    "ascii": U_ASCII,
    "bmp": U_BMP + U_ASCII[:10],
    "bomlike": [0xFEFF, 0xFFFE, 0xFFFF, 0xBBEF, 0x00BF, 0x61],
    "zerobytes": [0x0100, 0x0001, 0x0101, 0x0200, 0x0002, 0xFF00, 0x00FF],
    "astral": U_ASTRAL + [0x61, 0x3042],
    "mixed": U_ASCII + U_BMP + U_ASTRAL,
}


def utf16(scalars):
    out = []
    for c in scalars:
        if c >= 0x10000:
            c -= 0x10000
            out += [0xD800 + (c >> 10), 0xDC00 + (c & 0x3FF)]
        else:
            out.append(c)
    return out


def rnd_sj(rng, alpha, n):
    """n characters; never a single-byte backslash followed by 'n' (set_message would unescape it)"""
    out = []
    for _ in range(n):
        c = rng.choice(alpha)
        while out and out[-1] == b"\\" and c == b"n":
            c = rng.choice(alpha)
        out.append(c)
    return b"".join(out)


def rnd_u(rng, alpha, n):
    out = []
    for _ in range(n):
        c = rng.choice(alpha)
        while out and out[-1] == 0x5C and c == 0x6E:
            c = rng.choice(alpha)
        out.append(c)
    return out


def sj_chars(b):
    """split Shift-JIS bytes into characters (lead bytes 0x81-0x9F, 0xE0-0xFC take a trail byte)"""
    out, i = [], 0
    while i < len(b):
        n = 2 if (0x81 <= b[i] <= 0x9F or 0xE0 <= b[i] <= 0xFC) and i + 1 < len(b) else 1
        out.append(bytes(b[i:i + n]))
        i += n
    return out


def msg_tok(fmt, m):
    return L(m) if fmt == "U" else B(m)


def render(fmt, endian, title, entries):
    parts = ["txt", fmt, endian, B(title), str(len(entries))]
    for (k, m) in entries:
        parts += [B(k), msg_tok(fmt, m)]
    return " ".join(parts)


def parse_case(line):
    t = line.split()
    fmt, endian, title, n = t[1], t[2], unB(t[3]), int(t[4])
    entries = []
    for i in range(n):
        k = unB(t[5 + 2 * i])
        m = t[6 + 2 * i]
        entries.append((k, unL(m) if fmt == "U" else unB(m)))
    return fmt, endian, title, entries


def expected_entries(entries):
    """insertion-ordered map semantics of set_message"""
    order, val = [], {}
    for (k, m) in entries:
        if k not in val:
            order.append(k)
        val[k] = m
    return [(k, val[k]) for k in order]


# ---- histories of in-memory API calls (kind txth; the C06/C07 link) ----
H_KEYS = [[], [0x6B], [0x4B, 0x32], list(b"MID_A"), list(b"MID_B_1"), [0x7F], [0x01], list(b"a b"), list(b"MID_A2"), [0x5C, 0x6E]]
H_FRAGMENTS = [[0x5C, 0x6E], [0x5C], [0x5C, 0x5C, 0x6E], [0x0A], [0x5C, 0x4E], [0x6E], [0x5C, 0x6E, 0x5C, 0x6E], [0x0D, 0x0A]]


def rnd_hist_msg(rng, alpha, n):
    out = []
    for _ in range(n):
        if rng.random() < 0.25:
            out += rng.choice(H_FRAGMENTS)
        else:
            out.append(rng.choice(alpha))
    return out


def rnd_history(rng, maxops, fmt="U"):
    ks = rng.sample(H_KEYS, rng.choice([1, 2, 3, 5, 8]))
    alpha = U_ALPHABETS[rng.choice(list(U_ALPHABETS))] if fmt == "U" else list(range(1, 128))     # legacy format: ASCII (Shift-JIS identity)
    ops = []
    for _ in range(rng.randint(0, maxops)):
        r = rng.random()
        k = rng.choice(ks)
        if r < 0.55:
            ops.append(("S", k, rnd_hist_msg(rng, alpha, rng.choice([0, 1, 2, 3, 4, 5, rng.randint(0, 30)]))))
        elif r < 0.75:
            ops.append(("D", k))
        elif r < 0.85:
            ops.append(("T", [rng.randint(1, 127) for _ in range(rng.randint(0, 9))]))
        elif r < 0.90:
            ops.append(("G", k))
        elif r < 0.95:
            ops.append(("H", k))
        elif r < 0.975:
            ops.append(("Z",))       # serialize and discard the image; the object lives on (memoised images must be dropped by every edit)
        else:
            ops.append(("R",))       # save and load again (serialize -> from_bytes), then go on editing the LOADED archive
    return ops


def render_hist(fmt, endian, ops):
    parts = ["txth", fmt, endian]
    for op in ops:
        parts.append(op[0])
        parts += [L(x) for x in op[1:]]
    return " ".join(parts)


def parse_hist(line):
    t = line.split()
    fmt, endian, ops, i = t[1], t[2], [], 3
    while i < len(t):
        n = 3 if t[i] == "S" else (1 if t[i] in ("R", "Z") else 2)
        ops.append(tuple([t[i]] + [list(unL(x)) for x in t[i + 1:i + n]]))
        i += n
    return fmt, endian, ops


def hist_expected(ops):
    """the in-memory archive after the history, by Python's own insertion-ordered dict and str.replace (independent of
    the Coq model): title, [(key, message)] as lists of scalar values"""
    d, title = {}, []
    for op in ops:
        if op[0] == "S":
            text = "".join(map(chr, op[2])).replace("\\n", "\n")
            d[tuple(op[1])] = [ord(c) for c in text]      # assignment keeps the place of an existing key
        elif op[0] == "D":
            d.pop(tuple(op[1]), None)                     # a later assignment appends the key again
        elif op[0] == "T":
            title = list(op[1])
    return title, [(list(k), v) for (k, v) in d.items()]


def rnd_key(rng, i, style):
    if style == "id":
        return ("MID_%s_%d" % (rng.choice(["A", "Bc", "NAME", "H"]), i)).encode()
    if style == "short":
        return bytes([0x41 + i % 26]) + (str(i // 26).encode() if i >= 26 else b"")
    if style == "sjis":
        return rnd_sj(rng, SJ_ALPHABETS["two"] + SJ_HALF_KANA, rng.randint(1, 4)) + str(i).encode()
    return rnd_sj(rng, SJ_ALPHABETS["mixed"], rng.randint(0, 6)) + str(i).encode()


class C06(PropertyCheck):
    pid = "C06"
    release_too = True       # both build profiles (review 2: the both-modes theorems must be tied to a release build too)
    rule = ("streams: archives built through TextArchive::new + set_title/set_message (0-40 keys quick, up to 400 thorough; message "
            "lengths 0-9 for every length mod 4 in both encodings plus long ones; alphabets ASCII / lossless Shift-JIS incl. half-width "
            "katakana and trail byte 0x5C / BMP incl. U+FEFF,U+FFFE,U+FFFF / astral / byte-coincidence units / lone CR) x 2 encodings x 2 "
            "endiannesses: serialize image byte-exact vs the extracted model, from_bytes of it vs input and model, image examined by an "
            "independent Python reference reader (4-aligned offsets, label = key, cells tile the data region); length grid; edge cases "
            "(empty archives, BOM-like first characters, repeated set_message); histories of set_message (with escape sequences) / delete_message "
            "/ re-add / set_title / lookups followed by serialize -> from_bytes, compared with Python's own ordered dict and with the model of "
            "C07 pushed through the model of C06 (kind txth); conforming files of ANOTHER writer (Python: shuffled pointer/label tables, junk and "
            "duplicated strings in the text section) parsed by from_bytes; the two game files re-serialized byte-exactly; "
            "from_archive on API-built well- and ill-formed archives; A-codec sweep of every scalar value / every lossless Shift-JIS "
            "code in first and inner position on the real library. Non-trivial = an archive with at least one message parsed back; "
            "distinct = distinct case line.")
    assumptions = ["A-codec: encoding_rs Shift-JIS and str::encode_utf16/String::from_utf16 are lossless and NUL-free on the generated "
                   "text - CHECKED by the harness on every string of every case and by the sweep stream, not trusted",
                   "A-std: IndexMap insertion order, Vec (observed through the correspondence only)",
                   "byte level: hypotheses of C06_round_trip = the property's domain (distinct keys, NUL-free title/keys/messages, valid UTF-16) and "
                   "image size < 2^32; the bin-archive round trip it rests on is C01's theorem (Proofs/TextBinBridge.v), no premise left"]

    # ------------------------------------------------------------------ generation
    def generate(self, rng, tier):
        cases = []
        quick = tier == "quick"
        combos = [(f, e) for f in "US" for e in "LB"]

        def alphabets(fmt):
            return U_ALPHABETS if fmt == "U" else SJ_ALPHABETS

        def rnd_msg(fmt, alpha, n):
            return utf16(rnd_u(rng, alpha, n)) if fmt == "U" else rnd_sj(rng, alpha, n)

        # -- edge cases
        for (f, e) in combos:
            cases.append(Case(render(f, e, b"", []), "edge"))                       # empty archive (F10 for the legacy format)
            cases.append(Case(render(f, e, b"Title", []), "edge"))
            cases.append(Case(render(f, e, b"", [(b"k", [] if f == "U" else b"")]), "edge"))
            cases.append(Case(render(f, e, b"", [(b"", [97] if f == "U" else b"a")]), "edge"))    # empty key
            for tl in range(0, 9):
                cases.append(Case(render(f, e, b"T" * tl, [(b"key", rnd_msg(f, alphabets(f)["ascii"], 3))]), "edge"))
            # repeated set_message: replaced in place
            m1, m2, m3 = (rnd_msg(f, alphabets(f)["ascii"], n) for n in (5, 1, 7))
            cases.append(Case(render(f, e, b"t", [(b"a", m1), (b"b", m2), (b"a", m3)]), "edge"))
            # a key equal to the title, keys that are prefixes of each other, equal messages
            cases.append(Case(render(f, e, b"same", [(b"same", m1), (b"sam", m1), (b"samee", m1)]), "edge"))
        for e in "LB":
            for first in ([0xFEFF], [0xFFFE], [0xFFFF], [0xBBEF, 0x00BF], [0xFEFF, 0xFEFF], [0xFFFE, 0xFEFF]):   # F11
                for tail in ([], [0x61], [0x61, 0x3042, 0x62]):
                    cases.append(Case(render("U", e, b"", [(b"k", first + tail), (b"k2", [0x61] + first)]), "edge"))
            for units in ([0x0001, 0x0100], [0x0100, 0x0001], [0x0100], [0x0001], [0xFF00, 0x00FF, 0x0100], [0x000D], [0x000A, 0x000D, 0x000A]):
                cases.append(Case(render("U", e, b"", [(b"k", units), (b"l", units + units)]), "edge"))
            cases.append(Case(render("U", e, b"", [(b"k", utf16([0x10000, 0x10FFFF, 0x1F600]))]), "edge"))
            for m in (b"\x83\x5cn", b"\x83\x5c", b"\\", b"n\\", b"\\\\", b"\r", b"\n", b"a\nb", b"\xb1\xb2\xb3", b"\x95\x5c\x8e\xa6", b"\\N"):
                cases.append(Case(render("S", e, b"", [(b"k", m), (b"\x83\x4c\x81\x5b", m + b"." + m)]), "edge"))
            cases.append(Case(render("U", e, b"\x83\x5c\x83\x5c", [(b"\xb7\xb0", [0x5C, 0x4E])]), "edge"))

        # -- every length mod 4, every alphabet
        for (f, e) in combos:
            for name, alpha in alphabets(f).items():
                for n in range(0, 10):
                    for rep in range(3 if quick else 12):
                        es = [(b"k%d" % i, rnd_msg(f, alpha, n if i == 0 else rng.randint(0, 9))) for i in range(rng.randint(1, 4))]
                        cases.append(Case(render(f, e, rnd_sj(rng, SJ_ASCII, rng.randint(0, 5)), es), "length-grid"))

        # -- random archives
        n_rand = 1500 if quick else 20000
        for _ in range(n_rand):
            f, e = rng.choice(combos)
            alpha = alphabets(f)[rng.choice(list(alphabets(f)))]
            nk = rng.choice([0, 1, 2, 3, rng.randint(0, 12), rng.randint(0, 40)])
            style = rng.choice(["id", "short", "sjis", "mixed"])
            es = []
            for i in range(nk):
                ln = rng.choice([rng.randint(0, 9), rng.randint(0, 9), rng.randint(0, 9), rng.randint(10, 60), rng.randint(60, 300)])
                es.append((rnd_key(rng, i, style), rnd_msg(f, alpha, ln)))
            if nk and rng.random() < 0.2:       # overwrite an earlier key
                es.append((es[rng.randrange(nk)][0], rnd_msg(f, alpha, rng.randint(0, 9))))
            title = rnd_sj(rng, SJ_ALPHABETS[rng.choice(["ascii", "mixed", "two"])], rng.randint(0, 12))
            cases.append(Case(render(f, e, title, es), "api-roundtrip"))
        if not quick:
            for (f, e) in combos:
                for nk in (150, 400):
                    alpha = alphabets(f)["mixed"]
                    es = [(rnd_key(rng, i, "id"), rnd_msg(f, alpha, rng.randint(0, 12))) for i in range(nk)]
                    cases.append(Case(render(f, e, b"big", es), "api-roundtrip-large"))

        # -- histories of API calls (set / delete / re-add / set_title / lookups), then serialize -> from_bytes
        for (f, e) in combos:
            for ops in ([], [("T", [84])], [("S", [107], [0x5C, 0x6E])], [("S", [107], [97]), ("D", [107])],
                        [("S", [97], [1]), ("S", [98], [2]), ("S", [99], []), ("S", [97], [3]), ("D", [98]), ("S", [98], [0x1F600 if f == "U" else 0x7E])],
                        [("S", [], [0xFEFF if f == "U" else 0x7F]), ("D", [120]), ("S", [], [0x5C, 0x5C, 0x6E])],
                        # a LOADED archive edited without any set_message (seeded change C06-3 returned the loaded bytes while
                        # the dirty flag was clear; only set_message sets it)
                        [("S", [97], [1]), ("S", [98], [2]), ("R",), ("D", [97])],
                        [("T", [84]), ("S", [97], [1]), ("R",), ("T", [85, 86])],
                        [("S", [97], [1]), ("R",), ("D", [97]), ("R",), ("S", [98], [2]), ("R",), ("T", [87]), ("D", [98])],
                        # serialize in mid-history on the same object (image discarded): every later edit must show in the final image
                        [("S", [97], [1]), ("S", [98], [2]), ("Z",), ("D", [97])],
                        [("S", [97], [1]), ("Z",), ("T", [85, 86])],
                        [("S", [97], [1]), ("Z",), ("S", [97], [2]), ("Z",), ("D", [97]), ("Z",), ("S", [98], [3]), ("Z",), ("T", [87]), ("Z",), ("D", [98])]):
                cases.append(Case(render_hist(f, e, ops), "history"))
        for _ in range(500 if quick else 8000):
            f = "U" if rng.random() < 0.7 else "S"
            cases.append(Case(render_hist(f, rng.choice("LB"), rnd_history(rng, 25 if quick else 80, f)), "history"))

        # -- the repository's own files
        for (name, f, e) in (("TextArchive_Test.bin", "U", "L"), ("TextArchive_Legacy_Test.bin", "S", "B")):
            p = os.path.join(TESTDIR, name)
            if os.path.exists(p):
                cases.append(Case("txtf %s %s %s" % (f, e, B(open(p, "rb").read())), "game-files"))

        # -- conforming files written by ANOTHER writer (Python): pointer / label tables shuffled, junk and duplicated strings in the
        #    text section; from_bytes must read the same title and entries (C06_parse_any_conforming_file)
        for _ in range(300 if quick else 5000):
            f, e = rng.choice(combos)
            alpha = alphabets(f)[rng.choice(list(alphabets(f)))]
            title = rnd_sj(rng, SJ_ASCII, rng.randint(0, 7)) if f == "U" else b""
            data = bytearray(txtfile.text_cell("S", title)) if f == "U" else bytearray()
            labels, entries = [], []
            for i in range(rng.choice([0, 1, 2, 3, rng.randint(0, 12)])):
                k = rnd_key(rng, i, rng.choice(["id", "short"]))
                m = rnd_msg(f, alpha, rng.choice([0, 1, 2, 3, 4, rng.randint(0, 20)]))
                labels.append((len(data), k))
                data += txtfile.text_cell(f, m)
                entries.append((k, m))
            image = txtfile.bin_write(e, data, labels=labels, rng=rng, shuffle_tables=rng.random() < 0.7, junk_text=rng.random() < 0.5,
                                      dup_strings=rng.random() < 0.5)
            c = Case("txtf %s %s %s" % (f, e, B(image)), "foreign-writer")
            c.meta = {"expect": (title, entries)}
            cases.append(c)

        # -- from_archive on API-built archives (reference writer; well- and ill-formed)
        n_arch = 800 if quick else 12000
        for _ in range(n_arch):
            f, e = rng.choice(combos)
            cases.append(self.archive_case(rng, f, e))

        # -- A-codec sweep on the real library (no model involved)
        for e in "LB":
            if quick:
                ranges = [(1, 0x1000), (0x3000, 0x3400), (0x4E00, 0x5000), (0xD000, 0xE100), (0xF900, 0x10100), (0x1F000, 0x1F800), (0x2F800, 0x2FA20), (0x10FC00, 0x110000)]
            else:
                ranges = [(a, min(a + 0x1000, 0x110000)) for a in range(0, 0x110000, 0x1000)]
            for (a, b) in ranges:
                for pos in (0, 1):
                    cases.append(Case("txtsweep U %s %d %d %d" % (e, a, b, pos), "codec-sweep"))
            leads = [(a, a + 8) for a in range(0, 0x100, 8)] if not quick else [(0x00, 0x80), (0x80, 0x84), (0x88, 0x8A), (0xA0, 0xE2), (0xE8, 0x100)]
            for (a, b) in leads:
                for pos in (0, 1):
                    cases.append(Case("txtsweep S %s %d %d %d" % (e, a, b, pos), "codec-sweep"))
        return cases

    def archive_case(self, rng, f, e):
        """a data region made of cells + labels, written by the reference writer, with optional damage"""
        alpha = U_ALPHABETS["mixed"] if f == "U" else SJ_ALPHABETS["mixed"]
        data = bytearray()
        labels = []
        meta = {"wf": True}
        title = b""
        if f == "U":
            title = rnd_sj(rng, SJ_ASCII, rng.randint(0, 6))
            data += txtfile.text_cell("S", title)
        entries = []
        for i in range(rng.randint(0, 6)):
            m = utf16(rnd_u(rng, alpha, rng.randint(0, 9))) if f == "U" else rnd_sj(rng, alpha, rng.randint(0, 9))
            k = b"K%d" % i
            labels.append((len(data), k))
            data += txtfile.text_cell(f, m)
            entries.append((k, m))
        damage = rng.choice(["none", "none", "nolabel", "twolabels", "unaligned-label", "unterminated", "odd", "dupkey", "junk", "surrogate"])
        if damage == "nolabel" and labels:
            labels.pop(rng.randrange(len(labels)))
        elif damage == "twolabels" and labels:
            a, k = rng.choice(labels)
            labels.insert(rng.randrange(len(labels) + 1), (a, b"X" + k))
        elif damage == "unaligned-label":
            labels.append((rng.randint(0, len(data)), b"odd"))
        elif damage == "unterminated" and data:
            cut = rng.randint(1, min(4, len(data)))
            data = data[:-cut] + bytes(rng.randint(1, 255) for _ in range(cut))
        elif damage == "odd":
            data += bytes(rng.randint(0, 255) for _ in range(rng.randint(1, 3)))
        elif damage == "dupkey" and len(labels) >= 2:
            labels[-1] = (labels[-1][0], labels[0][1])
        elif damage == "junk":
            data = bytearray(rng.getrandbits(8) if rng.random() < 0.7 else 0 for _ in range(rng.randint(0, 40)))
            labels = [(rng.randint(0, len(data)), b"J%d" % i) for i in range(rng.randint(0, 5))]
        elif damage == "surrogate" and f == "U":
            labels.append((len(data), b"sur"))
            data += struct.pack("<HHHH", rng.choice([0xD800, 0xDC00, 0xDBFF, 0xDFFF]), 0x61, 0, 0)
        rng.shuffle(labels) if rng.random() < 0.5 else None
        parts = ["txta", f, e, B(data), str(len(labels))]
        for (a, k) in labels:
            parts += [str(a), B(k)]
        c = Case(" ".join(parts), "archive-level")
        if damage == "none":
            c.meta = {"expect": (title, entries)}
        return c

    # ------------------------------------------------------------------ oracle
    def oracle(self, case, impl_out, profile):
        if impl_out in ("PANIC", "ABORT", "TIMEOUT", "MISSING-OUTPUT") or impl_out.startswith("UNKNOWN-KIND"):
            return "implementation: " + impl_out
        kind = case.line.split(" ", 1)[0]
        if kind == "txtsweep":
            return None if impl_out.startswith("ok ") else "A-codec sweep: " + impl_out
        if kind == "txt":
            return self.oracle_txt(case, impl_out)
        if kind == "txtf":
            return self.oracle_file(case, impl_out)
        if kind == "txta":
            return self.oracle_archive(case, impl_out)
        if kind == "txth":
            return self.oracle_history(case, impl_out)
        return None

    def oracle_history(self, case, impl_out):
        fmt, endian, ops = parse_hist(case.line)
        if not impl_out.startswith("ser=ok:"):
            return "serialize failed after a history of API calls: " + impl_out[:80]
        ser_tok, parse = impl_out[len("ser=ok:"):].split(" | parse=", 1)
        title, entries = hist_expected(ops)
        if fmt == "S":
            title = []                          # the legacy format stores no title
        want_line = "ok d0 T=%s [%s]" % (L(title), " ".join("%s=%s" % (L(k), L(m)) for (k, m) in entries))
        if parse != want_line:
            return "from_bytes(serialize(archive after the history)) differs from get_entries: want %s got %s" % (want_line[:300], parse[:300])
        try:
            rt, res, problems = txtfile.text_read(fmt, endian, unB(ser_tok))
        except (txtfile.Malformed, struct.error) as ex:
            return "reference reader rejects the image: %s" % ex
        if problems:
            return "layout: " + "; ".join(problems[:4])
        if list(rt) != title:
            return "reference reader: title %r, want %r" % (rt, title)
        enc = utf16 if fmt == "U" else list
        if [(list(k), list(m)) for (k, m) in res] != [(k, enc(m)) for (k, m) in entries]:
            return "reference reader finds other entries than the history left (order, key labels or encoded message)"
        return None

    def oracle_txt(self, case, impl_out):
        fmt, endian, title, entries = parse_case(case.line)
        if impl_out.startswith("LOSSY") or impl_out.startswith("ESCAPED"):
            return "generator produced text outside the property's domain: " + impl_out
        if not impl_out.startswith("ser=ok:"):
            return "serialize failed: " + impl_out[:80]
        ser_tok, parse = impl_out[len("ser=ok:"):].split(" | parse=", 1)
        want = expected_entries(entries)
        want_title = title if fmt == "U" else b""
        want_line = "ok d0 T=%s [%s]" % (B(want_title), " ".join("%s=%s" % (B(k), msg_tok(fmt, m)) for (k, m) in want))
        if parse != want_line:
            return "parse(serialize(t)) differs from t: want %s got %s" % (want_line[:300], parse[:300])
        # the image, examined by the reference reader
        try:
            rt, res, problems = txtfile.text_read(fmt, endian, unB(ser_tok))
        except (txtfile.Malformed, struct.error) as ex:
            return "reference reader rejects the image: %s" % ex
        if problems:
            return "layout: " + "; ".join(problems[:4])
        if rt != want_title:
            return "reference reader: title %r, want %r" % (rt, want_title)
        got = [(k, list(m) if fmt == "U" else bytes(m)) for (k, m) in res]
        if got != [(k, list(m) if fmt == "U" else bytes(m)) for (k, m) in want]:
            return "reference reader finds other entries than were stored (order, key labels or message bytes)"
        return None

    def oracle_file(self, case, impl_out):
        t = case.line.split()
        fmt, endian, f = t[1], t[2], unB(t[3])
        if case.stream == "foreign-writer":
            exp = case.meta.get("expect") if case.meta else None
            if exp is None:
                return None                       # a replayed case carries no expectation
            title, entries = exp
            ents = " ".join("%s=%s" % (txtfile.DECODER.dec(k)[0], L(m) if fmt == "U" else txtfile.DECODER.dec(m)[0]) for (k, m) in entries)
            want = "parse=ok d0 T=%s [%s]" % (txtfile.DECODER.dec(title)[0], ents)
            head, reser = (impl_out.split(" | reser=", 1) + [""])[:2]
            if head != want:
                return "a conforming file of another writer: want %s got %s" % (want[:200], head[:200])
            if not reser.startswith("ok:"):
                return "re-serialization of a conforming file failed: " + reser[:80]
            rt, res, problems = txtfile.text_read(fmt, endian, unB(reser[3:]))
            if problems or rt != title or [(k, list(m) if fmt == "U" else bytes(m)) for (k, m) in res] != \
                    [(k, list(m) if fmt == "U" else bytes(m)) for (k, m) in entries]:
                return "the re-serialized image does not hold the file's entries: " + "; ".join(problems[:3])
            return None
        if not impl_out.startswith("parse=ok "):
            return "a file of the repository does not parse: " + impl_out[:80]
        head, reser = impl_out.split(" | reser=", 1)
        if reser != "ok:" + B(f):
            return "re-serialization differs from the file"
        rt, res, problems = txtfile.text_read(fmt, endian, f)
        if problems:
            return "reference reader: " + "; ".join(problems[:4])
        ents = " ".join("%s=%s" % (txtfile.DECODER.dec(k)[0], L(m) if fmt == "U" else txtfile.DECODER.dec(m)[0]) for (k, m) in res)
        want = "parse=ok d0 T=%s [%s]" % (txtfile.DECODER.dec(rt)[0], ents)
        if head != want:
            return "entries differ from the reference reader's: want %s got %s" % (want[:200], head[:200])
        return None

    def oracle_archive(self, case, impl_out):
        exp = case.meta.get("expect") if case.meta else None
        if exp is None:
            return None
        fmt = case.line.split()[1]
        title, entries = exp
        ents = " ".join("%s=%s" % (txtfile.DECODER.dec(k)[0], L(m) if fmt == "U" else txtfile.DECODER.dec(m)[0]) for (k, m) in entries)
        want = "parse=ok d0 T=%s [%s]" % (txtfile.DECODER.dec(title)[0], ents)
        head = impl_out.split(" | reser=", 1)[0]
        if head != want:
            return "from_archive on a conforming archive: want %s got %s" % (want[:200], head[:200])
        return None

    # ------------------------------------------------------------------ correspondence
    def agree(self, case, impl_out, model_out, profile):
        kind = case.line.split(" ", 1)[0]
        if kind == "txtsweep":
            return True          # library-only stream (A-codec); the model works on encoded strings
        if kind in ("txtf", "txta"):
            return txtfile.agree_text(case.line.split()[1], impl_out, model_out)
        return impl_out == model_out

    def nontrivial(self, case, impl_out):
        return "=" in impl_out.split("parse=", 1)[-1].split("| reser")[0] and "parse=ok" in impl_out or impl_out.startswith("ok ")

    def shrink_candidates(self, case):
        if case.line.startswith("txth "):
            fmt, endian, ops = parse_hist(case.line)
            for i in range(len(ops)):
                yield Case(render_hist(fmt, endian, ops[:i] + ops[i + 1:]), case.stream)
            for i, op in enumerate(ops):
                if op[0] == "S" and len(op[2]) > 1:
                    for cut in (op[2][:len(op[2]) // 2], op[2][1:], op[2][:-1]):
                        yield Case(render_hist(fmt, endian, ops[:i] + [("S", op[1], cut)] + ops[i + 1:]), case.stream)
            return
        if not case.line.startswith("txt "):
            return
        fmt, endian, title, entries = parse_case(case.line)
        for i in range(len(entries)):
            yield Case(render(fmt, endian, title, entries[:i] + entries[i + 1:]), case.stream)
        if title:
            yield Case(render(fmt, endian, b"", entries), case.stream)
        for i, (k, m) in enumerate(entries):
            if len(m) > 0:
                # cut at character boundaries only (a broken character would leave the property's domain)
                cs = sj_chars(m) if fmt == "S" else [[u] for u in m]
                if fmt == "U":
                    cs, j = [], 0
                    while j < len(m):
                        n = 2 if 0xD800 <= m[j] <= 0xDBFF and j + 1 < len(m) else 1
                        cs.append(list(m[j:j + n]))
                        j += n
                join = (lambda x: b"".join(x)) if fmt == "S" else (lambda x: [u for c in x for u in c])
                for cut in (cs[:len(cs) // 2], cs[1:], cs[:-1]):
                    yield Case(render(fmt, endian, title, entries[:i] + [(k, join(cut))] + entries[i + 1:]), case.stream)
            kc = sj_chars(k)
            if len(kc) > 1 and all(x[0] != kc[0] for x in entries[:i] + entries[i + 1:]):
                yield Case(render(fmt, endian, title, entries[:i] + [(kc[0], m)] + entries[i + 1:]), case.stream)


TB = ("Trusted: Coq 8.16.1 kernel (vm_compute, no native_compute), no axioms (Print Assumptions audited on every run), "
      "ExtrOcamlBasic extraction + hand-written OCaml driver, the Rust harness and Python generators/oracles. ")

MANIFEST = dict(
    text="Theorems about an executable Gallina model of TextArchive::serialize / from_archive / from_bytes and of the aligned "
         "Shift-JIS / UTF-16 string readers (written with the bin-archive stream model): for every well-formed text archive (distinct keys, "
         "NUL-free text, both encodings, both endiannesses, empty archive and empty messages included) the bin archive the writer builds is "
         "read back by from_archive with the same title (Unicode format), the same ORDERED entries and dirty = false; every message offset is "
         "a multiple of 4, holds exactly its cell and carries exactly its key as label; the reader depends only on the observable content of "
         "the archive, so the round trip on BYTES (C06_round_trip: TextFormat.serialize then TextFormat.from_bytes, both arithmetic profiles; "
         "C06_layout_bytes: the layout read off the parsed image; C06_layout_conforms: the layout stated on the file through the independent "
         "format relation conforms) follows from the bin-archive round trip C01, whose hypotheses wf_archive / fits32 "
         "are proved for every archive the text writer builds when the image is smaller than 4 GiB (Proofs/TextBinBridge.v; no premise, no axiom). "
         "Link to C07 (C06_history_round_trip): after ANY history of set_message (with its escape handling) / delete_message / set_title / lookups "
         "from TextArchive::new, serialize -> from_bytes returns the title and exactly get_entries (Unicode format: keys/title NUL-free ASCII, "
         "messages NUL-free Rust strings; legacy format, C06_history_round_trip_legacy: everything NUL-free ASCII, no title stored), with str::encode_utf16 and the UTF-16 decoder modelled on scalar values and proved mutually inverse "
         "(C06_utf16_codec, C06_utf16_units_are_strings). Model tied to /repo on every run: serialize image byte-exact vs the extracted model, re-parsed entries vs "
         "input and model, image examined by an independent Python reference reader, histories of API calls pushed through the real library, the "
         "C07 model composed with the C06 model, and Python's own ordered dict (kind txth), the two game files, from_archive on API-built archives, "
         "and an A-codec sweep of every scalar value / lossless Shift-JIS code on the real library.",
    note=TB + "Domain: the theorems quantify over ENCODED strings; read on Rust Strings they speak about strings s with decode(encode s) = s "
              "(lossless; checked per string by the harness). For keys, the title and legacy messages this EXCLUDES U+00A5, U+203E and U+2212, "
              "which encoding_rs' Shift-JIS encoder accepts (5C, 7E, 81 7C) but which come back as U+005C, U+007E, U+FF0D (the round trip holds for "
              "them only up to decode o encode); UTF-16 messages have no exclusion. Big-endian archives: the library orders the label table by the keys as Strings; the model takes the "
              "sort key as a parameter (TextFormat.serialize kf), every theorem holds for every kf, and the run passes the library's own decoding of every "
              "key (case-line group K), so the byte-exact comparison covers all keys (kanji, Greek, mixed). "
              "All C06 theorems are premise-free (hypotheses: distinct keys, NUL-free encoded text, valid UTF-16, bytes < 256, image < 2^32). "
              "Modelled, not verified: encoding_rs Shift-JIS (A-codec, checked by the harness per case and by the sweep; the history theorem uses it only on "
              "ASCII, where it is the identity), IndexMap, Vec (A-std); encode_utf16 / the UTF-16 decoder are modelled AND proved inverse, and tied to the library "
              "by the txth stream and the sweep. "
              "Repaired defects: F10 d30c8b5, F11 b4ac2c0.",
    technique="Coq proof (induction over the message list: a terminator-free body followed by its terminator is read back exactly and the "
              "aligned skip lands on the next cell) + extracted-model differential check + independent reference reader",
    ref="DESIGN.md section 3 (C06)")
