# Bin-archive part of C05 (parsers are total on arbitrary bytes): generator, oracle and correspondence relation for
# the kind `bafrom`.  Same interface as packtotal.py:
#     total_cases(rng, tier) -> [Case], total_oracle(case, impl_out, profile), total_agree(case, impl_out, model_out, profile),
#     total_nontrivial(case, impl_out), total_shrink(case)
import glob
import os
import re
import struct
import subprocess

import common
from common import Case
import barandom
import pyarchive

# HashMap<usize, String> growth is driven by entries actually read (4 input bytes each, ~33 bytes per bucket, capacity
# doubling): a pointer-dense file may legitimately request ~17x its size in one go.  A field-driven request (the
# repaired data.resize) is bounded by the input itself (theorem resize_request_bounded).
ALLOC_FACTOR = 64
ALLOC_SLACK = 4096

BOUNDARY = [0, 1, 2, 3, 4, 5, 7, 8, 0x1F, 0x20, 0x21, 0x7FFFFFFF, 0x80000000, 0x3FFFFFFF, 0x40000000] + list(range(0xFFFFFFF0, 0x100000000))


def B(b):
    return "B" + bytes(b).hex()


def valid_files(rng, tier):
    out = []
    n = 10 if tier == "quick" else 60
    for i in range(n):
        e = "LB"[i % 2]
        c = barandom.random_content(rng, e, max_size=rng.choice([8, 16, 32, 48]), cstrings=False)
        if i % 2:
            f, _ = barandom.knob_file(rng, c)
        else:
            r = pyarchive.Ref(e)
            r.d = bytearray(c.data)
            r.text = dict(c.text)
            r.ptr = dict(c.ptr)
            r.lab = {k: list(v) for k, v in c.lab.items() if v}
            f = r.canonical_image()[0]
        out.append((e, f, len(c.data), len(c.ptr) + len(c.text), sum(len(v) for v in c.lab.values())))
    return out


def total_cases(rng, tier):
    cases = []

    def add(e, b, stream):
        cases.append(Case("bafrom %s %s" % (e, B(b)), stream))

    # recorded finding F6 and hand-made header edge cases
    for e in "LB":
        end = "<" if e == "L" else ">"
        add(e, struct.pack(end + "IIII", 0, 0xFFFFFFF0, 4, 0) + bytes(48), "ba-header-fields")
        add(e, struct.pack(end + "IIII", 0, 0, 0x40000000, 0) + bytes(48), "ba-header-fields")
        add(e, struct.pack(end + "IIII", 0, 0, 0, 0x20000000) + bytes(48), "ba-header-fields")
        add(e, struct.pack(end + "IIII", 0, 0xFFFFFFFF, 0xFFFFFFFF, 0xFFFFFFFF) + bytes(16), "ba-header-fields")
        for n in range(0, 34):
            add(e, bytes(n), "ba-short")
    # random bytes, half of them with a plausible header
    n = 500 if tier == "quick" else 20000
    for i in range(n):
        ln = rng.randint(0, 256)
        b = bytearray(rng.getrandbits(8) for _ in range(ln))
        e = "LB"[i % 2]
        if i % 2 and ln >= 32:
            end = "<" if e == "L" else ">"
            dsz = rng.randint(0, max(ln - 32, 0))
            pc = rng.randint(0, 6)
            lc = rng.randint(0, 4)
            b[0:16] = struct.pack(end + "IIII", ln, dsz, pc, lc)
        add(e, b, "ba-random")
    # structure-aware mutations of valid files
    for (e, f, dsz, pc, lc) in valid_files(rng, tier):
        end = "<" if e == "L" else ">"
        add(e, f, "ba-valid")
        # truncation at every offset
        step = 1 if (tier != "quick" or len(f) < 90) else 3
        for k in range(0, len(f), step):
            add(e, f[:k], "ba-truncated")
        # every header field and every table word replaced by boundary values
        words = [0, 4, 8, 12] + list(range(32 + dsz, 32 + dsz + 4 * pc + 8 * lc, 4))
        # plus the data cells that hold pointers (first 4 cells)
        words += list(range(32, min(32 + dsz, 48), 4))
        for w in words:
            vals = BOUNDARY + [len(f), len(f) - 1, len(f) + 1, dsz, dsz + 1, max(dsz - 1, 0), len(f) - 32, len(f) - 31]
            if tier == "quick":
                vals = rng.sample(vals, 10)
            for v in vals:
                g = bytearray(f)
                if w + 4 <= len(g):
                    g[w:w + 4] = struct.pack(end + "I", v & 0xFFFFFFFF)
                    add(e, g, "ba-field-mutation")
        # pairs of header fields whose u32 sum wraps to a small value
        for (a, b2, c2) in [(0xFFFFFFF0, 4, 0), (0xFFFFFFFC, 1, 0), (0, 0x40000000, 0), (0, 0, 0x20000000), (0x80000000, 0x20000000, 0),
                            (dsz, 0x40000000 + pc, lc), (dsz, pc, 0x20000000 + lc), (0xFFFFFFFF - 4 * pc - 8 * lc + 1 + dsz, pc, lc)]:
            g = bytearray(f)
            g[4:16] = struct.pack(end + "III", a & 0xFFFFFFFF, b2 & 0xFFFFFFFF, c2 & 0xFFFFFFFF)
            add(e, g, "ba-wrapping-sums")
        # byte flips
        for _ in range(10 if tier == "quick" else 60):
            g = bytearray(f)
            if g:
                g[rng.randrange(len(g))] ^= 1 << rng.randrange(8)
                add(e, g, "ba-bitflip")
    # game files, truncated
    for path in sorted(glob.glob(os.path.join(common.REPO, "resources", "test", "*.bin")))[:8]:
        f = open(path, "rb").read()
        if len(f) > 4000:
            continue
        for k in ([len(f)] + [rng.randrange(len(f)) for _ in range(4 if tier == "quick" else 40)]):
            add("L", f[:k], "ba-game-truncated")
    return cases


def _split(out):
    m = re.search(r" maxalloc=(\d+)$", out)
    mx = int(m.group(1)) if m else None
    body = out[:m.start()] if m else out
    return body, mx


_norm_cache = {}


def normalise_strings(tokens):
    """map raw Shift-JIS byte tokens (B..) to what the harness prints for the decoded string (harness kind sjisnorm)"""
    todo = [t for t in set(tokens) if t not in _norm_cache]
    for i in range(0, len(todo), 200):
        chunk = todo[i:i + 200]
        p = subprocess.run([common.harness_bin(False)], input=("sjisnorm " + " ".join(chunk) + "\n").encode(),
                           stdout=subprocess.PIPE, stderr=subprocess.DEVNULL, env=common.ENV)
        res = p.stdout.decode().strip().split(" ")
        if len(res) != len(chunk):
            res = chunk
        for t, r in zip(chunk, res):
            _norm_cache[t] = r
    return [_norm_cache[t] for t in tokens]


def _norm_state(body):
    """normalise every string token inside t=[..] and l=[..] of a model state"""
    def fix(m):
        inner = m.group(2)
        toks = re.findall(r"B[0-9a-f]*", inner)
        normed = normalise_strings(toks)
        it = iter(normed)
        return m.group(1) + re.sub(r"B[0-9a-f]*", lambda _: next(it), inner) + "]"
    body2 = re.sub(r"( t=\[)([^\]]*)\]", fix, body)
    body2 = re.sub(r"( l=\[)([^\]]*)\]", fix, body2)
    return body2


def total_agree(case, impl_out, model_out, profile):
    ib, _ = _split(impl_out)
    if ib == model_out:
        return True
    if ib.startswith("ok") and model_out.startswith("ok"):
        # strings decoded lossily by the library: compare through the codec; the re-serialization is then compared
        # only when every string survived the codec (otherwise the library re-encodes different text or refuses)
        i_state, _, i_reser = ib.partition(" reser=")
        m_state, _, m_reser = model_out.partition(" reser=")
        m_norm = _norm_state(m_state)
        if i_state != m_norm:
            return False
        if m_norm == m_state:
            if i_reser == m_reser:
                return True
            return False
        return True
    return False


def total_oracle(case, impl_out, profile):
    if impl_out in ("PANIC", "ABORT", "TIMEOUT", "MISSING-OUTPUT"):
        return "BinArchive::from_bytes: %s on arbitrary bytes" % impl_out
    body, mx = _split(impl_out)
    n = (len(case.line.split()[2]) - 1) // 2
    if mx is not None and mx > ALLOC_FACTOR * n + ALLOC_SLACK:
        return "single allocation request of %d bytes for an input of %d bytes" % (mx, n)
    if not (body.startswith("ok") or body.startswith("err")):
        return "unexpected output %r" % body[:80]
    return None


def total_nontrivial(case, impl_out):
    return case.stream not in ("ba-short",) and len(case.line) > 80


def total_shrink(case):
    toks = case.line.split()
    b = bytes.fromhex(toks[2][1:])
    for k in range(len(b) - 1, 31, -max(1, len(b) // 16)):
        yield Case("bafrom %s %s" % (toks[1], B(b[:k])), case.stream)
