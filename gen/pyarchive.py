# Independent executable statement of the bin-archive properties (C01-C04), used as ORACLE on the
# implementation's outputs.  Written from the property texts (properties.jsonl), not from the Rust
# source and not from the Coq model: a reference archive with
#   data bytes, strings/pointers per cell, labels per address (ordered), pending c-strings per cell.
# `apply(op)` returns the result string in the harness' format (see harness/src/k_ba.rs).
import struct

import namekeys

USIZE = 1 << 64
ISIZE_MAX = (1 << 63) - 1


def B(bs):
    return "B" + bytes(bs).hex()


def unB(tok):
    return bytes.fromhex(tok[1:])


class Ref:
    def __init__(self, endian):
        self.e = endian            # "L" | "B"
        self.d = bytearray()
        self.text = {}             # cell -> bytes
        self.ptr = {}              # cell -> dest
        self.lab = {}              # addr -> [bytes]
        self.cs = []               # [(cell, bytes)] pending c-strings in write order
        self.rpos = 0
        self.wpos = 0

    # ---------------------------------------------------------------- C04 rules
    def inside(self, a, w):
        """the whole (non-empty) range [a, a+w) lies inside the data; w = 0 follows the code: a < size"""
        return a < len(self.d) and a + w <= len(self.d)

    def fmt(self, w):
        return {1: "B", 2: "H", 4: "I"}[w]

    def rd_uint(self, a, w):
        if not self.inside(a, w):
            return "err:oob"
        end = "<" if (self.e == "L") else ">"
        return "ok:%d" % struct.unpack(end + self.fmt(w), bytes(self.d[a:a + w]))[0]

    def rd_sint(self, a, w):
        if not self.inside(a, w):
            return "err:oob"
        end = "<" if (self.e == "L") else ">"
        return "ok:%d" % struct.unpack(end + self.fmt(w).lower(), bytes(self.d[a:a + w]))[0]

    def wr_uint(self, a, w, v):
        if not self.inside(a, w):
            return "err:oob"
        end = "<" if (self.e == "L") else ">"
        self.d[a:a + w] = struct.pack(end + self.fmt(w), v % (1 << (8 * w)))
        return "ok"

    def cell(self, a):
        return self.inside(a, 4)

    # ---------------------------------------------------------------- C03 rules
    def allocate(self, a, n, ge):
        if a > len(self.d):
            return "err:oob"
        if a % 4 != 0 or n % 4 != 0:
            return "err:unaligned"
        kappa = lambda x: x + n if x >= a else x                      # strings, pointer cells, c-string cells
        tau = lambda x: x + n if (x > a or (x == a and ge)) else x    # labels, pointer targets
        # "shifts every ... pointer target ... by n": possible only if the shifted archive exists - the new size must be a
        # vector length (<= isize::MAX) and every relocated target an address (a usize); otherwise the request is rejected
        # and nothing changes (property text: "rejected and leave the archive unchanged"; code since fix 0edd128, F24)
        if len(self.d) + n > ISIZE_MAX or any(tau(v) >= USIZE for v in self.ptr.values()):
            return "err:oob"
        self.d[a:a] = bytes(n)
        self.text = {kappa(k): v for k, v in self.text.items()}
        self.ptr = {kappa(k): tau(v) for k, v in self.ptr.items()}
        self.lab = {tau(k): v for k, v in self.lab.items()}
        self.cs = [(kappa(c), s) for c, s in self.cs]
        return "ok"

    def deallocate(self, a, n, ge):
        if not (a < len(self.d) and a + n <= len(self.d)):
            return "err:oob"
        if a % 4 != 0 or n % 4 != 0:
            return "err:unaligned"
        del self.d[a:a + n]
        gone = lambda x: a <= x < a + n
        back = lambda x: x - n if x >= a else x
        backl = lambda x: x - n if (x > a or (x == a and ge)) else x
        self.text = {back(k): v for k, v in self.text.items() if not gone(k)}
        self.ptr = {back(k): backl(v) for k, v in self.ptr.items() if not gone(k) and not gone(v)}
        self.lab = {backl(k): v for k, v in self.lab.items() if not gone(k)}
        self.cs = [(back(c), s) for c, s in self.cs if not gone(c)]
        return "ok"

    def truncate(self, a):
        if a >= len(self.d):
            return "ok"
        del self.d[a:]
        self.text = {k: v for k, v in self.text.items() if k < a}
        self.ptr = {k: v for k, v in self.ptr.items() if k < a}
        self.lab = {k: v for k, v in self.lab.items() if k < a}
        self.cs = [(c, s) for c, s in self.cs if c < a]
        return "ok"

    # ---------------------------------------------------------------- state
    def state(self, level):
        if level == 0:
            return ""
        size = len(self.d)
        t = ",".join("%d:%s" % (k, B(self.text[k])) for k in sorted(self.text) if k + 4 <= size)
        p = ",".join("%d:%d" % (k, self.ptr[k]) for k in sorted(self.ptr) if k + 4 <= size)
        l = ",".join("%d:%s" % (k, "|".join(B(x) for x in self.lab[k])) for k in sorted(self.lab) if self.lab[k])
        pd = ",".join(str(x) for x in sorted(set(self.ptr.values())))
        s = " | sz=%d d=%s t=[%s] p=[%s] l=[%s] pd=[%s]" % (size, B(self.d), t, p, l, pd)
        return s

    def expected_rc(self):
        """where pending c-strings must be readable after serialize -> parse; None when not judged
        (two c-strings on one cell, or a c-string sharing its cell with a string/pointer: outside the property's domain)"""
        cells = [c for c, _ in self.cs]
        if len(set(cells)) != len(cells):
            return None
        if any(c in self.text or c in self.ptr for c in cells):
            return None
        if any(0 in s for _, s in self.cs):
            return None
        # cells must not overlap each other or string / pointer cells
        occupied = sorted(set(cells) | set(self.text) | set(self.ptr))
        for x, y in zip(occupied, occupied[1:]):
            if y - x < 4:
                return None
        if any(k + 4 > len(self.d) for k in occupied):
            return None
        # the image is only required to parse back for archives in C01's domain (targets and labels inside)
        if any(v > len(self.d) for v in self.ptr.values()) or any(k > len(self.d) for k in self.lab):
            return None
        if any(0 in s for s in self.text.values()) or any(0 in n for b in self.lab.values() for n in b):
            return None
        return "[" + ",".join("%d:%s" % (c, B(s)) for c, s in sorted(self.cs)) + "]"

    # ---------------------------------------------------------------- C01 / C02: the canonical image
    def in_domain(self):
        """the quantifier of C01/C02: at most one pointer/string/c-string per cell, cells do not overlap and lie inside
        the data, pointer targets and labels <= size, strings NUL-free, buckets non-empty"""
        cells = [c for c, _ in self.cs]
        if len(set(cells)) != len(cells) or any(c in self.text or c in self.ptr for c in cells):
            return False
        if any(c in self.ptr for c in self.text):
            return False
        occupied = sorted(set(cells) | set(self.text) | set(self.ptr))
        if any(y - x < 4 for x, y in zip(occupied, occupied[1:])) or any(k + 4 > len(self.d) for k in occupied):
            return False
        if any(v > len(self.d) for v in self.ptr.values()) or any(k > len(self.d) for k in self.lab):
            return False
        if any(0 in s for s in self.text.values()) or any(0 in n for b in self.lab.values() for n in b) or any(0 in s for _, s in self.cs):
            return False
        return True

    def canonical_image(self):
        """C02's canonical file image (with C01's c-string pool when c-strings are pending): header totals that match the
        bytes; internal pointers by ascending address (the pool pointers among them), then string pointers grouped by string
        in first-use order, each group ascending; labels by address (LE) or by name (as decoded String) then address (BE); text section =
        label names in emission order then strings in first-use order, every distinct string once."""
        end = "<" if self.e == "L" else ">"
        u32 = lambda v: struct.pack(end + "I", v & 0xFFFFFFFF)
        size = len(self.d)
        # c-string pool: distinct strings sorted by their bytes, NUL-terminated, padded to 4
        pool = bytearray()
        pool_off = {}
        for s in sorted(set(s for _, s in self.cs)):
            pool_off[s] = len(pool)
            pool += s + b"\0"
        while len(pool) % 4:
            pool.append(0)
        ptrs = dict(self.ptr)
        for c, s in self.cs:
            ptrs[c] = size + pool_off[s]
        ptr_cells = sorted(ptrs)
        # labels
        if self.e == "L":
            lab_order = sorted((k for k in self.lab), key=lambda k: k)
        else:
            # the library compares the names as Strings: Unicode scalars of the decoded names (gen/namekeys.py)
            lab_order = sorted((k for k in self.lab), key=lambda k: (namekeys.bucket_key(self.lab[k]), k))
        text_items = []
        off = {}
        tsec = bytearray()

        def add(s):
            if s not in off:
                off[s] = len(tsec)
                tsec.extend(s + b"\0")
            return off[s]
        ltab = []
        for k in lab_order:
            for name in self.lab[k]:
                ltab.append((k, add(name)))
        # strings in first-use order (ascending cell), grouped
        groups = {}
        order = []
        for c in sorted(self.text):
            s = self.text[c]
            o = add(s)
            if o not in groups:
                groups[o] = []
                order.append(o)
            groups[o].append(c)
        ptab = list(ptr_cells)
        for o in order:
            ptab += sorted(groups[o])
        text_start = size + len(pool) + 4 * len(ptab) + 8 * len(ltab)
        data = bytearray(self.d)
        for c in ptr_cells:
            data[c:c + 4] = u32(ptrs[c])
        for c in sorted(self.text):
            data[c:c + 4] = u32(text_start + off[self.text[c]])
        body = bytes(data) + bytes(pool) + b"".join(u32(x) for x in ptab) + b"".join(u32(a) + u32(o) for a, o in ltab) + bytes(tsec)
        fsz = len(body) + 32
        return u32(fsz) + u32(size + len(pool)) + u32(len(ptab)) + u32(len(ltab)) + bytes(16) + body, bytes(data) + bytes(pool), ptrs

    def expected_reparsed_state(self):
        """C01: the archive parsed back from the image: same size plus the pool, same strings, pointers (plus the published
        c-strings), labels; raw bytes equal outside pointer cells (here: the patched data)."""
        _, data, ptrs = self.canonical_image()
        r = Ref(self.e)
        r.d = bytearray(data)
        r.text = dict(self.text)
        r.ptr = dict(ptrs)
        r.lab = {k: list(v) for k, v in self.lab.items() if v}
        return r.state(1)

    # ---------------------------------------------------------------- dispatcher
    def apply(self, op, args):
        """returns result string, or None when this operation is outside the reference's scope"""
        u = lambda k: int(args[k])
        o = op
        pos_suffix = ""
        if o == "fresh":
            return "ok"
        if o in ("Rseek", "Wseek"):
            if o[0] == "R":
                self.rpos = u(0)
                return "pos:%d" % self.rpos
            self.wpos = u(0)
            return "pos:%d" % self.wpos
        if o in ("Rskip", "Wskip"):
            if o[0] == "R":
                self.rpos += u(0)
                return "pos:%d" % self.rpos
            self.wpos += u(0)
            return "pos:%d" % self.wpos
        stream = None
        if o[0] == "R" and o[1:] in ("ru8", "ri8", "ru16", "ri16", "ru32", "ri32", "rf32", "rb", "rs", "rp", "rc", "rls", "rl"):
            stream = "R"
            o = o[1:]
            a = self.rpos
            rest = list(args)
        elif o[0] == "W" and o[1:] in ("wu8", "wi8", "wu16", "wi16", "wu32", "wi32", "wf32", "wb", "ws", "ws0", "wp", "wp0", "wl", "wc", "al", "aae"):
            stream = "W"
            o = o[1:]
            a = self.wpos
            rest = list(args)
        else:
            a = None
            rest = list(args)
        if stream is None and o not in ("aae", "ser", "fl", "from"):
            a = int(rest.pop(0))

        width = {"ru8": 1, "ri8": 1, "ru16": 2, "ri16": 2, "ru32": 4, "ri32": 4, "rf32": 4,
                 "wu8": 1, "wi8": 1, "wu16": 2, "wi16": 2, "wu32": 4, "wi32": 4, "wf32": 4,
                 "rs": 4, "rp": 4, "rc": 4, "ws": 4, "ws0": 4, "wp": 4, "wp0": 4, "wc": 4}.get(o, 0)
        res = None
        if o in ("ru8", "ru16", "ru32", "rf32"):
            res = self.rd_uint(a, width)
        elif o in ("ri8", "ri16", "ri32"):
            res = self.rd_sint(a, width)
        elif o in ("wu8", "wu16", "wu32", "wf32"):
            res = self.wr_uint(a, width, int(rest[0]))
        elif o in ("wi8", "wi16", "wi32"):
            res = self.wr_uint(a, width, int(rest[0]))
        elif o == "rb":
            n = int(rest[0])
            if stream == "R":
                # successive byte reads; cursor stays after the bytes read
                got = bytearray()
                ok = True
                for _ in range(min(n, len(self.d) + 1)):
                    if self.rpos < len(self.d):
                        got.append(self.d[self.rpos])
                        self.rpos += 1
                    else:
                        ok = False
                        break
                return ("ok:%s" % B(got) if ok else "err:oob") + " pos:%d" % self.rpos
            res = ("ok:" + B(self.d[a:a + n])) if self.inside(a, n) else "err:oob"
        elif o == "wb":
            bs = unB(rest[0])
            if stream == "W":
                ok = True
                for b in bs:
                    if self.wpos < len(self.d):
                        self.d[self.wpos] = b
                        self.wpos += 1
                    else:
                        ok = False
                        break
                return ("ok" if ok else "err:oob") + " pos:%d" % self.wpos
            if self.inside(a, len(bs)):
                self.d[a:a + len(bs)] = bs
                res = "ok"
            else:
                res = "err:oob"
        elif o == "rs":
            res = ("ok:some:" + B(self.text[a]) if a in self.text else "ok:none") if self.cell(a) else "err:oob"
        elif o == "rp":
            res = ("ok:some:%d" % self.ptr[a] if a in self.ptr else "ok:none") if self.cell(a) else "err:oob"
        elif o == "rl" and stream is None:
            res = ("ok:some:" + "|".join(B(x) for x in self.lab[a]) if a in self.lab else "ok:none") if self.cell(a) else "err:oob"
        elif o == "rls":
            res = ("ok:some:" + "|".join(B(x) for x in self.lab[a]) if a in self.lab else "ok:none") if self.cell(a) else "err:oob"
            return res + " pos:%d" % self.rpos
        elif o == "rl" and stream == "R":
            i = int(rest[0])
            if not self.cell(a):
                res = "err:oob"
            elif a in self.lab and i < len(self.lab[a]):
                res = "ok:some:" + B(self.lab[a][i])
            else:
                res = "ok:none"
            return res + " pos:%d" % self.rpos
        elif o == "rc":
            if not self.cell(a):
                res = "err:oob"
            elif a not in self.ptr:
                res = "ok:none"
            else:
                p = self.ptr[a]
                if p >= len(self.d):
                    res = "err:oob"
                else:
                    z = bytes(self.d).find(b"\0", p)
                    res = "ok:some:" + B(self.d[p:z]) if z >= 0 else "err:other"
        elif o == "ws":
            if self.cell(a):
                self.text[a] = unB(rest[0])
                res = "ok"
            else:
                res = "err:oob"
        elif o in ("ws0", "ds"):
            if self.cell(a):
                self.text.pop(a, None)
                res = "ok"
            else:
                res = "err:oob"
        elif o == "wp":
            if self.cell(a):
                self.ptr[a] = int(rest[0])
                res = "ok"
            else:
                res = "err:oob"
        elif o in ("wp0", "dp"):
            if self.cell(a):
                self.ptr.pop(a, None)
                res = "ok"
            else:
                res = "err:oob"
        elif o == "wc":
            if self.cell(a):
                self.cs.append((a, unB(rest[0])))
                res = "ok"
            else:
                res = "err:oob"
        elif o == "wl":
            if a <= len(self.d):
                self.lab.setdefault(a, []).append(unB(rest[0]))
                res = "ok"
            else:
                res = "err:oob"
            if stream == "W":
                return res + " pos:%d" % self.wpos
        elif o == "wls":
            n = int(rest[0])
            if a <= len(self.d):
                self.lab[a] = [unB(x) for x in rest[1:1 + n]]
                res = "ok"
            else:
                res = "err:oob"
        elif o == "dls":
            if self.cell(a):
                self.lab.pop(a, None)
                res = "ok"
            else:
                res = "err:oob"
        elif o == "dl":
            i = int(rest[0])
            if not self.cell(a):
                res = "err:oob"
            elif a not in self.lab:
                res = "ok"
            elif i < len(self.lab[a]):
                del self.lab[a][i]
                res = "ok"
            else:
                res = "err:labelidx"
        elif o == "aae":
            n = int(rest[0])
            self.d.extend(bytes(n))
            if stream == "W":
                return "ok pos:%d" % self.wpos
            return "ok"
        elif o == "al":
            if stream == "W":
                n, ge = int(rest[0]), rest[1] == "1"
                if self.wpos == len(self.d):
                    self.d.extend(bytes(n))
                    return "ok pos:%d" % self.wpos
                return self.allocate(self.wpos, n, ge) + " pos:%d" % self.wpos
            res = self.allocate(a, int(rest[0]), rest[1] == "1")
        elif o == "de":
            res = self.deallocate(a, int(rest[0]), rest[1] == "1")
        elif o == "tr":
            res = self.truncate(a)
        elif o == "fl":
            name = unB(rest[0])
            hits = [k for k in self.lab if name in self.lab[k]]
            if len(hits) == 1:
                res = "some:%d" % hits[0]
            elif not hits:
                res = "none"
            else:
                res = None  # ambiguous: any of the addresses is acceptable
        else:
            return None
        if stream == "R":
            if res is not None and res.startswith("ok"):
                self.rpos += width
            return res + " pos:%d" % self.rpos
        if stream == "W":
            if res is not None and res.startswith("ok"):
                self.wpos += width
            return res + " pos:%d" % self.wpos
        return res


def n_args(op, toks, i):
    """number of argument tokens of op at toks[i]"""
    fixed = {"fresh": 0, "lvl": 1, "from": 1, "aae": 1, "al": 3, "de": 3, "tr": 1, "wu8": 2, "wi8": 2, "wu16": 2, "wi16": 2, "wu32": 2, "wi32": 2,
             "wf32": 2, "wb": 2, "ru8": 1, "ri8": 1, "ru16": 1, "ri16": 1, "ru32": 1, "ri32": 1, "rf32": 1, "rb": 2, "ws": 2,
             "ws0": 1, "wp": 2, "wp0": 1, "wl": 2, "wc": 2, "rs": 1, "rp": 1, "rl": 1, "rc": 1, "ds": 1, "dp": 1, "dls": 1,
             "dl": 2, "fl": 1, "ser": 0, "Rseek": 1, "Rskip": 1, "Rru8": 0, "Rri8": 0, "Rru16": 0, "Rri16": 0, "Rru32": 0,
             "Rri32": 0, "Rrf32": 0, "Rrb": 1, "Rrs": 0, "Rrp": 0, "Rrc": 0, "Rrls": 0, "Rrl": 1, "Wseek": 1, "Wskip": 1,
             "Wal": 2, "Waae": 1, "Wwu8": 1, "Wwi8": 1, "Wwu16": 1, "Wwi16": 1, "Wwu32": 1, "Wwi32": 1, "Wwf32": 1, "Wwb": 1,
             "Wws": 1, "Wws0": 0, "Wwp": 1, "Wwp0": 0, "Wwl": 1, "Wwc": 1}
    if op == "wls":
        return 2 + int(toks[i + 2])
    return fixed[op]


def parse_case(line):
    toks = namekeys.strip_toks(line.split())
    assert toks[0] == "ba"
    endian, level = toks[1], int(toks[2][1:])
    ops = []
    i = 3
    while i < len(toks):
        op = toks[i]
        k = n_args(op, toks, i)
        ops.append((op, toks[i + 1:i + 1 + k]))
        i += 1 + k
    return endian, level, ops


def render_case(endian, level, ops):
    parts = ["ba", endian, "s%d" % level]
    for op, args in ops:
        parts.append(op)
        parts.extend(args)
    return " ".join(parts)


def expected(line):
    """list of expected steps: None (not judged) or dict(res, st, rc, img, re)"""
    endian, level, ops = parse_case(line)
    r = Ref(endian)
    out = []
    for k, (op, args) in enumerate(ops):
        if op == "from":
            return out + [None] * (len(ops) - len(out))
        if op == "lvl":
            level = int(args[0])
            res = "ok"
        elif op == "fresh":
            res = "ok"     # harness only: the next stream operation gets a fresh reader / writer object
        elif op == "ser":
            res = None
            if r.in_domain():
                res = "ok:" + B(r.canonical_image()[0])
        else:
            res = r.apply(op, args)
        if res is None:
            out.append(None)
            continue
        step = {"res": res, "st": r.state(min(level, 1)), "rc": None, "img": None, "re": None}
        if level >= 2:
            step["rc"] = r.expected_rc()
            if r.in_domain():
                step["img"] = B(r.canonical_image()[0])
                step["re"] = r.expected_reparsed_state()
        out.append(step)
    return out


def split_step(got):
    """implementation step -> dict(base, rc, re, reser, ser)"""
    d = {"rc": None, "re": None, "reser": None, "ser": None}
    g = got
    if " ser=" in g:
        g, d["ser"] = g.rsplit(" ser=", 1)
    if " reser=" in g:
        g, d["reser"] = g.rsplit(" reser=", 1)
    if " re:" in g:
        g, d["re"] = g.rsplit(" re:", 1)
    if " rc=" in g:
        g, d["rc"] = g.rsplit(" rc=", 1)
    d["base"] = g
    return d


def mask_lossy(impl_out, model_out):
    """leg K for kind ba: where the library printed ok:some:LOSSY (lossy Shift-JIS decode of non-text bytes) the model's
    byte string at that step is not comparable; replace it by the same token"""
    if "ok:some:LOSSY" not in impl_out:
        return model_out
    a, b = impl_out.split(" ; "), model_out.split(" ; ")
    if len(a) != len(b):
        return model_out
    for i, (x, y) in enumerate(zip(a, b)):
        if x.startswith("ok:some:LOSSY") and y.startswith("ok:some:B"):
            b[i] = "ok:some:LOSSY" + y[len(y.split(" ", 1)[0]):]
    return " ; ".join(b)


def judge(line, impl_out, check_image=True):
    """compare implementation output with the reference; returns None or failure text"""
    if impl_out in ("PANIC", "ABORT", "TIMEOUT", "MISSING-OUTPUT"):
        return "implementation %s" % impl_out
    exp = expected(line)
    steps = impl_out.split(" ; ") if impl_out != "" else []
    if len(steps) != len(exp):
        return "step count differs (%d vs %d)" % (len(steps), len(exp))
    for i, (got, want) in enumerate(zip(steps, exp)):
        if want is None:
            continue
        d = split_step(got)
        if d["base"].startswith("ok:some:LOSSY") and want["res"].startswith("ok:some:"):
            # the library decoded bytes that are not Shift-JIS text (read_c_string into raw data): only the state is compared
            # (only the value token is replaced: a stream read carries ` pos:<n>` behind it on both sides)
            d["base"] = want["res"].split(" ", 1)[0] + d["base"][len("ok:some:LOSSY"):]
        if d["base"] != want["res"] + want["st"]:
            return "step %d: reference says %r, implementation %r" % (i, (want["res"] + want["st"])[:300], d["base"][:300])
        if want["rc"] is not None and d["ser"] is not None:
            # pending c-strings must be where the reference has them once the image is parsed again
            if d["ser"] == "err" or d["rc"] != want["rc"]:
                return "step %d: pending c-strings: reference says %s, re-parsed image has %s (ser=%s)" % (i, want["rc"], d["rc"], (d["ser"] or "")[:40])
        if check_image and want["img"] is not None and d["ser"] is not None and d["ser"] != want["img"]:
            return "step %d: serialize image is not the canonical image of the content: want %s got %s" % (i, want["img"][:400], d["ser"][:400])
        if want["re"] is not None and d["re"] is not None and d["re"] != want["re"]:
            return "step %d: archive parsed back from the image differs: want %s got %s" % (i, want["re"][:300], d["re"][:300])
        if want["img"] is not None and d["reser"] is not None and d["reser"] != "same":
            return "step %d: parse then re-serialize does not reproduce the image (%s)" % (i, d["reser"][:200])
    return None
