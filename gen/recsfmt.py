# Shared by gen/c17.py, gen/c18.py, gen/recstotal.py: case-line encoding of ASetFile / AssetBinary values,
# an independent little-endian bin-archive reference writer/parser (written from the format description in
# DESIGN section 2, not from the Coq model), and independent Python decoders of the two record formats used
# by the oracles.  Python 3 standard library only.
import struct

# ----------------------------------------------------------------------------- strings
# Shift-JIS encoded strings that encoding_rs decodes and re-encodes losslessly (A-codec; the C17/C18 harness kinds
# decode the B token with SHIFT_JIS.decode and the library encodes it again with SHIFT_JIS.encode).
ASCII_WORDS = [b"a", b"AnimClip", b"uHead_00", b"x y", b"0", b"~", b"\\", b"label", b"none1", b"AnimClipNameTable2",
               b"anim_clip_name_table", b"Z" * 31, b"%d", b"\x7f", b"\x01"]
SJIS_WORDS = [bytes.fromhex("82a0"),              # hiragana a
              bytes.fromhex("8341835c"),          # katakana a, so (second byte 0x5c)
              bytes.fromhex("955c8ea6"),          # hyou-ji (0x5c trail byte)
              bytes.fromhex("b1b2b3"),            # half-width katakana
              bytes.fromhex("93fa967b8cea"),      # nihongo
              bytes.fromhex("8d5c82a682e9"),      # kamaeru
              bytes.fromhex("41829f42"),          # mixed single/double byte
              # 2 bytes in UTF-8 and in Shift-JIS, no 3-byte character, final ASCII (seeded change C01-8: an encoder buffer sized
              # from the UTF-8 length loses the last character)
              bytes.fromhex("3930818b43"),        # 90°C
              bytes.fromhex("35817e35"),          # 5×5
              bytes.fromhex("83bf31"),            # α1
              bytes.fromhex("817d78")]            # ±x
# codec edge strings, every one checked lossless with the library's own codec (harness kind `sjdec`: no "!"):
#  - half-width katakana whose Shift-JIS bytes are also VALID UTF-8 (lead C2..DF + trail A1..BF): a UTF-8 fast path decodes them wrongly
#    (seed C17-8); runs of even and odd length, with ASCII around them, next to runs that are not valid UTF-8;
#  - the CP932 / JIS "wave dash class": code points where Shift-JIS flavours disagree (seed C18-8 maps U+FF5E to U+301C).
CODEC_WORDS = [bytes.fromhex("d0bd"),             # ﾐｽ      (= UTF-8 of U+043D)
               bytes.fromhex("c3b1"),             # ﾃｱ      (= UTF-8 of U+00F1)
               bytes.fromhex("cadf"),             # ﾊﾟ      (not valid UTF-8)
               bytes.fromhex("cadfca"),           # ﾊﾟﾊ     odd length
               bytes.fromhex("d0bdd0bd"),         # ﾐｽﾐｽ
               bytes.fromhex("c4b15f31"),         # ﾄｱ_1
               b"test_non_" + bytes.fromhex("c4b131"),
               bytes.fromhex("b1"),               # ｱ       single
               bytes.fromhex("8160"),             # U+FF5E FULLWIDTH TILDE (wave dash cell)
               bytes.fromhex("8160418160"),       # ~A~ full-width
               bytes.fromhex("817c"),             # U+FF0D FULLWIDTH HYPHEN-MINUS
               bytes.fromhex("8191"),             # U+FFE0 FULLWIDTH CENT SIGN
               bytes.fromhex("8192"),             # U+FFE1 FULLWIDTH POUND SIGN
               bytes.fromhex("81ca"),             # U+FFE2 FULLWIDTH NOT SIGN
               bytes.fromhex("8161"),             # U+2225 PARALLEL TO (JIS: U+2016)
               bytes.fromhex("815c"),             # U+2015 HORIZONTAL BAR (JIS: U+2014)
               bytes.fromhex("8150"),             # U+FFE3 FULLWIDTH MACRON
               bytes.fromhex("818f"),             # U+FFE5 FULLWIDTH YEN SIGN
               bytes.fromhex("815f")]             # U+FF3C FULLWIDTH REVERSE SOLIDUS


# pairs of DIFFERENT strings with equal rustc_hash::FxHasher state (gen/fxpairs.py, verified at import): a string pool / cell
# grouping keyed by a 64-bit hash instead of the string merges them (seed C18-10)
import fxpairs
FX_PAIRS = fxpairs.ALL_PAIRS
FX_WORDS = [w for pr in FX_PAIRS for w in pr]


def rand_string(rng, allow_empty=True):
    r = rng.random()
    if allow_empty and r < 0.08:
        return b""
    if r < 0.55:
        return rng.choice(ASCII_WORDS)
    if r < 0.70:
        return rng.choice(SJIS_WORDS)
    if r < 0.78:
        return rng.choice(CODEC_WORDS)
    if r < 0.80:
        return rng.choice(FX_WORDS)
    n = rng.randint(1, 12)
    return bytes(rng.choice(b"abcdefghijklmnopqrstuvwxyzABCDEFGHIJKLMNOPQRSTUVWXYZ0123456789_") for _ in range(n))


def B(bs):
    return "B" + bytes(bs).hex()


def unB(tok):
    return bytes.fromhex(tok[1:])


def L(vals):
    return "L" + ",".join(str(v) for v in vals)


def unL(tok):
    body = tok[1:]
    return [int(x) for x in body.split(",")] if body else []


# ----------------------------------------------------------------------------- bin archive (LE) reference
def write_archive(data, strings=None, labels=None, pointers=None):
    """data: bytes; strings: {cell: bytes}; labels: [(address, name bytes)] in emission order; pointers: {cell: dest}.
    Returns the file image in the layout BinArchive::serialize uses (pointer cells ascending, then string cells grouped
    by string in first-use order; labels by address; text = label names then strings, each distinct string once)."""
    strings = strings or {}
    labels = labels or []
    pointers = pointers or {}
    d = bytearray(data)
    ptab = []
    for cell in sorted(pointers):
        d[cell:cell + 4] = struct.pack("<I", pointers[cell] & 0xFFFFFFFF)
        ptab.append(cell)
    text = bytearray()
    offs = {}

    def add(s):
        if s not in offs:
            offs[s] = len(text)
            text.extend(s + b"\0")
        return offs[s]

    ltab = []
    for addr, name in sorted(labels, key=lambda p: p[0]):
        ltab.append((addr, add(name)))
    text_start = len(d) + 4 * (len(ptab) + len(strings)) + 8 * len(ltab)
    groups = {}
    order = []
    for cell in sorted(strings):
        off = add(strings[cell])
        d[cell:cell + 4] = struct.pack("<I", (text_start + off) & 0xFFFFFFFF)
        if off not in groups:
            groups[off] = []
            order.append(off)
        groups[off].append(cell)
    for off in order:
        ptab.extend(sorted(groups[off]))
    body = bytes(d) + b"".join(struct.pack("<I", c) for c in ptab) + b"".join(struct.pack("<II", a, o) for a, o in ltab) + bytes(text)
    hdr = struct.pack("<IIII", len(body) + 0x20, len(d), len(ptab), len(ltab)) + bytes(16)
    return hdr + body


class Parsed:
    pass


def parse_archive(f):
    """Independent parser of a little-endian bin archive image.  Returns an object with data (bytearray, raw),
    strings {cell: bytes}, pointers {cell: dest}, labels [(address, name)] in table order; None if the image is
    not a well-formed archive."""
    if len(f) < 0x20:
        return None
    fsz, dsz, pc, lc = struct.unpack_from("<IIII", f, 0)
    tstart = dsz + 4 * pc + 8 * lc
    if tstart + 0x20 > len(f):
        return None
    p = Parsed()
    p.file_size, p.data_size, p.pointer_count, p.label_count = fsz, dsz, pc, lc
    p.data = bytearray(f[0x20:0x20 + dsz])
    p.strings, p.pointers, p.labels = {}, {}, []
    p.ptab_off = 0x20 + dsz
    p.ltab_off = 0x20 + dsz + 4 * pc
    p.text_off = 0x20 + tstart

    def cstr(at):
        if at >= len(f):
            return None
        z = f.find(b"\0", at)
        return None if z < 0 else f[at:z]

    for i in range(pc):
        (cell,) = struct.unpack_from("<I", f, p.ptab_off + 4 * i)
        if cell + 4 > dsz:
            return None
        (v,) = struct.unpack_from("<I", p.data, cell)
        if v > dsz:
            s = cstr(v + 0x20)
            if s is None:
                return None
            p.strings[cell] = s
        else:
            p.pointers[cell] = v
    for i in range(lc):
        addr, off = struct.unpack_from("<II", f, p.ltab_off + 8 * i)
        s = cstr(p.text_off + off)
        if s is None or addr > dsz:
            return None
        p.labels.append((addr, s))
    return p


def u32(d, off):
    return struct.unpack_from("<I", d, off)[0]


# ----------------------------------------------------------------------------- asset binary
N_STRS = 33
N_TYPED = 18
# position (byte, bit) of the flag of every flagged field, in record order: the 33 strings, then the 18 typed fields.
# bit 0 of byte 0 is the "long form" marker.  (Format knowledge, restated from the property text: "each bit toggled
# independently"; the order of the fields in a record is the order of their bits.)
FIELD_BITS = [divmod(i, 8) for i in range(1, 1 + N_STRS + N_TYPED)]
TYPED_KINDS = ["color", "color", "color", "f32", "f32", "f32", "u32", "u32", "u32", "u32", "color",
               "u32", "u32", "u32", "u32", "u32", "u32", "u32"]
EXT_FIRST = 31      # index (0-based, strings then typed) of the first field that needs the long form (byte >= 4)


def empty_spec():
    return {"name": None, "strs": [None] * N_STRS, "typed": [(False, 0)] * N_TYPED}


def spec_tokens(sp):
    sm = 0
    toks = []
    if sp["name"] is not None:
        sm |= 1
        toks.append(B(sp["name"]))
    for i, s in enumerate(sp["strs"]):
        if s is not None:
            sm |= 1 << (i + 1)
            toks.append(B(s))
    um = 0
    for j, (u, _) in enumerate(sp["typed"]):
        if u:
            um |= 1 << j
    return [str(sm)] + toks + [str(um), L([v for (_, v) in sp["typed"]])]


def asset_value_tokens(flags, specs):
    toks = [str(flags), str(len(specs))]
    for sp in specs:
        toks += spec_tokens(sp)
    return toks


def asset_case(flags, specs):
    return "asset v " + " ".join(asset_value_tokens(flags, specs))


def parse_asset_value(toks):
    """inverse of asset_value_tokens; returns (flags, specs, rest)"""
    flags = int(toks[0])
    n = int(toks[1])
    i = 2
    specs = []
    for _ in range(n):
        sm = int(toks[i])
        i += 1
        sp = empty_spec()
        if sm & 1:
            sp["name"] = unB(toks[i])
            i += 1
        for k in range(N_STRS):
            if (sm >> (k + 1)) & 1:
                sp["strs"][k] = unB(toks[i])
                i += 1
        um = int(toks[i])
        vals = unL(toks[i + 1])
        i += 2
        sp["typed"] = [(((um >> j) & 1) == 1, vals[j]) for j in range(N_TYPED)]
        specs.append(sp)
    return flags, specs, toks[i:]


def normal_form(sp):
    """an absent typed field holds its default"""
    return {"name": sp["name"], "strs": list(sp["strs"]), "typed": [(u, v if u else 0) for (u, v) in sp["typed"]]}


def popcount(x):
    return bin(x).count("1")


def announced_size(flag_bytes):
    """bytes a record occupies according to its flag bytes alone"""
    bits = sum(popcount(b) for b in flag_bytes) - (flag_bytes[0] & 1)
    return len(flag_bytes) + 4 + 4 * bits


def decode_asset_image(f):
    """Independent decoder of an asset-binary file image: walks the records by their flag bytes.
    Returns (header flags, [spec], [(offset, flag bytes, size)]) or a string describing why the image is malformed."""
    p = parse_archive(f)
    if p is None:
        return "image is not a well-formed archive"
    d = p.data
    if len(d) < 8 or len(d) % 4 != 0:
        return "data size %d" % len(d)
    hdr = u32(d, 0)
    off = 4
    specs = []
    recs = []
    end = len(d) - 4
    if u32(d, end) != 0 or end in p.strings:
        return "no trailing zero word"
    while off < end:
        n = 8 if d[off] & 1 else 4
        if off + n + 4 > end:
            return "record at %d leaves the data" % off
        fb = bytes(d[off:off + n])
        size = announced_size(fb)
        if off + size > end:
            return "record at %d announces %d bytes, only %d left" % (off, size, end - off)
        sp = empty_spec()
        q = off + n
        sp["name"] = p.strings.get(q)
        if sp["name"] is None and u32(d, q) != 0:
            return "name cell at %d holds raw data" % q
        q += 4
        for idx, (byte, bit) in enumerate(FIELD_BITS):
            if byte >= n or not (fb[byte] >> bit) & 1:
                continue
            if idx < N_STRS:
                if q not in p.strings:
                    return "cell at %d should be a string (field %d)" % (q, idx)
                sp["strs"][idx] = p.strings[q]
            else:
                if q in p.strings or q in p.pointers:
                    return "cell at %d should be raw (field %d)" % (q, idx)
                j = idx - N_STRS
                raw = bytes(d[q:q + 4])
                if TYPED_KINDS[j] == "color":
                    raw = bytes([raw[2], raw[1], raw[0], raw[3]])       # stored b,g,r,a
                sp["typed"][j] = (True, struct.unpack("<I", raw)[0])
            q += 4
        if q != off + size:
            return "record at %d: fields end at %d, flags announce %d" % (off, q, off + size)
        # no annotation may sit in the flag bytes
        for c in range(off, off + n, 4):
            if c in p.strings or c in p.pointers:
                return "flag bytes at %d are annotated" % c
        recs.append((off, fb, size))
        specs.append(sp)
        off += size
    if off != end:
        return "records end at %d, trailing word at %d" % (off, end)
    return hdr, specs, recs


def encode_asset_image(flags, specs, force_long=False, junk_bits=0):
    """Independent writer of an asset-binary image (for malformed-input streams): force_long writes the 8-byte flag
    form even when no extended field is present; junk_bits ORs unused bits into flag bytes 6 and 7."""
    d = bytearray(struct.pack("<I", flags))
    strings = {}
    for sp in specs:
        fb = bytearray(8)
        cells = []
        for idx, (byte, bit) in enumerate(FIELD_BITS):
            if idx < N_STRS:
                v = sp["strs"][idx]
                if v is not None:
                    fb[byte] |= 1 << bit
                    cells.append(("s", v))
            else:
                u, v = sp["typed"][idx - N_STRS]
                if u:
                    fb[byte] |= 1 << bit
                    raw = struct.pack("<I", v)
                    if TYPED_KINDS[idx - N_STRS] == "color":
                        raw = bytes([raw[2], raw[1], raw[0], raw[3]])
                    cells.append(("r", raw))
        long_form = force_long or any(fb[4:7])
        if junk_bits:
            fb[6] |= (junk_bits & 0xF) << 4
            fb[7] |= (junk_bits >> 4) & 0xFF
            long_form = True
        if long_form:
            fb[0] |= 1
            d += fb
        else:
            d += fb[:4]
        if sp["name"] is not None:
            strings[len(d)] = sp["name"]
        d += bytes(4)
        for kind, v in cells:
            if kind == "s":
                strings[len(d)] = v
                d += bytes(4)
            else:
                d += v
    d += bytes(4)
    return write_archive(bytes(d), strings)


# ----------------------------------------------------------------------------- animation sets
ACNT = b"AnimClipNameTable"


def optlist_tokens(items):
    """a list of optional strings: <n> L<indices of the present ones> B.. (one per present entry)"""
    idx = [i for i, s in enumerate(items) if s is not None]
    return [str(len(items)), L(idx)] + [B(items[i]) for i in idx]


def parse_optlist(toks, i):
    n = int(toks[i])
    idx = unL(toks[i + 1])
    items = [None] * n
    i += 2
    for k in idx:
        items[k] = unB(toks[i])
        i += 1
    return items, i


def aset_value_tokens(meta, table, sets):
    toks = optlist_tokens([meta]) + optlist_tokens(table) + [str(len(sets))]
    for s in sets:
        toks += optlist_tokens(s)
    return toks


def aset_case(meta, table, sets):
    return "aset v " + " ".join(aset_value_tokens(meta, table, sets))


def parse_aset_value(toks):
    m, i = parse_optlist(toks, 0)
    table, i = parse_optlist(toks, i)
    n = int(toks[i])
    i += 1
    sets = []
    for _ in range(n):
        s, i = parse_optlist(toks, i)
        sets.append(s)
    return (m[0] if m else None), table, sets, toks[i:]


def aset_space(sets):
    """the property's space formula: bytes of the data region"""
    total = 12 + 4 * 257
    for s in sets:
        groups = 0
        present = 0
        for g in range(8):
            k = sum(1 for b in range(32) if s[1 + 32 * g + b] is not None)
            present += k
            groups += 1 if k else 0
        total += 4 * (1 + groups + present)
    return total


def decode_aset_image(f):
    """Independent decoder of an aset file image.  Returns (meta, table, sets) or a string (malformed)."""
    p = parse_archive(f)
    if p is None:
        return "image is not a well-formed archive"
    d = p.data
    hits = [a for (a, n) in p.labels if n == ACNT]
    if not hits:
        return "no AnimClipNameTable label"
    t = min(hits)          # the format's reading since fix 10408e9: the lowest address carrying the label is the table
    if len(d) < 12 or t + 4 * 257 > len(d):
        return "clip table leaves the data"
    meta = p.strings.get(4)
    table = [p.strings.get(t + 4 * i) for i in range(257)]
    off = t + 4 * 257
    lab = {}
    for a, n in p.labels:
        lab.setdefault(a, []).append(n)
    sets = []
    while off < len(d):
        if off + 4 > len(d):
            return "set header at %d leaves the data" % off
        s = [lab[off][0] if off in lab else None]
        if off in p.strings:
            return "main flags at %d are a string cell" % off
        main = u32(d, off)
        off += 4
        for g in range(8):
            if (main >> g) & 1:
                if off + 4 > len(d) or off in p.strings:
                    return "group flags at %d" % off
                fl = u32(d, off)
                off += 4
                for b in range(32):
                    if (fl >> b) & 1:
                        if off + 4 > len(d):
                            return "slot at %d leaves the data" % off
                        s.append(p.strings.get(off))
                        off += 4
                    else:
                        s.append(None)
            else:
                s.extend([None] * 32)
        sets.append(s)
    return meta, table, sets


def encode_aset_image(meta, table, sets, table_at=12, extra_labels=()):
    """Independent writer of an aset image (for the malformed-input streams)."""
    d = bytearray(struct.pack("<III", 4, 0, 0x100))
    strings = {}
    labels = []
    if meta is not None:
        strings[4] = meta
    labels.append((len(d), ACNT))
    for s in table:
        if s is not None:
            strings[len(d)] = s
        d += bytes(4)
    for st in sets:
        if st[0] is not None:
            labels.append((len(d), st[0]))
        main = 0
        body = bytearray()
        base = len(d) + 4
        for g in range(8):
            fl = 0
            cells = []
            for b in range(32):
                i = 1 + 32 * g + b
                if i < len(st) and st[i] is not None:
                    fl |= 1 << b
                    cells.append(st[i])
            if fl:
                main |= 1 << g
                body += struct.pack("<I", fl)
                for c in cells:
                    strings[base + len(body)] = c
                    body += bytes(4)
        d += struct.pack("<I", main) + body
    labels.extend(extra_labels)
    return write_archive(bytes(d), strings, labels)
