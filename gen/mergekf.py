#!/usr/bin/env python3
# merge helper: union of known_findings.json of HEAD and of a branch (by id), then regenerate MANIFEST.json
import json
import subprocess
import sys
br = sys.argv[1]
ours = json.loads(subprocess.run(["git", "show", "HEAD:known_findings.json"], capture_output=True, text=True).stdout)
theirs = json.loads(subprocess.run(["git", "show", br + ":known_findings.json"], capture_output=True, text=True).stdout)
ids = {f.get("id") for f in ours["findings"]}
for f in theirs["findings"]:
    if f.get("id") not in ids:
        ours["findings"].append(f)
json.dump(ours, open("known_findings.json", "w"), indent=1)
open("known_findings.json", "a").write("\n")
print([f.get("id") for f in ours["findings"]])
