# Text-archive and arc part of C05 (parsers are total on arbitrary bytes, checked and wrapping builds alike):
# case generators, oracle and correspondence relation, importable by gen/c05.py.
#
#   import txttotal
#   cases  = txttotal.cases(rng, tier)                      # list of common.Case (kinds txtf, txta, arc)
#   fail   = txttotal.oracle(case, impl_out, profile)       # None | text   (category must be Ok or Err; accepted => re-serializable)
#   same   = txttotal.agree(case, impl_out, model_out, profile)
#   txttotal.handles(case)                                  # does this module own the case's kind?
#   txttotal.release_too = True                             # both build profiles
#   txttotal.LEMMAS                                         # the Coq lemmas behind it (Proofs/TextTotal.v, Proofs/ArcTotal.v)
#
# Self test:  python3 gen/txttotal.py [quick|thorough]   runs the cases through both harness profiles and the driver.
import os
import struct
import sys

from common import Case
import txtfile
from txtfile import B, L, unB

release_too = True
KINDS = ("txtf", "txta", "txtfa", "txtaa", "arc", "arca")
TESTDIR = "/repo/resources/test"

LEMMAS = [
    "Proofs.TextTotal.text_from_archive_no_panic : forall fmt a k, from_archive fmt a <> Panic k",
    "Proofs.TextTotal.text_from_archive_fuel_never_exhausted : forall fmt a, from_archive fmt a <> Err EOutOfFuel",
    "Proofs.TextTotal.text_walk_step_advances : pos mod 4 = 0 -> r_read_message .. pos = (Ok msg, p) -> pos + 4 <= p /\\ p mod 4 = 0",
    "Proofs.TextTotal.text_from_bytes_no_panic : (forall k, BinFormat.from_bytes e f <> Panic k) -> forall k, from_bytes fmt e f <> Panic k",
    "Proofs.TextTotal.text_from_bytes_fuel_never_exhausted",
    "Proofs.TextTotal.text_serialize_ok_or_too_large (Ok, or the 32-bit size error of fix 524d15f) / text_serialize_no_panic / text_reserialize_no_panic (both modes)",
    "Proofs.ArcTotal.arc_from_archive_no_panic : forall m a k, arc_from_archive m a <> Panic k   (both modes)",
    "Proofs.ArcTotal.arc_from_archive_fuel_never_exhausted : forall m a, arc_from_archive m a <> Err EOutOfFuel",
    "Proofs.ArcTotal.arc_from_bytes_no_panic / arc_from_bytes_fuel_never_exhausted (relative to BinFormat.from_bytes)",
    "Proofs.ArcTotal.arc_body_never_longer_than_data : a body read on the strength of a size field is never longer than the data region",
    "Proofs.ArcTotal.arc_mode_independent, f9_unrepaired_checked_panics, f9_unrepaired_wrapping_reads_elsewhere, f9_repaired_rejects",
    # absolute statements (every byte string; Proofs/TextArcTotal.v = TextTotal/ArcTotal + BinTotal.from_bytes_no_panic + bin_from_bytes_no_fuel)
    "Proofs.TextArcTotal.bin_from_bytes_no_fuel : forall e f, BinFormat.from_bytes e f <> Err EOutOfFuel",
    "Proofs.TextArcTotal.text_from_bytes_never_panics : forall fmt e f k, TextFormat.from_bytes fmt e f <> Panic k",
    "Proofs.TextArcTotal.text_from_bytes_fuel_suffices : forall fmt e f, TextFormat.from_bytes fmt e f <> Err EOutOfFuel",
    "Proofs.TextArcTotal.text_from_bytes_trace_never_panics",
    "Proofs.TextArcTotal.text_accepted_reserializes : from_bytes fmt e f = Ok t -> forall m e', (exists f', serialize m fmt e' t = Ok f') /\\ no panic",
    "Proofs.TextArcTotal.arc_from_bytes_never_panics : forall m f k, arc_from_bytes m f <> Panic k",
    "Proofs.TextArcTotal.arc_from_bytes_fuel_suffices : forall m f, arc_from_bytes m f <> Err EOutOfFuel",
    "Proofs.TextArcTotal.arc_from_bytes_trace_never_panics",
    "Proofs.TextArcTotal.arc_bodies_bounded_by_file : from_bytes LE f = Ok a -> fst (r_read_bytes a address sz) = Ok b -> lenN b + 32 <= lenN f",
]

BOUNDARY = [0, 1, 0x7FFFFFFF, 0x80000000] + list(range(0xFFFFFFF0, 0x100000000))


def handles(case):
    return case.line.split(" ", 1)[0] in KINDS


# ----------------------------------------------------------------------------- valid files (independent python writers)
def text_write(fmt, endian, title, entries):
    data = bytearray()
    labels = []
    if fmt == "U":
        data += txtfile.text_cell("S", title)
    for (k, m) in entries:
        labels.append((len(data), k))
        data += txtfile.text_cell(fmt, m)
    return txtfile.bin_write(endian, data, labels=labels)


def sample_text_files(rng, n):
    out = []
    for _ in range(n):
        fmt, endian = rng.choice("US"), rng.choice("LB")
        entries = []
        for i in range(rng.randint(0, 5)):
            ln = rng.randint(0, 9)
            if fmt == "U":
                m = [rng.choice([0x41, 0x3042, 0xFEFF, 0x100, 0x1, 0xD83D]) for _ in range(ln)]
                # keep surrogates paired most of the time
                m = [u for x in m for u in ((x, 0xDE00) if x == 0xD83D else (x,))]
            else:
                m = bytes(rng.choice([0x41, 0x5C, 0xB1, 0x83]) for _ in range(ln))
            entries.append((b"K%d" % i if rng.random() < 0.8 else b"\x83\x4c%d" % i, m))
        title = bytes(rng.choice(b"Title") for _ in range(rng.randint(0, 6)))
        out.append((fmt, endian, text_write(fmt, endian, title, entries)))
    return out


def sample_arc_files(rng, n):
    out = []
    for _ in range(n):
        files = [(b"f%d.bin" % i, bytes(rng.getrandbits(8) for _ in range(rng.randint(0, 12)))) for i in range(rng.randint(0, 4))]
        img, _ = txtfile.arc_write(files, rng, padded=rng.random() < 0.5, unaligned=rng.random() < 0.5, count_first=rng.random() < 0.5,
                                   extra_labels=rng.random() < 0.5)
        out.append(img)
    return out


def fields_of(endian, f):
    """(offset, what) of every u32 field of a bin-archive image: header, pointer table, label table"""
    e = "<" if endian == "L" else ">"
    out = [(0, "file_size"), (4, "data_size"), (8, "pointer_count"), (12, "label_count")]
    if len(f) < 0x20:
        return out
    _, dsz, pc, lc = struct.unpack(e + "IIII", f[:16])
    base = 0x20 + dsz
    for i in range(min(pc, 64)):
        out.append((base + 4 * i, "pointer"))
    for i in range(min(lc, 64)):
        out.append((base + 4 * pc + 8 * i, "label_address"))
        out.append((base + 4 * pc + 8 * i + 4, "label_name"))
    # data words (string cells, counts, record fields): every aligned word of a small data region
    for o in range(0x20, min(0x20 + dsz, 0x20 + 0x140), 4):
        out.append((o, "data_word"))
    return [(o, w) for (o, w) in out if o + 4 <= len(f)]


def mutations(rng, endian, f, quick):
    """truncations at every offset, boundary values in every field, wrapping pairs, byte flips"""
    e = "<" if endian == "L" else ">"
    out = []
    step = 1 if (not quick or len(f) <= 96) else 3
    for cut in range(0, len(f), step):
        out.append(("truncate", f[:cut]))
    dsz = struct.unpack(e + "I", f[4:8])[0] if len(f) >= 8 else 0
    sizes = sorted(set(x & 0xFFFFFFFF for s in (dsz, len(f)) for x in (s - 1, s, s + 1)))
    flds = fields_of(endian, f)
    if quick:
        keep = [x for x in flds if x[1] != "data_word"] + rng.sample([x for x in flds if x[1] == "data_word"], min(6, sum(1 for x in flds if x[1] == "data_word")))
        flds = keep
    for (o, what) in flds:
        vals = BOUNDARY + sizes
        if quick:
            vals = rng.sample(vals, 6) + [0xFFFFFFF0, 0xFFFFFFFF]
        for v in vals:
            g = bytearray(f)
            g[o:o + 4] = struct.pack(e + "I", v)
            out.append(("field-" + what, bytes(g)))
    # pairs whose u32 sum wraps to something small: data_size + 4 * pointer_count + 8 * label_count
    for (d, p, l) in ((0xFFFFFFF0, 4, 0), (0xFFFFFFFC, 1, 0), (0, 0x40000000, 0), (0, 0, 0x20000000), (0xFFFFFFF8, 0, 1), (8, 0x3FFFFFFE, 0),
                      (dsz, 0x40000000, 0), (dsz, 0, 0x20000000), (0xFFFFFFFF, 0xFFFFFFFF, 0xFFFFFFFF)):
        g = bytearray(f)
        if len(g) >= 16:
            g[4:16] = struct.pack(e + "III", d, p, l)
            out.append(("wrapping-pair", bytes(g)))
    for _ in range(10 if quick else 60):
        if f:
            g = bytearray(f)
            i = rng.randrange(len(g))
            g[i] ^= 1 << rng.randrange(8)
            out.append(("byte-flip", bytes(g)))
    return out


def structured_random(rng, endian):
    """a container that parses, around random content: the layered readers walk garbage"""
    n = rng.randint(0, 48)
    data = bytes(rng.getrandbits(8) if rng.random() < 0.6 else 0 for _ in range(n))
    labels = [(rng.choice([4 * rng.randint(0, n // 4), rng.randint(0, n)]), rng.choice([b"Count", b"Info", b"K", b"\x83\x4c", b""]))
              for _ in range(rng.randint(0, 5))]
    strings = {}
    for _ in range(rng.randint(0, 3)):
        if n >= 4:
            strings[4 * rng.randrange(n // 4)] = rng.choice([b"name", b"", b"\x95\x5c"])
    return txtfile.bin_write(endian, data, strings=strings, labels=labels, rng=rng, shuffle_tables=rng.random() < 0.5)


# ----------------------------------------------------------------------------- case lists
def text_cases(rng, tier):
    quick = tier == "quick"
    cases = []
    combos = [(f, e) for f in "US" for e in "LB"]
    for (fmt, e) in combos:
        for _ in range(40 if quick else 2000):
            n = rng.choice([0, 1, 31, 32, 33, rng.randint(0, 64), rng.randint(0, 512)])
            cases.append(Case("txtfa %s %s %s" % (fmt, e, B(bytes(rng.getrandbits(8) for _ in range(n)))), "text-random-bytes"))
        for _ in range(60 if quick else 3000):
            cases.append(Case("txtfa %s %s %s" % (fmt, e, B(structured_random(rng, e))), "text-structured-random"))
    samples = sample_text_files(rng, 4 if quick else 40)
    for (name, fmt, e) in (("TextArchive_Test.bin", "U", "L"), ("TextArchive_Legacy_Test.bin", "S", "B")):
        p = os.path.join(TESTDIR, name)
        if os.path.exists(p):
            samples.append((fmt, e, open(p, "rb").read()))
    for (fmt, e, f) in samples:
        if quick and len(f) > 200:
            # the larger game file: fields and a sample of truncations only
            muts = [m for m in mutations(rng, e, f, True) if m[0] != "truncate"] + [("truncate", f[:c]) for c in range(0, len(f), 7)]
        else:
            muts = mutations(rng, e, f, quick)
        for (what, g) in muts:
            # also read the file with the wrong encoding / endianness now and then
            f2, e2 = (fmt, e) if rng.random() < 0.85 else (rng.choice("US"), rng.choice("LB"))
            cases.append(Case("txtfa %s %s %s" % (f2, e2, B(g)), "text-" + what))
    # archive level (from_archive on API-built ill-formed archives)
    for _ in range(150 if quick else 3000):
        fmt, e = rng.choice(combos)
        n = rng.randint(0, 40)
        data = bytes(rng.getrandbits(8) if rng.random() < 0.5 else 0 for _ in range(n))
        labels = [(rng.randint(0, n), rng.choice([b"a", b"b", b"\x83\x4c", b""])) for _ in range(rng.randint(0, 6))]
        parts = ["txtaa", fmt, e, B(data), str(len(labels))]
        for (a, k) in labels:
            parts += [str(a), B(k)]
        cases.append(Case(" ".join(parts), "text-archive-level"))
    return cases


def arc_cases(rng, tier):
    quick = tier == "quick"
    cases = []
    for _ in range(80 if quick else 4000):
        n = rng.choice([0, 31, 32, 33, rng.randint(0, 64), rng.randint(0, 512)])
        cases.append(Case("arca " + B(bytes(rng.getrandbits(8) for _ in range(n))), "arc-random-bytes"))
    for _ in range(200 if quick else 6000):
        cases.append(Case("arca " + B(structured_random(rng, "L")), "arc-structured-random"))
    samples = sample_arc_files(rng, 4 if quick else 40)
    for f in samples:
        for (what, g) in mutations(rng, "L", f, quick):
            cases.append(Case("arca " + B(g), "arc-" + what))
    p = os.path.join(TESTDIR, "ArcTest.arc")
    if os.path.exists(p):
        f = open(p, "rb").read()
        e = "<"
        dsz = struct.unpack("<I", f[4:8])[0]
        # header, tables and the Count / Info region of the real image (the bodies are 1 KiB of payload: sampled)
        for (o, what) in fields_of("L", f):
            if what == "data_word" and not (0x20 + dsz - 0x30 <= o):
                continue
            for v in (BOUNDARY if not quick else [0, 1, 0x80000000, 0xFFFFFFF0, 0xFFFFFFFF]) + [dsz - 1, dsz, dsz + 1]:
                g = bytearray(f)
                g[o:o + 4] = struct.pack("<I", v & 0xFFFFFFFF)
                cases.append(Case("arca " + B(g), "arc-field-" + what))
        # the record fields live at the end of the data region
        for o in range(0x20 + dsz - 0x24, 0x20 + dsz, 4):
            for v in BOUNDARY:
                g = bytearray(f)
                g[o:o + 4] = struct.pack("<I", v)
                cases.append(Case("arca " + B(g), "arc-field-record"))
        for cut in range(0, len(f), 64 if quick else 5):
            cases.append(Case("arca " + B(f[:cut]), "arc-truncate"))
    return cases


def cases(rng, tier):
    return text_cases(rng, tier) + arc_cases(rng, tier)


# ----------------------------------------------------------------------------- oracle, correspondence
BAD = ("PANIC", "ABORT", "TIMEOUT", "MISSING-OUTPUT")


def oracle(case, impl_out, profile):
    """the property's own words: every entry point returns Ok or Err - no panic, overflow, abort, hang;
    anything accepted can be serialized again without panicking (the harness serializes whatever it parsed)"""
    if impl_out in BAD or impl_out.startswith("UNKNOWN-KIND"):
        return "%s build: %s" % (profile, impl_out)
    kind = case.line.split(" ", 1)[0]
    if kind in ("txtfa", "txtaa") and " maxalloc=" in impl_out:
        # "no single buffer larger than a small constant multiple of the input is ever requested": largest single allocation
        # request during TextArchive::from_bytes / from_archive (counting allocator of the harness)
        impl_out, mxs = impl_out.rsplit(" maxalloc=", 1)
        t = case.line.split(" ")
        n = len(unB(t[3])) + (sum(len(unB(x)) + 8 for x in t[6::2]) if kind == "txtaa" else 0)
        if int(mxs) > 64 * n + 4096:
            return "%s build: a single allocation request of %s bytes for an input of %d bytes" % (profile, mxs, n)
    if kind in ("txtf", "txta", "txtfa", "txtaa"):
        if impl_out.startswith("parse=ok "):
            reser = impl_out.split(" | reser=", 1)[1]
            if not (reser.startswith("ok:") or reser.startswith("err:")):
                return "re-serialization: " + reser[:60]
        elif not (impl_out.startswith("parse=err:") or impl_out.startswith("build=err")):
            return "unexpected output " + impl_out[:60]
    elif kind in ("arc", "arca"):
        if not (impl_out.startswith("ok [") or impl_out.startswith("err:")):
            return "unexpected output " + impl_out[:60]
        if kind == "arca":
            # "no single buffer larger than a small constant multiple of the input is ever requested on the strength of
            # such a field": largest single allocation request during arc::from_bytes (counting allocator of the harness)
            n = len(unB(case.line.split(" ", 2)[1]))
            mx = int(impl_out.rsplit(" maxalloc=", 1)[1])
            if mx > 64 * n + 4096:
                return "%s build: a single allocation request of %d bytes for an input of %d bytes" % (profile, mx, n)
    return None


def agree(case, impl_out, model_out, profile):
    kind = case.line.split(" ", 2)[0]
    if kind in ("txtf", "txta", "txtfa", "txtaa"):
        if " maxalloc=" in impl_out:
            impl_out = impl_out.rsplit(" maxalloc=", 1)[0]
        return txtfile.agree_text(case.line.split(" ", 3)[1], impl_out, model_out)
    if kind in ("arc", "arca"):
        if kind == "arca" and " maxalloc=" in impl_out:
            impl_out = impl_out.rsplit(" maxalloc=", 1)[0]
        # since the repair 10408e9 (find_label_address = lowest address carrying the label) the library and the model are
        # deterministic also when Count or Info sit on several addresses: compared exactly, no special case
        return txtfile.agree_arc(impl_out, model_out)
    return impl_out == model_out


def nontrivial(case, impl_out):
    """the layered reader was reached (the container parsed) or the container was rejected for a planted field"""
    return impl_out.startswith("parse=ok") or impl_out.startswith("ok [") or case.stream.split("-", 1)[1].startswith(("field", "wrapping", "structured"))


# interface shared with batotal / packtotal (gen/c05.py)
def total_cases(rng, tier):
    return cases(rng, tier)


total_oracle = oracle
total_agree = agree
total_nontrivial = nontrivial


# ----------------------------------------------------------------------------- self test
def main():
    import random
    import common
    tier = sys.argv[1] if len(sys.argv) > 1 else "quick"
    rng = random.Random(int(os.environ.get("VERIF_SEED", "1")))
    cs = cases(rng, tier)
    lines = [c.line for c in cs]
    wd = os.path.join(common.WORK, "txttotal")
    os.makedirs(wd, exist_ok=True)
    model = common.run_tool(common.driver_bin(), lines, wd, "model")
    bad = 0
    dist = {}
    for prof in ("debug", "release"):
        impl = common.run_tool(common.harness_bin(prof == "release"), lines, wd, "impl-" + prof)
        for c, i, m in zip(cs, impl, model):
            if prof == "debug":
                key = (c.stream, i.split(" ", 1)[0][:24])
                dist[key] = dist.get(key, 0) + 1
            f = oracle(c, i, prof)
            if f:
                bad += 1
                print("ORACLE", prof, f, c.line[:200])
            if not agree(c, i, m, prof):
                bad += 1
                print("DIFF", prof, c.stream, c.line[:300], "\n  impl ", i[:300], "\n  model", m[:300])
    for k in sorted(dist):
        print("%6d  %s  %s" % (dist[k], k[0], k[1]))
    print("cases %d, problems %d" % (len(cs), bad))
    return 1 if bad else 0


if __name__ == "__main__":
    sys.exit(main())
