# C11: decompression is correct on every conforming stream and errors on the rest (never panics).
import itertools
from lzcommon import (LZCheckMixin, PropertyCheck, Case, hexb, parse_hex, show_bytes, classify_entry, encode_stream,
                      tokens_total, random_tokens, rand_bytes, expand, spread_heavy, WINDOW)

MODEL_OUT_MAX = 150000     # streams whose expansion may exceed this are run on the implementation + oracle only
SIZE_LIMIT = 1 << 20       # announced sizes of generated streams stay below 1 MiB


def line(entry, stream, full=True):
    return "lzd %s %s %s" % (entry, "1" if full else "0", hexb(stream))


class BigData:
    """Expected output of a 16 MiB boundary stream: kept as its printed form H<len>:<fnv64> (computed once)."""

    _shown = {}

    def __init__(self, data):
        import zlib
        self.n = len(data)
        key = (len(data), zlib.crc32(data), bytes(data[:16]))
        if key not in BigData._shown:
            BigData._shown[key] = show_bytes(data, False)       # FNV-64 of 16 MiB in pure Python: seconds
        self.shown = BigData._shown[key]

    def __len__(self):
        return self.n


class C11(LZCheckMixin, PropertyCheck):
    pid = "C11"
    source_tables = ["LZ_DECODE_CONSTS"]   # tables / constants regenerated from /repo's source (gen/srctables.py)
    release_too = True
    rule = ("streams: every token sequence of <= 3/4 tokens over a small literal/length/displacement set (legal and reaching before the "
            "start) for LZ10 and LZ11; random legal token sequences with every length form (3..65808), displacement 1, the window edge, "
            "overlapping copies, both LZ11 header forms, through the four entry points (LZ10, LZ13, and both through CompressionFormat), "
            "wrapped (0x13), bare and stored (type 0); every truncation of such streams (quick: of a sample), single-byte corruptions, "
            "left-over bytes, overshooting last token, random bytes with plausible headers; announced size < 1 MiB, plus LZ11 streams announcing "
            "0xFFFFFF (plain / extended form) and 0x1000000 (extended form) and their truncations, LZ11 streams with a token section of more than "
            "261 060 bytes (output compared by length and FNV-64). "
            "Non-trivial = the stream is well-formed and contains a back-reference, or is one of the named error classes; distinct = distinct case.")
    assumptions = ["A-std: Vec, iterators and integer casts behave as documented",
                   "the output Vec is represented by its reversed list in the model"]

    def generate(self, rng, tier):
        cases = []

        def add(entry, s, stream, full=None):
            if full is None:
                full = self._worst_out(s) <= MODEL_OUT_MAX
            cases.append(Case(line(entry, s, full), stream))

        # --- the four degenerate inputs and header-only streams
        for e in ("10", "13", "f10", "f13"):
            for s in (b"", b"\x10", b"\x11\x00", b"\x13\x00\x00", b"\x00\x00\x00", b"\x00\x00\x00\x00", b"\x00\x01\x02\x03\xaa\xbb",
                      b"\x10\x00\x00\x00", b"\x11\x00\x00\x00", b"\x11\x00\x00\x00\x00\x00\x00\x00", b"\x13\x00\x00\x00",
                      b"\x13\x09\x00\x00\x11\x00\x00\x00\x00\x00\x00\x00", b"\x12\x04\x00\x00\x00abcd", b"\x13\x00\x00\x00\x13\x00\x00\x00",
                      b"\x10\x04\x00\x00\x80\x10\x05", b"\x13\x00\x00\x00\x10\x04\x00\x00\x80\x10\x05", b"\x10\x04\x00\x00\x00abcd",
                      b"\x10\x04\x00\x00\x00abcdX", b"\x10\x04\x00\x00\x00abc"):
                add(e, s, "hand-written")
        # --- bounded-exhaustive token sequences
        depth = 3 if tier == "quick" else 4
        alph10 = [0x61] + [(ln, d) for ln in (3, 18) for d in (1, 2, 3)]
        alph11 = [0x61] + [(ln, d) for ln in (3, 16, 17, 272, 273) for d in (1, 2)]
        for ver, alph in ((10, alph10), (11, alph11)):
            for n in range(0, depth + 1):
                for toks in itertools.product(alph, repeat=n):
                    toks = list(toks)
                    s = encode_stream(ver, toks, tokens_total(toks))
                    add("10" if ver == 10 else "13", s, "exhaustive-tokens-lz%d" % ver)
        # --- random legal token sequences, all forms, all entry points
        nseq, maxtok = (400, 60) if tier == "quick" else (4000, 300)
        seqs = []
        for i in range(nseq):
            ver = rng.choice([10, 11])
            maxout = rng.choice([50, 500, 5000]) if (ver == 10 or i % 12) else rng.choice([70000, 140000])
            toks = random_tokens(rng, ver, rng.randint(1, maxtok), maxout)
            ext = ver == 11 and rng.random() < 0.25
            s = encode_stream(ver, toks, tokens_total(toks), ext)
            seqs.append((ver, toks, s))
            form = rng.randrange(4)
            if form == 0:
                add(rng.choice(["10", "f10"]), s, "valid-bare-lz10-entry")
            elif form == 1:
                add(rng.choice(["13", "f13"]), s, "valid-bare-lz13-entry")
            else:
                add(rng.choice(["13", "f13"]), bytes([0x13]) + rand_bytes(rng, 3) + s, "valid-wrapped")
        for _ in range(30):
            add(rng.choice(["13", "f13"]), bytes([0]) + rand_bytes(rng, 3) + rand_bytes(rng, rng.randint(0, 40)), "stored-form")
        # --- truncations (every byte of a sample of streams), corruptions, left-over, overshoot
        ntr = 25 if tier == "quick" else 250
        small = [q for q in seqs if tokens_total(q[1]) <= 6000]
        for (ver, toks, s) in rng.sample(small, min(ntr, len(small))):
            if len(s) > 400:
                cuts = sorted(set(rng.randrange(len(s)) for _ in range(40)))
            else:
                cuts = range(len(s))
            for k in cuts:
                add("10", s[:k], "truncated")
                if k % 3 == 0:
                    add("13", bytes([0x13, 1, 2, 3]) + s[:k], "truncated-wrapped")
        ncor = 600 if tier == "quick" else 6000
        for _ in range(ncor):
            ver, toks, s = rng.choice(small)
            b = bytearray(s)
            r = rng.random()
            if r < 0.6:
                b[rng.randrange(len(b))] = rng.getrandbits(8)
                name = "corrupted-byte"
            elif r < 0.75:
                b += rand_bytes(rng, rng.randint(1, 3))
                name = "left-over-bytes"
            elif r < 0.9:
                # announce fewer / more bytes than the tokens produce
                total = tokens_total(toks)
                wrong = max(0, total + rng.choice([-3, -2, -1, 1, 2, 17]))
                b = bytearray(encode_stream(ver, toks, wrong))
                name = "wrong-size"
            else:
                # a reference reaching before the start somewhere
                k = rng.randrange(len(toks) + 1)
                t2 = toks[:k] + [(3, min(WINDOW, tokens_total(toks[:k]) + rng.randint(1, 3)))] + toks[k:]
                b = bytearray(encode_stream(ver, t2, tokens_total(t2)))
                name = "reference-before-start"
            add(rng.choice(["10", "13", "f10", "f13"]), bytes(b), name)
        # --- random bytes with plausible headers (small announced sizes), and a few with large ones
        nrnd = 1500 if tier == "quick" else 20000
        for _ in range(nrnd):
            n = rng.randint(0, 40)
            b = bytearray(rand_bytes(rng, n))
            if n > 0 and rng.random() < 0.9:
                b[0] = rng.choice([0x10, 0x11, 0x13, 0x00, 0x10, 0x11])
            if n > 3 and rng.random() < 0.9:
                b[1] = rng.getrandbits(8)
                b[2] = rng.choice([0, 0, 0, 1])
                b[3] = 0
            if n > 8 and b[0] == 0x13 and rng.random() < 0.9:
                b[4] = rng.choice([0x10, 0x11])
                b[6] = rng.choice([0, 0, 1])
                b[7] = 0
            add(rng.choice(["10", "13", "f10", "f13"]), bytes(b), "random-bytes")
        # --- the 16 MiB boundary of the LZ11 size field: 0xFFFFFF is the largest size of the plain 24-bit form, 0x1000000
        #     needs the extended form (0,0,0 + 32 bit); a literal and long-form references at displacement 1
        #     (implementation + oracle only, output compared as H<len>:<fnv64>)
        # (seeded C11-8: the LZ10 entry rejected LZ11 streams that decode to 2^24 bytes and more - it must accept every
        # well-formed LZ11 stream; so 2^24 and 2^24+1 go through the entries 10 / f10 as well as 13 / f13)
        for size, ext, entry, wrap in (((1 << 24) - 1, False, "13", True), (1 << 24, True, "f13", True), ((1 << 24) - 1, True, "10", False),
                                       (1 << 24, True, "10", False), ((1 << 24) + 1, True, "10", False), ((1 << 24) + 1, True, "f10", False),
                                       ((1 << 24) + 1, True, "13", False), ((1 << 24) + 1, True, "f13", True)):
            toks = [size & 0xFF ^ 0x5A]              # (same literal for the same size: the 16 MiB expectation is computed once)
            left = size - 1
            while left > 0:
                ln = min(left, 65808)
                if 0 < left - ln < 3:
                    ln -= 3
                toks.append((ln, 1))
                left -= ln
            s = encode_stream(11, toks, size, ext)
            cases.append(Case("lzd %s 2 %s" % (entry, hexb((bytes([0x13, 1, 2, 3]) if wrap else b"") + s)), "size-boundary-16MiB"))
            # ... and the same stream cut short by one byte must be an error
            cases.append(Case("lzd %s 2 %s" % (entry, hexb((bytes([0x13, 1, 2, 3]) if wrap else b"") + s[:-1])), "size-boundary-16MiB"))
        # --- a reference reaching before the start at EVERY output length around the window edge (seeded C11-9: the range check
        #     was skipped once the output held 0xFFF bytes, so stored displacement 0xFFF at 4095 bytes got through): out_len
        #     bytes (a literal, then references at distance 1), then a reference of length 3 at distance out_len+1 / out_len+2
        #     (<= 4096) - must be an error; and at out_len 4096 / 4097 the distances 4095 / 4096 are legal - must decode
        for ver in (10, 11):
            maxl = 18 if ver == 10 else 4000
            for out_len in (1, 2, 17, 255, 4094, 4095, 4096, 4097):
                toks = [rng.getrandbits(8)]
                left = out_len - 1
                while left > 0:
                    ln = min(left, maxl)
                    if 0 < left - ln < 3:
                        ln -= 3
                    if ln < 3:
                        toks += [rng.getrandbits(8)] * left
                        break
                    toks.append((ln, 1))
                    left -= ln
                assert tokens_total(toks) == out_len
                for d in (out_len + 1, out_len + 2, 4095, 4096):
                    if d > 4096 or (d in (4095, 4096) and out_len < 4094):
                        continue
                    t2 = toks + [(3, d)]
                    s0 = encode_stream(ver, t2, out_len + 3) + rand_bytes(rng, rng.randint(0, 2) if d > out_len else 0)
                    for entry, wrap in (("10", False), ("13", False), ("13", True), ("f10", False), ("f13", True)):
                        add(entry, (bytes([0x13]) + rand_bytes(rng, 3) if wrap else b"") + s0, "window-edge-reference-%s" % ("before-start" if d > out_len else "legal"))
        # --- one LONG self-overlapping reference at a small odd distance / at the window edge over non-constant data (seeded C11-10:
        #     a capped block copy): LZ11 four-byte length form, lengths 8192 .. 0x10110
        for d in (3, 5, 7, 4095):
            for ln in (8192, 8193, 20001, 0x10110):
                toks = list(rand_bytes(rng, d)) + [(ln, d)]
                s0 = encode_stream(11, toks, d + ln, rng.random() < 0.3)
                entry, wrap = rng.choice([("10", False), ("13", False), ("13", True), ("f13", True), ("f10", False)])
                add(entry, (bytes([0x13, 0, 0, 0]) if wrap else b"") + s0, "long-overlapping-reference", full=(d < 100 or ln <= 20001))
        # --- a long token section (seeded C11-5: `token_bytes * expansion` computed in u32 overflows for LZ11 streams with more
        #     than 261 060 token bytes): 232 056 / 240 000 literal bytes = 261 063 / 270 000 token bytes, bare and wrapped,
        #     through the LZ13 entry, the enum and the LZ10 entry (which decodes 0x11 streams too); compact form
        #     header + P<len>:<flag byte 00 + eight literals>
        for nlit, entry, wrap in ((232056, "13", False), (232056, "13", True), (240000, "f13", True), (232056, "10", False), (232056, "f10", False)):
            lits = rand_bytes(rng, 8)
            hdr = bytes([0x11]) + nlit.to_bytes(3, "little")
            tok = "%s+P%d:00%s" % (hexb((bytes([0x13, 9, 9, 9]) if wrap else b"") + hdr), nlit // 8 * 9, lits.hex())
            cases.append(Case("lzd %s 2 %s" % (entry, tok), "long-token-section"))
        # --- large outputs (implementation + oracle only): long-form references up to the announced size limit
        nbig = 6 if tier == "quick" else 40
        for _ in range(nbig):
            toks = random_tokens(rng, 11, 400, SIZE_LIMIT - 70000)
            s = encode_stream(11, toks, tokens_total(toks), rng.random() < 0.5)
            add("13", bytes([0x13, 0, 0, 0]) + s, "large-output", full=False)
        return spread_heavy(cases, weight=lambda c: 0 if c.line.split(" ")[2] in ("0", "2") else self._actual_out(parse_hex(c.line.split(" ")[3])))

    @staticmethod
    def _worst_out(s):
        """Upper bound on what a decoder may produce from s before it stops (announced size + one token)."""
        for off in (0, 4):
            if len(s) >= off + 4 and s[off] in (0x10, 0x11):
                size = s[off + 1] | s[off + 2] << 8 | s[off + 3] << 16
                if size == 0 and s[off] == 0x11 and len(s) >= off + 8:
                    size = int.from_bytes(s[off + 4:off + 8], "little")
                # a decoder stops at the announced size (plus one token) or at the end of the input
                return min(size + 65808, (len(s) // 4 + 1) * 65808)
        return len(s)

    @staticmethod
    def _actual_out(s):
        """Cost estimate of a case for the list model: bytes a lenient decoder produces."""
        from lzcommon import walk, Bad
        for off in ((4, 0) if s[:1] == b"\x13" else (0,)):
            try:
                return walk(s, off, keep_tokens=False, limit=SIZE_LIMIT + 70000)[3]
            except Bad:
                continue
        return min(C11._worst_out(s), 3000)

    _big = {}

    def _expect(self, case):
        parts = case.line.split(" ")
        if parts[2] == "2":
            # 16 MiB boundary streams: no limit on the announced size; the 16 MiB expansion and its hash are computed once
            if case.line not in self._big:
                if len(self._big) > 8:
                    self._big.clear()
                cls, what = classify_entry(parts[1], parse_hex(parts[3]), limit=None)
                self._big[case.line] = (cls, BigData(what) if cls == "ok" else what)
            return parts[1], False, self._big[case.line]
        return parts[1], parts[2] == "1", classify_entry(parts[1], parse_hex(parts[3]), limit=SIZE_LIMIT + 70000)

    def nontrivial(self, case, impl_out):
        _, _, (cls, what) = self._expect(case)
        if cls == "err":
            return True
        return cls == "ok" and impl_out.startswith("ok") and len(what) > 0

    def oracle(self, case, impl_out, profile):
        entry, full, (cls, what) = self._expect(case)
        cat = impl_out.split(" ")[0]
        if cat not in ("ok", "err"):
            return "decompression neither returned Ok nor Err: %s" % impl_out[:60]
        if cls == "ok":
            want = "ok " + (what.shown if isinstance(what, BigData) else show_bytes(what, full))
            if impl_out != want:
                return "well-formed stream: expected the encoded data (%d bytes), got %s" % (len(what), impl_out[:80])
        elif cls == "err":
            if cat != "err":
                return "input is %s: expected an error, got %s" % (what, impl_out[:80])
        return None

    def shrink_candidates(self, case):
        parts = case.line.split(" ")
        s = parse_hex(parts[3])
        n = len(s)
        k = max(1, n // 2)
        while k >= 1:
            for i in range(0, n, k):
                yield Case("lzd %s %s %s" % (parts[1], parts[2], hexb(s[:i] + s[i + k:])), case.stream)
            if k == 1 or n > 64 and k < n // 8:
                break
            k //= 2
        if parts[1] != "10":
            yield Case("lzd 10 %s %s" % (parts[2], parts[3]), case.stream)


TB = ("Trusted: Coq 8.16.1 kernel (vm_compute, no native_compute), no axioms (Print Assumptions audited on every run), "
      "ExtrOcamlBasic extraction + hand-written OCaml driver, the Rust harness and Python generators/oracles. ")

MANIFEST = dict(
    text="Theorems (Coq 8.16, closed under the global context) about a machine-level Gallina model of lz13::decompress_lz (the bounds-checked decoder that replaced nintendo_lz: repair of F14), LZ10CompressionFormat::decompress, LZ13CompressionFormat::decompress (length check = repair of F13, 0x13 wrapper, bare stream, type-0 stored form) and CompressionFormat::decompress, with usize subtractions in an arithmetic profile and checked Vec indexing: on EVERY stream accepted by a strict LZ10/LZ11 parser written from the format description the decoder returns the expansion of its tokens; EVERY legal token sequence (literals, references of every length form - LZ10 3..18, LZ11 3..65808 -, displacement 1..4096, overlapping copies, both LZ11 header forms) written down by the specification's writer is such a stream and is decoded through all entry points (wrapped, bare, enum); the stored form returns the payload; on ARBITRARY input every entry point returns Ok or Err(InvalidInput) - never a panic - identically in both profiles; empty input, fewer than 4 bytes, unknown type, every strict prefix of a well-formed stream and a reference reaching before the start of the output are errors; every parser-accepted stream is decoded through every entry point (bare, wrapped, enum); decompress(compress x) = x through the enum for both formats whenever compress returns Ok (it does below 2^24 / 2^32 bytes and returns Err(InputTooLarge) above: repair of F21), and the formats crossed (LZ13 entry reads LZ10 output, LZ10 entry rejects the 0x13 wrapper). The model is tied to /repo on every run: extracted model vs real library (debug and release) on bounded-exhaustive token sequences, random legal sequences with every form, every truncation of streams up to 400 bytes and 40 random cuts of longer ones (through the LZ10 and the wrapped-LZ13 entries), corruptions, left-over bytes, wrong sizes, random bytes; an independent Python decoder/classifier judges every implementation output.",
    note=TB + "Modelled, not verified (A-std): Vec, iterators, integer casts, 64-bit usize; the output Vec is a reversed list in the model. Streams whose last token overshoots the announced size or that carry bytes after it are outside the property's named classes: only 'no panic' is demanded and model = implementation is compared. notes/lz.md lists 14 mutations of /repo, all reported by the quick check.",
    technique='Coq proof (decoder simulates the specification-side parser; totality by induction; prefix argument for truncation) + extracted-model differential check (debug and release builds) + independent Python reference decoder/classifier as oracle',
    ref='DESIGN.md section 4 (C11); notes/lz.md')
