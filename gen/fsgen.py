# Shared generator and oracle of the layered-filesystem checks (C12, C13; kind `fs`).
#
# The oracle below is a re-statement of the properties in Python, evaluated on the IMPLEMENTATION's
# output (return values + the canonical walk of every layer directory after every call).  It does not
# use the Coq model: the expected answer of each call is computed from the directory snapshot the
# implementation itself printed before the call ("top-most layer holding the file", "lower layers
# untouched", "sorted de-duplicated union", "the stored file decodes to the payload" with the LZ10 /
# LZ11 decoders written here from the format description, localisation from gen/c14.py's table).
import os
import tempfile

import common
from common import Case
import c14

GAMES = ["FE9", "FE10", "FE11", "FE12", "FE13", "FE14", "FE15"]
LANGS = c14.LANGS
SUPPORTED = [0, 1, 4, 5, 6]
# configuration table written from the property text: (compression, compressed suffixes, endian, text encoding)
SPEC_CFG = {
    "FE9": ("10", (".cms", ".cmp"), "big", "shiftjis"),
    "FE10": ("10", (".cms", ".cmp"), "big", "shiftjis"),
    "FE13": ("13", (".lz",), "little", "utf16"),
    "FE14": ("13", (".lz",), "little", "utf16"),
    "FE15": ("13", (".lz",), "little", "utf16"),
}


def L(s):
    return "L" + ",".join(str(ord(c)) for c in s)


def unL(tok):
    b = tok[1:]
    return "".join(chr(int(x)) for x in b.split(",")) if b else ""


class PBytes(bytes):
    """A large periodic payload that is written into case lines with the compact token P<len>:<hexpattern>
    (pattern repeated / truncated to <len> bytes; understood by h_util::parse_b and Dcommon.parse_b)."""
    tok = None


def pbytes(n, pattern):
    pattern = bytes(pattern) or b"\0"
    b = PBytes((pattern * (n // len(pattern) + 1))[:n])
    b.tok = "P%d:%s" % (n, pattern.hex())
    return b


def B(b):
    if isinstance(b, PBytes) and b.tok:
        return b.tok
    return "B" + bytes(b).hex()


def unB(tok):
    if tok[0] == "P":
        n, pat = tok[1:].split(":", 1)
        return pbytes(int(n), bytes.fromhex(pat))
    return bytes.fromhex(tok[1:])


# what the size field of a format can store (F21: compress rejects anything longer with InputTooLarge)
CODEC_LIMIT = {"10": 1 << 24, "13": 1 << 32}


def esc(s):
    out = []
    for b in s.encode("utf-8"):
        c = chr(b)
        if (b < 128 and c.isalnum()) or c in "._@~+-/":
            out.append(c)
        else:
            out.append("%%%02x" % b)
    return "".join(out)


def unesc(s):
    out = bytearray()
    i = 0
    while i < len(s):
        if s[i] == "%":
            out.append(int(s[i + 1:i + 3], 16))
            i += 3
        else:
            out.append(ord(s[i]))
            i += 1
    return out.decode("utf-8", "replace")


# ----------------------------------------------------------------------------- LZ decoders (format description)
def _lz_body(data, pos, size, lz11):
    out = bytearray()
    n = len(data)
    while len(out) < size:
        if pos >= n:
            return None
        flags = data[pos]
        pos += 1
        for bit in range(8):
            if len(out) >= size:
                break
            if flags & (0x80 >> bit):
                if not lz11:
                    if pos + 2 > n:
                        return None
                    b0, b1 = data[pos], data[pos + 1]
                    pos += 2
                    ln = (b0 >> 4) + 3
                    disp = (((b0 & 0xF) << 8) | b1) + 1
                else:
                    if pos >= n:
                        return None
                    ind = data[pos] >> 4
                    if ind == 0:
                        if pos + 3 > n:
                            return None
                        b0, b1, b2 = data[pos:pos + 3]
                        pos += 3
                        ln = (((b0 & 0xF) << 4) | (b1 >> 4)) + 0x11
                        disp = (((b1 & 0xF) << 8) | b2) + 1
                    elif ind == 1:
                        if pos + 4 > n:
                            return None
                        b0, b1, b2, b3 = data[pos:pos + 4]
                        pos += 4
                        ln = (((b0 & 0xF) << 12) | (b1 << 4) | (b2 >> 4)) + 0x111
                        disp = (((b2 & 0xF) << 8) | b3) + 1
                    else:
                        if pos + 2 > n:
                            return None
                        b0, b1 = data[pos], data[pos + 1]
                        pos += 2
                        ln = ind + 1
                        disp = (((b0 & 0xF) << 8) | b1) + 1
                if disp > len(out):
                    return None
                for _ in range(ln):
                    out.append(out[-disp])
                if len(out) > size:
                    return None
            else:
                if pos >= n:
                    return None
                out.append(data[pos])
                pos += 1
    return bytes(out)


def lz_stream(data, magic):
    """Decode a 0x10 / 0x11 stream: magic, 24-bit size (LZ11: 0 = a 32-bit size follows), tokens.  None if invalid."""
    if len(data) < 4 or data[0] != magic:
        return None
    size = data[1] | (data[2] << 8) | (data[3] << 16)
    pos = 4
    if size == 0 and magic == 0x11:
        if len(data) < 8:
            return None
        size = int.from_bytes(data[4:8], "little")
        pos = 8
    return _lz_body(data, pos, size, magic == 0x11)


def decode_for(fmt, data):
    """The game's stored form: LZ10 stream (FE9/FE10); 0x13 + 24-bit field + LZ11 stream (FE13-15)."""
    data = bytes(data)
    if fmt == "10":
        # the LZ10 entry hands the bytes to the shared expander, which also takes a bare LZ11 stream (C11: formats crossed)
        return lz_stream(data, 0x10) if data[:1] == b"\x10" else lz_stream(data, 0x11)
    if len(data) < 4:
        return None
    if data[0] == 0:
        return data[4:]                      # stored form of the LZ13 entry (C11_stored_form): the bytes behind a 4-byte header
    body = data[4:] if data[0] == 0x13 else data       # a bare stream is passed through (C11_bare_stream_passed_through)
    return lz_stream(body, 0x10) if body[:1] == b"\x10" else lz_stream(body, 0x11)


# ----------------------------------------------------------------------------- localisation (C14's table)
def structured(path):
    """comps, trailing for a path of plain components; None otherwise ("" is the root: ([], False))."""
    if path == "":
        return [], False
    comps = path.split("/")
    tr = False
    if len(comps) > 1 and comps[-1] == "":
        comps = comps[:-1]
        tr = True
    if any(c in ("", ".", "..") for c in comps):
        return None
    return comps, tr


def py_localize(game, lang, path):
    """('ok', s) | ('err', None) for a path in the modelled domain."""
    if path == "":
        return ("err", None)
    st = structured(path)
    if st is None:
        return None
    comps, _ = st
    e = c14.expected(game, lang, tuple(comps))
    if e.startswith("ok "):
        return ("ok", c14.unL(e[3:]))
    return ("err", e)


# ----------------------------------------------------------------------------- case structure
class FsCase:
    """game, lang: indices; layers: list of list of (path, None|bytes) in creation order;
    ops: tuples (kind, loc, path[, payload | pattern token])."""

    def __init__(self, game, lang, layers, ops):
        self.game, self.lang, self.layers, self.ops = game, lang, layers, ops

    def byte_strings(self):
        out = set()
        for lay in self.layers:
            for (_, c) in lay:
                if c is not None:
                    out.add(bytes(c))
        out |= self.payloads()
        return out

    def payloads(self):
        """every byte string handed to the byte-level write (directly or through an archive writer)"""
        keep = lambda b: b if isinstance(b, PBytes) else bytes(b)
        return set(keep(o[3]) for o in self.ops if o[0] == "W") | set(keep(o[-1]) for o in self.ops if o[0] in ("WA", "WT"))


_counter = [0]


def fresh_base():
    _counter[0] += 1
    return "mila-fs-%d-%s-%d" % (os.getpid(), os.urandom(3).hex(), _counter[0])


# = harness/src/h_fs.rs::layer_dir_name: sibling directories that are string prefixes of one another in both orders (seeded change C13-9)
LAYER_DIRS = ["romfs", "romfs_patch", "rom", "romfs_patch2"]


def abs_layer(base, i):
    """Absolute path of layer i of a case with this base (what the harness will create), without the leading '/'."""
    return os.path.join(os.path.realpath(tempfile.gettempdir()), base, LAYER_DIRS[i] if i < 4 else "rom%d" % i).lstrip("/")


class Codec:
    """compress / decompress results of the real library, obtained through the harness kind `fscodec` (cached)."""

    def __init__(self):
        self.cache = {}

    def ensure(self, reqs):
        need = sorted(set(r for r in reqs if r not in self.cache))
        if not need:
            return
        lines = ["fscodec %s %s %s" % (f, d, B(b)) for (f, d, b) in need]
        outs = common.run_tool(common.harness_bin(False), lines, common.WORK, "fscodec")
        for r, o in zip(need, outs):
            if o.startswith("ok:"):
                self.cache[r] = bytes.fromhex(o[3:])
            elif o == "err":
                self.cache[r] = "E"
            else:
                self.cache[r] = "P"

    def get(self, f, d, b):
        self.ensure([(f, d, bytes(b))])
        return self.cache[(f, d, bytes(b))]


CODEC = Codec()


class Samples:
    """valid archive files built by the library's own writers (harness kind `fsmk`), cached"""

    def __init__(self):
        self.items = None

    def get(self):
        if self.items is None:
            specs = []
            for e in ("be", "le"):
                for v in (0, 1, 2):
                    specs.append(("bin", e, None, "fsmk bin %s %d" % (e, v)))
            for f in ("sjis", "utf16"):
                for e in ("be", "le"):
                    for v in (0, 1):
                        specs.append(("text", e, f, "fsmk text %s %s %d" % (f, e, v)))
            specs.append(("fe9arc", None, None, "fsmk fe9arc 1"))
            outs = common.run_tool(common.harness_bin(False), [x[3] for x in specs], common.WORK, "fsmk", shards=1)
            self.items = []
            for (kind, e, f, _), o in zip(specs, outs):
                parts = o.split()
                if len(parts) == 2:
                    self.items.append((kind, e, f, bytes.fromhex(parts[0]), bytes.fromhex(parts[1])))
        return self.items


SAMPLES = Samples()


def render_case(c, base, codec=CODEC):
    g = GAMES[c.game]
    toks = ["fs", base, str(c.game), str(c.lang), str(len(c.layers))]
    for lay in c.layers:
        toks.append(str(len(lay)))
        for (p, content) in lay:
            toks.append(L(p))
            toks.append("D" if content is None else B(content))
    table = []
    if g in SPEC_CFG:
        f = SPEC_CFG[g][0]
        pays = sorted(c.payloads())
        codec.ensure([(f, "c", b) for b in pays])
        comp = []
        for b in pays:
            r = codec.get(f, "c", b)
            table.append(("c" + f, b, r))
            if isinstance(r, bytes):
                comp.append(r)
        allb = sorted(c.byte_strings() | set(comp))
        codec.ensure([(f, "d", b) for b in allb])
        for b in allb:
            table.append(("d" + f, b, codec.get(f, "d", b)))
    toks.append(str(len(table)))
    for (k, i, o) in table:
        toks += [k, B(i), o if isinstance(o, str) else B(o)]
    for o in c.ops:
        if o[0] == "W":
            toks += ["W", str(o[1]), L(o[2]), B(o[3])]
        elif o[0] == "L":
            toks += ["L", str(o[1]), L(o[2]), o[3]]
        elif o[0] == "H":        # set-up: hard link o[3] -> o[2] inside layer o[1]
            toks += ["H", str(o[1]), L(o[2]), L(o[3])]
        elif o[0] == "TR":
            toks += ["TR", str(o[1]), L(o[2]), str(o[3])]
        elif o[0] == "WA":
            toks += ["WA", str(o[1]), L(o[2]), o[3], B(o[4]), B(o[5])]
        elif o[0] == "WT":
            toks += ["WT", str(o[1]), L(o[2]), o[3], o[4], B(o[5]), B(o[6])]
        else:
            toks += [o[0], str(o[1]), L(o[2])]
    return " ".join(toks)


def parse_case(line):
    """-> (base, FsCase)"""
    t = line.split()
    assert t[0] == "fs"
    base, game, lang, nl = t[1], int(t[2]), int(t[3]), int(t[4])
    i = 5
    layers = []
    for _ in range(nl):
        k = int(t[i])
        i += 1
        lay = []
        for _ in range(k):
            lay.append((unL(t[i]), None if t[i + 1] == "D" else unB(t[i + 1])))
            i += 2
        layers.append(lay)
    nc = int(t[i])
    i += 1 + 3 * nc
    ops = []
    while i < len(t):
        k = t[i]
        if k == "W":
            ops.append(("W", int(t[i + 1]), unL(t[i + 2]), unB(t[i + 3])))
            i += 4
        elif k == "L":
            ops.append(("L", int(t[i + 1]), unL(t[i + 2]), t[i + 3]))
            i += 4
        elif k == "H":
            ops.append(("H", int(t[i + 1]), unL(t[i + 2]), unL(t[i + 3])))
            i += 4
        elif k == "TR":
            ops.append(("TR", int(t[i + 1]), unL(t[i + 2]), int(t[i + 3])))
            i += 4
        elif k == "WA":
            ops.append(("WA", int(t[i + 1]), unL(t[i + 2]), t[i + 3], unB(t[i + 4]), unB(t[i + 5])))
            i += 6
        elif k == "WT":
            ops.append(("WT", int(t[i + 1]), unL(t[i + 2]), t[i + 3], t[i + 4], unB(t[i + 5]), unB(t[i + 6])))
            i += 7
        else:
            ops.append((k, int(t[i + 1]), unL(t[i + 2])))
            i += 3
    return base, FsCase(game, lang, layers, ops)


# corpus lines: "fs $BASE g l layers... $CODEC ops..." with path tokens either L<..> or :<percent-escaped text>;
# $ABS<i> inside a ':' token = absolute path of layer i (without the leading '/').
def expand_corpus_line(line):
    base = fresh_base()
    toks = []
    for t in line.split():
        if t == "$BASE":
            toks.append(base)
        elif t == "$CODEC":
            toks.append("0")
        elif t.startswith(":"):
            s = unesc(t[1:])
            for i in range(4):
                s = s.replace("$ABS%d" % i, abs_layer(base, i))
            toks.append(L(s))
        else:
            toks.append(t)
    _, c = parse_case(" ".join(toks))
    return render_case(c, base)


# ----------------------------------------------------------------------------- snapshots
def parse_walk(w):
    """'a/,a/f=00ff & ...' -> list of dict path -> None | bytes"""
    layers = []
    for part in w.split(" & "):
        d = {}
        part = part.strip()
        if part:
            for e in part.split(","):
                if e.endswith("/"):
                    d[unesc(e[:-1])] = None
                else:
                    p, _, h = e.rpartition("=")
                    d[unesc(p)] = bytes.fromhex(h)
        layers.append(d)
    return layers


def initial_snapshot(c):
    snap = []
    for lay in c.layers:
        d = {}
        for (p, content) in lay:
            comps = p.rstrip("/").split("/")
            for k in range(1, len(comps)):
                d.setdefault("/".join(comps[:k]), None)
            d["/".join(comps)] = content if content is None else bytes(content)
        snap.append(d)
    return snap


def node(layer, comps):
    """'dir' | 'file' | None at the component list in one layer snapshot (the root is a directory)."""
    if not comps:
        return "dir"
    key = "/".join(comps)
    if key not in layer:
        return None
    return "dir" if layer[key] is None else "file"


def l_is_file(layer, comps, tr):
    return node(layer, comps) == "file" and not tr


def l_is_dir(layer, comps, tr):
    return node(layer, comps) == "dir"


def l_exists(layer, comps, tr):
    return l_is_file(layer, comps, tr) or l_is_dir(layer, comps, tr)


# The pattern ARGUMENTS the model covers (Model/LayeredFS.v: glob_special / plain_pattern_arg / wf_pattern): glob interprets the
# caller's pattern, the model reads <ext> / <name> literally, so only arguments free of these characters are generated
# (review r4, C13-1).  Names of directories and files in the layers are NOT restricted (DIR_NAMES / FILE_NAMES below).
GLOB_SPECIAL = "*?[]{}\\/"


def _coq_glob_special():
    import re
    src = open(os.path.join(os.path.dirname(os.path.abspath(__file__)), "..", "coq", "Model", "LayeredFS.v"), encoding="utf-8").read()
    m = re.search(r"Definition glob_special : list N := \[([0-9; ]*)\]", src)
    return [int(x) for x in m.group(1).split(";")] if m else None


assert _coq_glob_special() == [ord(c) for c in GLOB_SPECIAL], "gen/fsgen.py GLOB_SPECIAL differs from Model/LayeredFS.v glob_special"


def plain_pattern_arg(s):
    """= LayeredFS.plain_pattern_arg"""
    return not any(ch in GLOB_SPECIAL for ch in s)


def wf_pattern(pat):
    """= LayeredFS.wf_pattern on a pattern token"""
    k = pat[:2]
    arg = unL(pat[2:]) if len(pat) > 2 else ""
    if k in ("PA", "PX", "PS"):
        return True
    if k in ("PE", "PR"):
        return plain_pattern_arg(arg)
    if k == "PD":
        return arg not in ("", ".", "..") and plain_pattern_arg(arg)
    raise ValueError(pat)


def pat_matches(pat, rel):
    """pattern token, rel = components below the listed directory (non-empty)."""
    k = pat[:2]
    arg = unL(pat[2:]) if len(pat) > 2 else ""
    if k in ("PA", "PX"):
        return True
    if k == "PS":
        return len(rel) == 1
    if k == "PE":
        return len(rel) == 1 and rel[0].endswith("." + arg)
    if k == "PR":
        return rel[-1].endswith("." + arg)
    if k == "PD":
        return len(rel) == 2 and rel[0] == arg
    raise ValueError(pat)


def expected_list(snap, comps, tr, pat, dirs_only=False):
    res = set()
    for lay in snap:
        if not l_is_dir(lay, comps, tr):
            continue
        for key, content in lay.items():
            q = key.split("/")
            if len(q) > len(comps) and q[:len(comps)] == comps:
                rel = q[len(comps):]
                if dirs_only:
                    if len(rel) == 1 and content is None:
                        res.add(key)
                elif pat_matches(pat, rel):
                    res.add(key)
    return sorted(res, key=lambda s: s.encode("utf-8"))


def is_compressed_name(game, path):
    return any(path.endswith(s) for s in SPEC_CFG[game][1])


def check_history(c, impl_out):
    """The oracle: None or a failure text."""
    game, lang = GAMES[c.game], LANGS[c.lang]
    if impl_out in ("PANIC", "ABORT", "TIMEOUT", "MISSING-OUTPUT") or impl_out.startswith(("BASE-ERROR", "BAD-BASE", "SETUP-ERROR", "REFUSED", "UNKNOWN-KIND")):
        return "the history did not run: %s" % impl_out
    segs = impl_out.split(" ; ")
    head, _, w0 = segs[0].partition(" @ ")
    init = initial_snapshot(c)
    if parse_walk(w0) != init and len(c.layers) > 0:
        return "initial directories differ from the case: %s" % w0[:200]
    if len(c.layers) == 0:
        return None if head == "new:err:nolayers" else "no layers: expected NoLayers, got %s" % head
    if game not in SPEC_CFG:
        return None if head == "new:err:unsupported-game" else "%s: expected UnsupportedGame, got %s" % (game, head)
    if head != "new:ok":
        return "LayeredFilesystem::new failed: %s" % head
    if len(segs) != 1 + len(c.ops):
        return "expected %d results, got %d" % (1 + len(c.ops), len(segs))
    fmt = SPEC_CFG[game][0]
    snap = init
    top = len(snap) - 1
    for n, (o, seg) in enumerate(zip(c.ops, segs[1:])):
        ret, _, w = seg.partition(" @ ")
        new = snap if w == "=" else parse_walk(w)
        kind, loc, path = o[0], o[1], o[2]
        where = "op %d %s(%r%s)" % (n, kind, path, ", localized" if loc else "")
        if ret == "panic":
            return where + ": panicked"
        if kind == "H":      # set-up step (hard link inside layer o[1]): the walk must show a second file with the same bytes
            want = [dict(x) for x in snap]
            dcomps = o[3].split("/")
            for k2 in range(1, len(dcomps)):
                want[o[1]].setdefault("/".join(dcomps[:k2]), None)
            want[o[1]][o[3]] = snap[o[1]].get(o[2])
            if ret != "link:ok" or new != want:
                return where + ": the hard link could not be set up (%s)" % ret
            snap = new
            continue
        if len(new) != len(snap):
            return where + ": number of layers changed"
        # lower layers are never touched, by any call
        for i in range(top):
            if new[i] != snap[i]:
                return where + ": layer %d (not the top layer) was modified" % i
        if kind not in ("W", "WA", "WT", "C") and new[top] != snap[top]:
            return where + ": a query modified the top layer"
        # the addressed location
        actual = path
        if loc:
            lz = py_localize(game, lang, path)
            if lz is None:
                snap = new
                continue
            if lz[0] == "err":
                want = "none" if kind == "V" else "err:loc-"
                if not ret.startswith(want):
                    return where + ": localisation must fail here, got %s" % ret
                if new != snap:
                    return where + ": failed call changed the directories"
                continue
            actual = lz[1]
        st = structured(actual)
        if st is None:
            snap = new
            continue
        comps, tr = st
        if kind == "R":
            holder = None
            for i in range(top, -1, -1):
                if l_is_file(snap[i], comps, tr):
                    holder = i
                    break
            if holder is None:
                if ret != "err:notfound":
                    return where + ": no layer holds the file, expected not-found, got %s" % ret[:80]
            else:
                raw = snap[holder]["/".join(comps)]
                if is_compressed_name(game, path):
                    dec = decode_for(fmt, raw)
                    if dec is not None and ret != "ok:" + dec.hex():
                        return where + ": layer %d holds a valid compressed stream of %d bytes; read returned %s" % (holder, len(dec), ret[:80])
                    if dec is None and not (ret.startswith("ok:") or ret.startswith("err:")):
                        return where + ": unexpected result %s" % ret[:80]
                elif ret != "ok:" + raw.hex():
                    return where + ": expected the bytes of layer %d (%s), got %s" % (holder, raw.hex()[:60], ret[:80])
        elif kind in ("TA", "TT", "TR"):
            holder = None
            for i in range(top, -1, -1):
                if l_is_file(snap[i], comps, tr):
                    holder = i
                    break
            if holder is None:
                if ret != "err:notfound":
                    return where + ": no layer holds the file, expected not-found, got %s" % ret[:80]
            else:
                raw = snap[holder]["/".join(comps)]
                undecodable = is_compressed_name(game, path) and decode_for(fmt, raw) is None
                if undecodable and ret.startswith("err:"):
                    pass
                elif kind == "TA":
                    want = {"big": "be", "little": "le"}[SPEC_CFG[game][2]]
                    if not (ret.startswith("ta:") and want in ret[3:].split("+")):
                        return where + ": read_archive is not BinArchive::from_bytes(read(path), %s-endian): %s" % (SPEC_CFG[game][2], ret[:80])
                elif kind == "TT":
                    want = {"shiftjis": "sjis", "utf16": "utf16"}[SPEC_CFG[game][3]] + "-" + {"big": "be", "little": "le"}[SPEC_CFG[game][2]]
                    if not (ret.startswith("tt:") and want in ret[3:].split("+")):
                        return where + ": read_text_archive is not TextArchive::from_bytes(read(path), %s): %s" % (want, ret[:80])
                elif ret not in ("tr:same-ok", "tr:same-err", "tr:same-panic"):
                    return where + ": typed read helper %d differs from its parser applied to read(path): %s" % (o[3], ret[:80])
        elif kind in ("W", "WA", "WT"):
            payload = bytes(o[3]) if kind == "W" else bytes(o[-1])
            t = snap[top]
            anc = ["/".join(comps[:k]) for k in range(1, len(comps))]
            blocked = any(t.get(a, None) is not None for a in anc)     # an ancestor is a file
            can = (not blocked) and (not tr) and len(comps) > 0 and node(t, comps) != "dir"
            key = "/".join(comps)
            too_large = is_compressed_name(game, path) and len(payload) >= CODEC_LIMIT[fmt]
            if too_large:
                # the format's size field cannot store the length (F21): the write must fail with the compression error
                # and change nothing at all
                if ret != "err:compression":
                    return where + ": payload of %d bytes cannot be stored as LZ%s: expected a compression error, got %s" % (len(payload), fmt, ret[:60])
                if new != snap:
                    return where + ": the rejected write of a too large payload changed the directories"
            elif ret == "ok":
                if not can:
                    return where + ": write reported success although the target cannot be a file"
                for k2 in set(t) | set(new[top]):
                    if k2 == key or k2 in anc:
                        continue
                    if t.get(k2, "absent") != new[top].get(k2, "absent"):
                        return where + ": write changed %r, which is neither the target nor an ancestor" % k2
                for a in anc:
                    if a not in new[top] or new[top][a] is not None:
                        return where + ": ancestor %r is not a directory after the write" % a
                if key not in new[top] or new[top][key] is None:
                    return where + ": target is not a file after the write"
                stored = new[top][key]
                if is_compressed_name(game, path):
                    dec = decode_for(fmt, stored)
                    if dec is None:
                        return where + ": stored file is not a valid LZ%s stream: %s" % (fmt, stored.hex()[:80])
                    if dec != payload:
                        return where + ": stored stream decodes to %d bytes that differ from the payload" % len(dec)
                elif stored != payload:
                    return where + ": stored bytes differ from the payload"
            else:
                if can:
                    return where + ": write failed (%s) although nothing is in the way" % ret
                # a failed write may only have created missing ancestor directories, and only for a path with a trailing '/'
                for k2 in set(t) | set(new[top]):
                    if t.get(k2, "absent") != new[top].get(k2, "absent"):
                        if not (tr and not blocked and k2 in anc and k2 not in t and new[top][k2] is None):
                            return where + ": failed write changed %r" % k2
        elif kind == "C":
            t = snap[top]
            pre = ["/".join(comps[:k]) for k in range(1, len(comps) + 1)]
            blocked = any(t.get(a, None) is not None for a in pre)
            if blocked:
                if ret == "ok":
                    return where + ": create_dir succeeded through a file"
                if new != snap:
                    return where + ": failed create_dir changed the directories"
            else:
                if ret != "ok":
                    return where + ": create_dir failed: %s" % ret
                want = dict(t)
                for a in pre:
                    want.setdefault(a, None)
                if new[top] != want:
                    return where + ": create_dir result differs from 'all missing prefixes become directories'"
        elif kind in ("E", "F", "G"):
            f = {"E": l_exists, "F": l_is_file, "G": l_is_dir}[kind]
            want = any(f(lay, comps, tr) for lay in snap)
            if ret != "ok:" + ("true" if want else "false"):
                return where + ": expected %s, got %s" % (want, ret)
        elif kind == "V":
            holder = None
            for i in range(top, -1, -1):
                if l_exists(snap[i], comps, tr):
                    holder = i
                    break
            want = "none" if holder is None else "some:%d:%s" % (holder, esc(actual))
            if ret != want:
                return where + ": expected %s, got %s" % (want, ret)
        elif kind in ("L", "S"):
            exp = expected_list(snap, comps, tr, o[3] if kind == "L" else None, dirs_only=(kind == "S"))
            want = "ok:[" + ",".join(esc(s) for s in exp) + "]"
            if ret.startswith(want + " !exists:"):
                return where + ": listed paths that the filesystem's own exists denies: %s" % ret[len(want) + 1:][:300]
            if ret != want:
                got = ret
                return where + ": listing differs from the sorted de-duplicated union of the layers: want %s got %s" % (want[:300], got[:300])
        snap = new
    return None


# ----------------------------------------------------------------------------- random cases
DIR_NAMES = ["d", "m", "sub", ".hid", "sp ace", "日本", "x.lz", "E", "@E", "a[b]", "q?", "st*r", "d.cmp", "c{d}", "[!a]",
             "x\\y", "tr.", "#h", "100%"]      # backslash (seeded change C13-7), trailing dot, '#', '%': opaque name characters on Unix
FILE_NAMES = ["a.bin", "b.txt", "c.bin.lz", "g.cmp", "h.cms", ".lz", ".txt", "n", "lz", "t.txt", "e_a.bin", "s_g.cmp",
              "z.lz", "k.cmp", "é.bin", "w x.txt", "a.b.txt", "cmp", ".cms", "a]", "b[1].txt", "u.lz.bak",
              "{x}.txt", "*.txt", "?.bin", "p.t!", "r.b-c", "v.é",
              "a\\b.bin", "w\\.txt", "\\", "#x.bin", "50%.txt", "dot.", "ü ü.lz", "%2f.bin"]
# pattern arguments: all satisfy plain_pattern_arg (asserted below); some with characters that are NOT excluded ('!' '-' '.' ' ' non-ASCII)
EXTS = ["txt", "bin", "lz", "cmp", "b.txt", "bin.lz", "t!", "b-c", "é", "x.txt"]
SUB_NAMES = ["sp ace", ".hid", "日本", "x.lz", "@E", "d.cmp"]
assert all(plain_pattern_arg(x) for x in EXTS + SUB_NAMES)


def payload_pool(rng, tier):
    pool = [b"", b"\x00", b"ab", b"abc", b"\x13\x00\x00\x00", b"\x10\x04\x00\x00\x00abcd", b"\x00\x01\x02\x03\x04",
            b"a" * 16, b"a" * 17, b"a" * 18, b"a" * 19, b"ab" * 20, b"abc" * 30, b"x" * 272, b"x" * 273, b"x" * 274,
            bytes(range(256)), b"The quick brown fox jumps over the lazy dog. " * 4,
            bytes(rng.randrange(256) for _ in range(40)), bytes(rng.randrange(256) for _ in range(200)),
            bytes(rng.randrange(4) for _ in range(150)), bytes([rng.randrange(2) * 255 for _ in range(64)])]
    if tier == "thorough":
        pool += [b"y" * 4096, b"y" * 4400, bytes(rng.randrange(256) for _ in range(1500)),
                 bytes(rng.randrange(3) for _ in range(3000)), (b"0123456789abcdef" * 70)[:1111],
                 bytes(rng.randrange(256) for _ in range(17)) * 40]
        for _ in range(10):
            n = rng.choice([1, 2, 3, 5, 8, 15, 16, 31, 32, 33, 100, 255, 256, 257, 600])
            k = rng.choice([1, 2, 3, 16, 256])
            pool.append(bytes(rng.randrange(k) for _ in range(n)))
    return pool


def garbage_pool(pool, fmt, codec):
    """file contents that are not plain payloads: stored forms of pool payloads, cut or damaged streams"""
    out = []
    for b in pool[:12]:
        c = codec.get(fmt, "c", b)
        if isinstance(c, bytes):
            out.append(c)
            if len(c) > 5:
                out.append(c[:-1])
                out.append(c[:5])
    out += [b"\x10", b"\x13\x05\x00\x00\x11", b"\x11\x03\x00\x00\x00abc", b"\x10\x03\x00\x00\x00abc", b"\x13\x00\x00\x00\x11\x03\x00\x00\x00abc"]
    return out


def rand_path(rng, depth=None):
    d = depth if depth is not None else rng.choice([1, 2, 2, 3, 3, 4])
    comps = [rng.choice(DIR_NAMES) for _ in range(d - 1)] + [rng.choice(FILE_NAMES)]
    return "/".join(comps)


def case_universe(rng, game, lang):
    """a small set of related path strings so that operations and layers collide"""
    g, l = GAMES[game], LANGS[lang]
    dirs = rng.sample(DIR_NAMES[:8] if rng.random() < 0.7 else DIR_NAMES, 3)
    base = set()
    for _ in range(rng.randint(3, 7)):
        depth = rng.choice([1, 2, 2, 3, 3, 4])
        comps = [rng.choice(dirs) for _ in range(depth - 1)] + [rng.choice(FILE_NAMES if rng.random() < 0.75 else dirs)]
        base.add("/".join(comps))
    uni = set(base)
    for p in list(base):
        comps = p.split("/")
        for k in range(1, len(comps)):
            uni.add("/".join(comps[:k]))
        if g in SPEC_CFG:
            lz = py_localize(g, l, p)
            if lz and lz[0] == "ok":
                uni.add(lz[1].rstrip("/") if rng.random() < 0.5 else lz[1])
    files = sorted(uni)
    extra = ["", "nope", "nope/deeper/f.bin"]
    some = rng.choice(files).rstrip("/")
    extra += [some + "/", some + "/under.bin", some.split("/")[0] + "/new.lz", some.split("/")[0] + "/new.cmp"]
    return files, extra


def build_layer(rng, files, contents, n, stored=None, is_comp=None):
    """n entries without file/directory conflicts inside the layer; files with a compressed name mostly hold stored forms"""
    lay = []
    kind = {}   # path -> 'f' | 'd'
    for _ in range(n):
        p = rng.choice(files).rstrip("/")
        if not p:
            continue
        comps = p.split("/")
        pre = ["/".join(comps[:k]) for k in range(1, len(comps))]
        if any(kind.get(a) == "f" for a in pre):
            continue
        want_dir = rng.random() < 0.25
        if p in kind:
            if kind[p] == "d" or want_dir:
                continue
        if any(q.startswith(p + "/") for q in kind) and not want_dir:
            continue
        for a in pre:
            kind[a] = "d"
        kind[p] = "d" if want_dir else "f"
        if want_dir:
            lay.append((p, None))
        elif stored and is_comp and is_comp(p) and rng.random() < 0.75:
            lay.append((p, rng.choice(stored)))
        else:
            lay.append((p, rng.choice(contents)))
    return lay


def gen_case(rng, tier, game, lang, focus, pool, codec=CODEC):
    g = GAMES[game]
    files, extra = case_universe(rng, game, lang)
    contents = list(pool)
    stored = []
    if g in SPEC_CFG:
        fmt = SPEC_CFG[g][0]
        contents = contents + garbage_pool(pool, fmt, codec)
        stored = [c for c in (codec.get(fmt, "c", b) for b in pool[:16]) if isinstance(c, bytes)]
        if focus == "c12":
            for smp in SAMPLES.get():
                contents.append(smp[3])
                c = codec.get(fmt, "c", smp[3])
                if isinstance(c, bytes):
                    contents.append(c)
                    stored.append(c)
    nl = rng.choice([1, 2, 2, 3, 3, 4])
    is_comp = (lambda p: is_compressed_name(g, p)) if g in SPEC_CFG else None
    layers = [build_layer(rng, files, contents, rng.choice([0, 1, 2, 4, 6, 9]), stored, is_comp) for _ in range(nl)]
    maxops = 25 if tier == "quick" else 120
    nops = rng.choice([3, 6, 10, 15, maxops, maxops]) if tier == "quick" else rng.choice([10, 25, 60, maxops])
    samples = SAMPLES.get() if focus == "c12" else []
    if focus == "c12":
        weights = [("W", 26), ("R", 26), ("E", 5), ("F", 5), ("G", 5), ("V", 6), ("C", 7), ("L", 8), ("S", 4),
                   ("TA", 3), ("TT", 3), ("TR", 2), ("WA", 3), ("WT", 2)]
    else:
        weights = [("L", 42), ("S", 18), ("W", 14), ("C", 10), ("R", 4), ("E", 5), ("F", 2), ("G", 2), ("V", 3)]
    kinds = [k for (k, w) in weights for _ in range(w)]
    ops = []
    paths = files + extra
    # calls that are likely to hit something: what the layers hold (files and their ancestors), addressed directly or
    # through the path whose localisation it is; extended by every write of the history
    present_files, present_dirs = set(), set()
    for lay in layers:
        for (q, content) in lay:
            comps = q.split("/")
            for k2 in range(1, len(comps)):
                present_dirs.add("/".join(comps[:k2]))
            (present_dirs if content is None else present_files).add(q)
    hits_f = [(q, 0) for q in sorted(present_files)]
    hits_d = [(q, 0) for q in sorted(present_dirs)] + [("", 0)]
    if g in SPEC_CFG:
        for u in sorted(set(files) | present_dirs):
            lz = py_localize(g, LANGS[lang], u.rstrip("/")) if u else None
            if lz and lz[0] == "ok":
                t = lz[1].rstrip("/")
                if t in present_files:
                    hits_f.append((u, 1))
                if t in present_dirs:
                    hits_d.append((u, 1))
    for _ in range(nops):
        k = rng.choice(kinds)
        p = rng.choice(paths)
        loc = 1 if rng.random() < 0.35 else 0
        if rng.random() < 0.08:
            p = rand_path(rng)
        r = rng.random()
        if k in ("R", "TA", "TT", "TR", "F") and hits_f and r < 0.6:
            p, loc = rng.choice(hits_f)
        elif k in ("L", "S", "G") and hits_d and r < 0.6:
            p, loc = rng.choice(hits_d)
        elif k in ("E", "V") and (hits_f or hits_d) and r < 0.5:
            p, loc = rng.choice(hits_f + hits_d)
        if rng.random() < 0.06 and p and not p.endswith("/"):
            p += "/"
        if k in ("WA", "WT", "TR") and not samples:
            k = "R"
        if k in ("W", "WA", "WT") and not p.endswith("/"):
            hits_f.append((p, loc))
        if k == "W" and focus == "c12" and not p.endswith("/") and rng.random() < 0.12:
            # write, read, edit in place, read again - with a large incompressible payload and the same payload with a few
            # bytes in the MIDDLE changed: the two compressed streams have the same length, the same first and the same last
            # bytes (seeded change codec-3 memoised decompress on exactly that key and returned the stale expansion)
            big = bytes(rng.getrandbits(8) for _ in range(rng.choice([150, 300, 520])))
            mid = len(big) // 2
            big2 = big[:mid] + bytes((x + 1) & 0xFF for x in big[mid:mid + 3]) + big[mid + 3:]
            ops += [("W", loc, p, big), ("R", loc, p), ("W", loc, p, big2), ("R", loc, p)]
        elif k == "W":
            ops.append(("W", loc, p, rng.choice(pool)))
        elif k == "WA":
            smp = rng.choice([x for x in samples if x[0] == "bin"])
            ops.append(("WA", loc, p, smp[1], smp[3], smp[4]))
        elif k == "WT":
            smp = rng.choice([x for x in samples if x[0] == "text"])
            ops.append(("WT", loc, p, smp[2], smp[1], smp[3], smp[4]))
        elif k == "TR":
            kk = rng.randrange(6)
            if rng.random() < 0.4 and not p.endswith("/"):
                kk = 1
                ops.append(("W", loc, p, [x for x in samples if x[0] == "fe9arc"][0][3]))
            ops.append(("TR", loc, p, kk))
        elif k in ("TA", "TT"):
            if samples and rng.random() < 0.6 and not p.endswith("/"):
                # make the call discriminating: put a valid archive there first (any endianness / encoding)
                smp = rng.choice([x for x in samples if x[0] == ("bin" if k == "TA" else "text")])
                ops.append(("W", loc, p, smp[3]))
            ops.append((k, loc, p))
        elif k == "L":
            r = rng.random()
            if r < 0.35:
                pat = "PA"
            elif r < 0.45:
                pat = "PX"
            elif r < 0.6:
                pat = "PS"
            elif r < 0.75:
                pat = "PE" + L(rng.choice(EXTS))
            elif r < 0.9:
                pat = "PR" + L(rng.choice(EXTS))
            else:
                names = DIR_NAMES[:8] + SUB_NAMES + [q.rstrip("/").split("/")[-1] for q in files[:3]]
                pat = "PD" + L(rng.choice([x for x in names if wf_pattern("PD" + L(x))]))
            assert wf_pattern(pat), pat      # the generator's restriction IS the model's predicate
            ops.append(("L", loc, p, pat))
        else:
            ops.append((k, loc, p))
    return FsCase(game, lang, layers, ops[:maxops])


def gen_cases(rng, tier, focus, n, stream):
    pool = payload_pool(rng, tier)
    out = []
    for k in range(n):
        game = SUPPORTED[k % 5]
        lang = (k // 5) % 8          # every 40 consecutive cases cover all supported games x languages
        c = gen_case(rng, tier, game, lang, focus, pool)
        out.append(Case(render_case(c, fresh_base()), stream))
    # unsupported games and the empty layer list
    for (game, nl) in [(2, 1), (3, 2), (4, 0), (2, 0)]:
        c = FsCase(game, k % 8, [[("d/a.bin", b"x")]] * nl, [])
        out.append(Case(render_case(c, fresh_base()), "new-errors"))
    # foreign stored forms under a compressed name, read through every game: the 24-bit field of the 0x13 wrapper is not looked
    # at by the decoder (C11), so a valid LZ11 stream behind a wrapper of ANY value - 0, smaller or larger than the decoded size -
    # is served decoded (seeded change C12-10 rejected streams whose wrapper value is smaller than the decoded size; it had been
    # caught by a randomly drawn file content with one seed and not with another)
    for game in SUPPORTED:
        fmt, sufs = SPEC_CFG[GAMES[game]][0], SPEC_CFG[GAMES[game]][1]
        bodies = []
        for pay in (b"", b"abc", bytes(range(65, 65 + 20))):
            lz = bytes([0x11 if fmt == "13" else 0x10]) + len(pay).to_bytes(3, "little")
            for i in range(0, len(pay), 8):
                lz += b"\x00" + pay[i:i + 8]
            if fmt == "13":
                for v in (0, 1, max(len(pay) - 1, 0), len(pay), len(pay) + 1, 0xFFFFFF):
                    bodies.append(b"\x13" + v.to_bytes(3, "little") + lz)
            else:
                bodies.append(lz)
        for j, body in enumerate(bodies):
            pth = "d/f%d%s" % (j, sufs[j % len(sufs)])
            c = FsCase(game, j % 8, [[(pth, body)], [("d/other.bin", b"x")]], [("R", 0, pth), ("E", 0, pth), ("R", 0, pth)])
            out.append(Case(render_case(c, fresh_base()), "foreign-stored-forms"))
    return out


# ----------------------------------------------------------------------------- letter case (seeded change C13-6)
# glob::glob matches case-sensitively (MatchOptions::new()); the DERIVED Default of MatchOptions has case_sensitive = false, so a
# `glob_with(.., MatchOptions { .., ..Default::default() })` silently lists NOTES.TXT for "*.txt".  Visible only with a caller pattern
# containing a letter and an entry that matches it up to letter case only: trees whose names come in case variants, patterns with letters
# in every case.  Expectations are the model's / the oracle's (case-sensitive, Linux temp directories are).
CASE_FILES = ["notes.txt", "NOTES.TXT", "Notes.Txt", "map.bin", "Map.BIN", "MAP.bin", "five.Bin", "a.lz", "A.LZ", "readme", "README", "x.TXT.bin"]
CASE_DIRS = ["Subdir", "subdir", "SUBDIR", "nested", "Nested"]
CASE_EXTS = ["txt", "TXT", "Txt", "bin", "BIN", "Bin", "lz", "LZ", "TXT.bin", "txt.bin"]
assert all(plain_pattern_arg(x) for x in CASE_EXTS + CASE_DIRS)


def case_variant_cases(rng, tier, stream="letter-case"):
    n = 160 if tier == "quick" else 1600
    out = []
    for k in range(n):
        game = SUPPORTED[k % 5]
        lang = (k // 5) % 8
        dirs = rng.sample(CASE_DIRS, 3)
        files = set()
        for _ in range(rng.randint(5, 10)):
            depth = rng.choice([1, 2, 2, 3])
            files.add("/".join([rng.choice(dirs) for _ in range(depth - 1)] + [rng.choice(CASE_FILES)]))
        files = sorted(files)
        contents = [b"", b"a", b"bc"]
        layers = [build_layer(rng, files, contents, rng.choice([3, 5, 8])) for _ in range(rng.choice([1, 2, 2, 3]))]
        listed = [""] + dirs + [d1 + "/" + d2 for d1 in dirs[:2] for d2 in dirs[:2]]
        ops = []
        for _ in range(rng.choice([6, 10, 14])):
            r = rng.random()
            d = rng.choice(listed)
            if d and rng.random() < 0.1:
                d += "/"
            loc = 1 if rng.random() < 0.15 else 0
            if r < 0.45:
                ops.append(("L", loc, d, "PR" + L(rng.choice(CASE_EXTS))))
            elif r < 0.75:
                ops.append(("L", loc, d, "PE" + L(rng.choice(CASE_EXTS))))
            elif r < 0.85:
                ops.append(("L", loc, d, "PD" + L(rng.choice(CASE_DIRS))))
            elif r < 0.9:
                ops.append(("S", loc, d))
            elif r < 0.95:
                ops.append(("L", loc, d, rng.choice(["PA", "PS"])))
            else:
                ops.append(("W", 0, rng.choice(files), rng.choice(contents)))
        assert all(wf_pattern(o[3]) for o in ops if o[0] == "L")
        out.append(Case(render_case(FsCase(game, lang, layers, ops), fresh_base()), stream))
    return out


# ----------------------------------------------------------------------------- hard links (seeded change C13-10)
# Several names of ONE file (same st_dev / st_ino) are several entries: a listing that de-duplicates by inode loses all but the first.
# H ops (set-up, not API calls) link an existing file of a layer under a new name in the same directory, in another directory of the layer or
# in a new directory; afterwards only listings and queries (a write to a linked name would change every name on disk, which the tree model -
# a hard link is a second file with the same bytes - does not follow).
def hard_link_cases(rng, tier, stream="hard-links"):
    n = 120 if tier == "quick" else 1200
    out = []
    k = 0
    while len(out) < n:
        k += 1
        game, lang = SUPPORTED[k % 5], (k // 5) % 8
        files, _ = case_universe(rng, game, lang)
        layers = [build_layer(rng, files, [b"", b"a", b"bc"], rng.choice([3, 5, 8])) for _ in range(rng.choice([1, 2, 2, 3]))]
        snap = initial_snapshot(FsCase(game, lang, layers, []))
        ops = []
        for j in range(rng.choice([1, 2, 3])):
            li = rng.randrange(len(layers))
            lay = snap[li]
            srcs = sorted(p for p, c in lay.items() if c is not None)
            if not srcs:
                continue
            src = rng.choice(srcs)
            dirs = [""] + sorted(p for p, c in lay.items() if c is None) + ["hl"]
            d = rng.choice([src.rpartition("/")[0], src.rpartition("/")[0], rng.choice(dirs)])
            base_name = src.rpartition("/")[2]
            dst = (d + "/" if d else "") + rng.choice(["0", "zz", "A"]) + "%d_" % j + base_name
            comps = dst.split("/")
            if dst in lay or any(lay.get("/".join(comps[:q])) is not None for q in range(1, len(comps)) if "/".join(comps[:q]) in lay):
                continue
            for q in range(1, len(comps)):
                lay.setdefault("/".join(comps[:q]), None)
            lay[dst] = lay[src]
            ops.append(("H", li, src, dst))
        if not ops:
            continue
        listed = sorted(set([""] + [p for lay in snap for p, c in lay.items() if c is None]))
        present = sorted(set(p for lay in snap for p, c in lay.items() if c is not None))
        for _ in range(rng.choice([4, 8, 12])):
            r = rng.random()
            d = rng.choice(listed)
            if r < 0.4:
                ops.append(("L", 0, d, rng.choice(["PA", "PA", "PX", "PS"])))
            elif r < 0.65:
                ops.append(("L", 0, d, rng.choice(["PE", "PR"]) + L(rng.choice(EXTS))))
            elif r < 0.8:
                ops.append(("S", 0, d))
            elif r < 0.9:
                ops.append(("R", 0, rng.choice(present)))
            else:
                ops.append((rng.choice(["E", "F", "V"]), 0, rng.choice(present)))
        out.append(Case(render_case(FsCase(game, lang, layers, ops), fresh_base()), stream))
    return out


def exhaustive_cases(tier, stream="exhaustive-small"):
    """every history up to length 2 (thorough: 3) over a 13-call alphabet on three colliding paths, from five two-layer states"""
    import itertools
    alphabet = [("W", 0, "a", b"\x01"), ("W", 0, "a/b", b"\x02"), ("W", 0, "a/b/", b"\x03"), ("C", 0, "a"), ("C", 0, "a/b"),
                ("R", 0, "a"), ("R", 0, "a/b"), ("E", 0, "a/b/"), ("F", 0, "a"), ("G", 0, "a"),
                ("L", 0, "a", "PA"), ("L", 0, "", "PA"), ("S", 0, "")]
    states = [[[], []], [[("a", b"\x07")], []], [[("a/b", b"\x07")], [("a", None)]], [[("a", None)], [("a", b"\x08")]],
              [[("a/b", None)], [("a/b", b"\x09")]]]
    out = []
    for st in states:
        for n in range(1, (2 if tier == "quick" else 3) + 1):
            for h in itertools.product(alphabet, repeat=n):
                out.append(Case(render_case(FsCase(4, 0, st, list(h)), fresh_base()), stream))
    return out


def size_limit_cases(stream="size-limit-F21"):
    """FE9 / FE10: a payload of 2^24+5 bytes (and of exactly 2^24) written to a name with the compressed suffix must
    fail with the compression error and store nothing (F21: it used to succeed, store the size 5 and read back 20
    bytes); afterwards the path does not exist, and a small payload can still be written there and read back."""
    out = []
    for game, n, pat, name in ((1, (1 << 24) + 5, b"\x41", "big.cmp"), (0, 1 << 24, b"\x00\x07", "d/big.cms")):
        big = pbytes(n, pat)
        ops = [("W", 0, name, big), ("F", 0, name), ("R", 0, name), ("W", 0, name, b"small payload small payload"), ("R", 0, name)]
        c = FsCase(game, 0, [[("keep.bin", b"\x01\x02")], []], ops)
        out.append(Case(render_case(c, fresh_base()), stream))
    return out


def _links_valid(c):
    """every H op (hard-link set-up) still names an existing file of an existing layer and a free destination, earlier links included"""
    snap = initial_snapshot(c)
    for o in c.ops:
        if o[0] != "H":
            continue
        if o[1] >= len(snap) or snap[o[1]].get(o[2]) is None or o[3] in snap[o[1]]:
            return False
        comps = o[3].split("/")
        if any(snap[o[1]].get("/".join(comps[:q])) is not None for q in range(1, len(comps))):
            return False
        for q in range(1, len(comps)):
            snap[o[1]].setdefault("/".join(comps[:q]), None)
        snap[o[1]][o[3]] = snap[o[1]][o[2]]
    return True


def shrink_case(case):
    for cand in _shrink_case(case):
        if " H " not in cand.line or _links_valid(parse_case(cand.line)[1]):
            yield cand


def _shrink_case(case):
    base, c = parse_case(case.line)
    # fewer operations
    for i in range(len(c.ops) - 1, -1, -1):
        yield Case(render_case(FsCase(c.game, c.lang, c.layers, c.ops[:i] + c.ops[i + 1:]), fresh_base()), case.stream)
    # fewer initial entries (dropping an entry that others need keeps the case valid: the harness creates parents)
    for li, lay in enumerate(c.layers):
        for i in range(len(lay)):
            nl = [list(x) for x in c.layers]
            del nl[li][i]
            yield Case(render_case(FsCase(c.game, c.lang, nl, c.ops), fresh_base()), case.stream)
    if len(c.layers) > 1:
        for li in range(len(c.layers)):
            yield Case(render_case(FsCase(c.game, c.lang, c.layers[:li] + c.layers[li + 1:], c.ops), fresh_base()), case.stream)


def nontrivial(case, impl_out, kinds):
    """the history reaches the property: >= 2 layers, or a call of one of `kinds` that succeeded with content"""
    try:
        _, c = parse_case(case.line)
    except Exception:
        return False
    segs = impl_out.split(" ; ")[1:]
    hit = False
    for o, seg in zip(c.ops, segs):
        ret = seg.partition(" @ ")[0]
        if o[0] in kinds and ret.startswith("ok") and ret not in ("ok:[]", "ok:false"):
            hit = True
    return hit


def sweep_leftovers():
    """remove scratch directories a dead harness process may have left behind (this run's only)"""
    import shutil
    tmp = tempfile.gettempdir()
    pre = "mila-fs-%d-" % os.getpid()
    n = 0
    try:
        for name in os.listdir(tmp):
            if name.startswith(pre):
                shutil.rmtree(os.path.join(tmp, name), ignore_errors=True)
                n += 1
    except OSError:
        pass
    return n


def agree(impl_out, model_out):
    """leg K: equal, except that the harness reports the SET of codec parameters that reproduce a typed helper's
    result (ta:be+le) where the model names the configured one (ta:be)"""
    if impl_out == model_out:
        return True
    a, b = impl_out.split(" ; "), model_out.split(" ; ")
    if len(a) != len(b):
        return False
    for x, y in zip(a, b):
        if x == y:
            continue
        rx, _, wx = x.partition(" @ ")
        ry, _, wy = y.partition(" @ ")
        if wx != wy:
            return False
        if rx[:3] in ("ta:", "tt:") and ry[:3] == rx[:3] and ry[3:] in rx[3:].split("+"):
            continue
        if rx in ("tr:same-ok", "tr:same-err", "tr:same-panic") and ry == "tr:same":
            continue
        return False
    return True
