# Independent Python side of the text-archive / arc checks (C06, C16, text+arc part of C05):
#   - a writer and a reader of the bin-archive FILE format (header, data, pointer table, label table, text),
#   - a reference READER of the text-archive format written from the property text (messages are located
#     through their labels, not by walking the way the library does),
#   - an arc WRITER with layout knobs,
#   - the canonicaliser that turns the model's raw (encoded) strings into what the library shows for them,
#     using the library's own decoder through the harness (kind sjdec).
# Nothing here is derived from the Coq model.
import struct
import subprocess

import common


def B(bs):
    return "B" + bytes(bs).hex()


def unB(tok):
    return bytes.fromhex(tok[1:])


def L(xs):
    return "L" + ",".join(str(x) for x in xs)


def unL(tok):
    b = tok[1:]
    return [int(x) for x in b.split(",")] if b else []


# ----------------------------------------------------------------------------- bin archive file
def bin_write(endian, data, strings=None, pointers=None, labels=None, rng=None, shuffle_tables=False,
              junk_text=False, dup_strings=False, tail_share=False):
    """endian 'L'|'B'; data bytes; strings {cell: bytes}; pointers {cell: dest}; labels [(address, name bytes)]
    (bucket order = list order).  Returns the file image.
    tail_share: a string (cell text or label name) that is a proper SUFFIX of a longer string of the image is not stored on
    its own: its reference points into the MIDDLE of the longer NUL-terminated string ("a.bin" as the tail of "data.bin",
    the label "Info" as the tail of "SceneInfo") - what a string-pooling packer does; the format only asks for a
    NUL-terminated string at the referenced position."""
    e = "<" if endian == "L" else ">"
    strings = dict(strings or {})
    pointers = dict(pointers or {})
    labels = list(labels or [])
    d = bytearray(data)
    ptab = sorted(pointers) + sorted(strings)
    ltab = list(labels)
    if shuffle_tables and rng is not None:
        rng.shuffle(ptab)
        # labels of one address must keep their relative order; interleave addresses freely
        groups = {}
        for (a, n) in ltab:
            groups.setdefault(a, []).append(n)
        order = []
        pending = {a: list(ns) for a, ns in groups.items()}
        keys = list(pending)
        while keys:
            a = rng.choice(keys)
            order.append((a, pending[a].pop(0)))
            if not pending[a]:
                keys.remove(a)
        ltab = order
    text = bytearray()
    offs = {}

    def add(s, share=True):
        if share and s in offs:
            return offs[s]
        if tail_share:
            for t in sorted(offs, key=len, reverse=True):
                if len(t) > len(s) and t.endswith(s):
                    return offs[t] + len(t) - len(s)
        if junk_text and rng is not None and rng.random() < 0.3:
            text.extend(bytes(rng.randint(1, 255) for _ in range(rng.randint(1, 3))) + b"\0")
        o = len(text)
        text.extend(s + b"\0")
        offs[s] = o
        return o

    if tail_share:
        # the longest strings first, so that every suffix finds its host
        for t in sorted(set(strings.values()) | set(n for (_, n) in ltab), key=len, reverse=True):
            add(t)
    text_start = len(d) + 4 * len(ptab) + 8 * len(ltab)
    lrecs = []
    for (a, n) in ltab:
        lrecs.append((a, add(n)))
    for cell in sorted(strings):
        o = add(strings[cell], share=not dup_strings)
        d[cell:cell + 4] = struct.pack(e + "I", text_start + o)
    for cell, dest in pointers.items():
        d[cell:cell + 4] = struct.pack(e + "I", dest)
    body = bytes(d) + b"".join(struct.pack(e + "I", x) for x in ptab) + \
        b"".join(struct.pack(e + "II", a, o) for (a, o) in lrecs) + bytes(text)
    size = 0x20 + len(body)
    return struct.pack(e + "IIII", size, len(d), len(ptab), len(ltab)) + bytes(16) + body


class Malformed(Exception):
    pass


def bin_read(endian, f):
    """reference reader of the container: (data, strings {cell: bytes}, pointers {cell: dest}, labels [(address, name)])"""
    e = "<" if endian == "L" else ">"
    if len(f) < 0x20:
        raise Malformed("short")
    fsize, dsize, pc, lc = struct.unpack(e + "IIII", f[:16])
    tstart = dsize + 4 * pc + 8 * lc
    if 0x20 + tstart > len(f):
        raise Malformed("sections exceed the file")
    data = f[0x20:0x20 + dsize]

    def cstr(at):
        z = f.find(b"\0", at)
        if at >= len(f) or z < 0:
            raise Malformed("unterminated")
        return f[at:z]

    strings, pointers = {}, {}
    for i in range(pc):
        (cell,) = struct.unpack(e + "I", f[0x20 + dsize + 4 * i:0x24 + dsize + 4 * i])
        if cell + 4 > dsize:
            raise Malformed("pointer cell outside")
        (v,) = struct.unpack(e + "I", data[cell:cell + 4])
        if v > dsize:
            strings[cell] = cstr(0x20 + v)
        else:
            pointers[cell] = v
    labels = []
    for i in range(lc):
        at = 0x20 + dsize + 4 * pc + 8 * i
        a, o = struct.unpack(e + "II", f[at:at + 8])
        if a > dsize:
            raise Malformed("label outside")
        labels.append((a, cstr(0x20 + tstart + o)))
    return data, strings, pointers, labels, fsize


# ----------------------------------------------------------------------------- text archive, reference reader
def align4(n):
    return (n + 3) & ~3


def enc_units(us):
    return b"".join(struct.pack("<H", u) for u in us)


def text_cell(fmt, m):
    """the bytes a message occupies: body, terminator, padding to 4"""
    raw = (enc_units(m) + b"\0\0") if fmt == "U" else (bytes(m) + b"\0")
    return raw + bytes(align4(len(raw)) - len(raw))


def text_read(fmt, endian, f):
    """Reference reader written from the format description: a bin archive without pointers whose data region
    is tiled by 4-aligned cells `body terminator padding`; the Unicode format starts with a Shift-JIS title cell;
    every message cell carries exactly one label, its key.  Returns (title bytes, [(key bytes, message)], problems)
    where message = bytes (S) | list of units (U) and problems lists every deviation from that description."""
    problems = []
    data, strings, pointers, labels, fsize = bin_read(endian, f)
    if fsize != len(f):
        problems.append("header file size %d != %d" % (fsize, len(f)))
    if strings or pointers:
        problems.append("pointer table not empty")
    at = {}
    for (a, n) in labels:
        at.setdefault(a, []).append(n)

    def take(pos, unicode_):
        if unicode_:
            us = []
            while True:
                if pos + 2 > len(data):
                    raise Malformed("unterminated message")
                (u,) = struct.unpack("<H", data[pos:pos + 2])
                pos += 2
                if u == 0:
                    break
                us.append(u)
            return us, pos
        z = data.find(b"\0", pos)
        if z < 0:
            raise Malformed("unterminated message")
        return data[pos:z], z + 1

    pos = 0
    title = b""
    if fmt == "U":
        title, pos = take(0, False)
        pad = data[pos:align4(pos)]
        if any(pad):
            problems.append("non-zero padding after the title")
        pos = align4(pos)
        if 0 in at:
            problems.append("label on the title cell")
    entries = []
    seen = set()
    for a in sorted(at):
        if fmt == "U" and a == 0:
            continue
        if a % 4:
            problems.append("message offset %d not a multiple of 4" % a)
        if a != pos:
            problems.append("message at %d but the previous cell ends at %d" % (a, pos))
        if len(at[a]) != 1:
            problems.append("offset %d carries %d labels" % (a, len(at[a])))
        m, end = take(a, fmt == "U")
        if any(data[end:align4(end)]):
            problems.append("non-zero padding after the message at %d" % a)
        pos = align4(end)
        k = at[a][0]
        if k in seen:
            problems.append("key %r twice" % k)
        seen.add(k)
        entries.append((k, m))
    if pos != len(data):
        problems.append("data region has %d bytes, cells end at %d" % (len(data), pos))
    return title, entries, problems


# ----------------------------------------------------------------------------- arc writer
def arc_write(files, rng, padded=True, permute_bodies=True, unaligned=False, gaps=False, count_first=True,
              extra_labels=True, shuffle_tables=False, drop=None, bad_name=None, bad_range=None, count_delta=0,
              junk_text=False, raw_offset=None, dup_strings=False, tail=0.0, end_exact=False, share=False, empty_last=False,
              indices="seq", decoys=None, data_label="base", sentinel=True, tail_share=False):
    """files: [(name bytes, body bytes)] in RECORD order.  Returns (image, expected) with expected = 'ok' or the
    name of the error the property demands.  Knobs: header padding, body placement (order, alignment, gaps),
    Count before/after Info, extra labels; error variants: drop = 'count' | 'info' (label missing),
    bad_name = i (record i has no string cell), bad_range = i (record i's range leaves the data region),
    count_delta (Count says more/fewer records than the table holds), raw_offset = (i, value) plants an offset field.
    Placement knobs: tail = probability that a body is placed AFTER the Count/Info tables, end_exact = the last such body
    ends exactly at the end of the data region (address + size = size of the data: the boundary of "inside"),
    share = a body whose bytes already occur among the bodies written so far may reuse that range (shared / overlapping
    ranges), empty_last = among the bodies placed after the tables the empty ones come last (so that an empty file's start
    address equals the size of the data region when end_exact is set).  decoys = 'count' | 'info' | 'both': the label also
    sits on HIGHER addresses (a word holding a wrong count / a place that holds no table): the lowest address carrying the
    label is the one that counts (find_label_address after the repair 10408e9), so the expectation is unchanged; the
    decoy entries precede the real ones in the label list half of the time.  sentinel = False: no junk word at data offset 0
    of an un-padded image (bodies from offset 0).  indices = what the records' index field holds:
    'seq' (0, 1, 2 ...), 'zero' (all 0), 'dup' (some values repeated), 'random' (arbitrary 32-bit values) - the property
    keys entries by NAME; the index field carries no meaning for extraction (seeded change C16-3 collected records in a map
    keyed by it and lost records sharing a value).  The knobs draw random numbers only when switched on."""
    if indices == "zero":
        idx = [0] * len(files)
    elif indices == "dup":
        idx = [rng.randint(0, max(0, len(files) // 2)) for _ in files]
    elif indices == "random":
        idx = [rng.choice([0, 1, 0x7FFFFFFF, 0xFFFFFFFF, rng.getrandbits(32)]) for _ in files]
    else:
        idx = list(range(len(files)))
    d = bytearray()
    if padded:
        d += bytes(0x60)
    elif sentinel:
        d += struct.pack("<I", rng.randint(1, 0xFFFFFFFF))     # first word non-zero: no padded header
    # sentinel=False: an un-padded image whose bodies start at data offset 0 ("any placement of file bodies"); when its
    # first data word is 0 the library takes it for a padded image (known finding F27)
    base = 0x60 if padded else 0
    order = list(range(len(files)))
    if permute_bodies:
        rng.shuffle(order)
    offs = {}
    late = []                      # bodies placed after the tables
    for i in order:
        if tail and rng.random() < tail:
            late.append(i)
            continue
        if share and files[i][1] and rng.random() < 0.6:
            at = bytes(d).find(files[i][1], base)
            if at >= 0:
                offs[i] = at - base
                continue
        if gaps and rng.random() < 0.5:
            d += bytes(rng.randint(1, 255) for _ in range(rng.randint(1, 9)))
        if not unaligned:
            d += bytes(align4(len(d)) - len(d))
        offs[i] = len(d) - base
        d += files[i][1]
    d += bytes(align4(len(d)) - len(d))
    patch = {}                     # record i -> position of its offset field (late bodies)
    labels = []
    strings = {}

    def put_count():
        labels.append((len(d), b"Count"))
        d.extend(struct.pack("<I", (len(files) + count_delta) & 0xFFFFFFFF))

    info_at = None

    def put_info():
        nonlocal info_at
        info_at = len(d)
        labels.append((len(d), b"Info"))
        for i, (name, body) in enumerate(files):
            if extra_labels and name not in (b"Count", b"Info") and rng.random() < 0.5:
                labels.append((len(d), name))
            if bad_name == i:
                d.extend(struct.pack("<I", 0))           # plain data, no string cell
            else:
                strings[len(d)] = name
                d.extend(bytes(4))
            off = offs.get(i, 0)
            size = len(body)
            if raw_offset is not None and raw_offset[0] == i:
                off = raw_offset[1]
            elif i not in offs:
                patch[i] = len(d) + 8
            d.extend(struct.pack("<III", idx[i], size, off & 0xFFFFFFFF))

    if count_first:
        put_count()
        put_info()
    else:
        put_info()
        put_count()
    if empty_last:
        late = [i for i in late if files[i][1]] + [i for i in late if not files[i][1]]
    for n, i in enumerate(late):
        last = n == len(late) - 1
        if gaps and rng.random() < 0.5:
            d += bytes(rng.randint(1, 255) for _ in range(rng.randint(1, 9)))
        if last and end_exact:
            d += bytes((-(len(d) + len(files[i][1]))) % 4)      # the body will end on the last byte of the data region
        elif not unaligned:
            d += bytes(align4(len(d)) - len(d))
        offs[i] = len(d) - base
        if i in patch:
            d[patch[i]:patch[i] + 4] = struct.pack("<I", offs[i] & 0xFFFFFFFF)
        d += files[i][1]
    d += bytes(align4(len(d)) - len(d))
    if decoys:
        d += bytes(align4(len(d)) - len(d))
        extra = []
        if decoys in ("count", "both"):
            for _ in range(rng.randint(1, 2)):
                extra.append((len(d), b"Count"))
                d.extend(struct.pack("<I", rng.choice([0, len(files) + 1, len(files) + 7, 0xFFFFFFFF, 0x10000])))
        if decoys in ("info", "both"):
            for _ in range(rng.randint(1, 2)):
                extra.append((len(d), b"Info"))
                d.extend(bytes(rng.randint(0, 255) for _ in range(rng.choice([0, 4, 16]))))
            d += bytes(align4(len(d)) - len(d))
        labels = (extra + labels) if rng.random() < 0.5 else (labels + extra)
    if extra_labels:
        # the game files label the header end "Data"; the property does not mention that label, so an image may carry it on the
        # header end, nowhere, or on something else (seeded change C16-4 took the base of all offsets from a label called "Data")
        if data_label == "base":
            labels.append((base, b"Data"))
        elif data_label == "body" and offs:
            labels.append((base + max(offs.values()), b"Data"))
        elif data_label == "end":
            labels.append((len(d), b"Data"))
    expected = "ok"
    if bad_range is not None:
        # make record bad_range point beyond the end of the final data region (size >= 1)
        i = bad_range
        rec = info_at + 16 * i
        size = max(1, len(files[i][1]))
        total = len(d)
        off = total - base - size + rng.randint(1, 8)
        d[rec + 8:rec + 16] = struct.pack("<II", size, off)
        expected = "err:oob"
    if bad_name is not None:
        expected = "err:missingname"
    if drop == "count":
        labels = [(a, n) for (a, n) in labels if n != b"Count"]
        expected = "err:nocount"
    elif drop == "info":
        labels = [(a, n) for (a, n) in labels if n != b"Info"]
        expected = "err:noinfo"
    elif drop == "both":
        labels = [(a, n) for (a, n) in labels if n not in (b"Count", b"Info")]
        expected = "err:nocount"              # Count is looked up first
    image = bin_write("L", d, strings=strings, labels=labels, rng=rng, shuffle_tables=shuffle_tables, junk_text=junk_text,
                      dup_strings=dup_strings, tail_share=tail_share)
    return image, expected


# ----------------------------------------------------------------------------- canonicaliser (library's decoder)
class Decoder:
    """Shift-JIS bytes -> what the library's decoder makes of them, as 'L<scalars>' plus a flag saying whether the
    string cannot be encoded back to the same bytes.  ASCII is the identity; everything else is asked of the harness
    (kind sjdec) through one persistent child process."""

    def __init__(self):
        self.p = None
        self.cache = {}

    def dec(self, b):
        b = bytes(b)
        if all(0 < x < 0x80 for x in b):
            return L(b), False
        if b in self.cache:
            return self.cache[b]
        if self.p is None:
            self.p = subprocess.Popen([common.harness_bin(False)], stdin=subprocess.PIPE, stdout=subprocess.PIPE, env=common.ENV)
        self.p.stdin.write(("sjdec " + B(b) + "\n").encode())
        self.p.stdin.flush()
        out = self.p.stdout.readline().decode().strip()
        lossy = out.endswith("!")
        res = (out.rstrip("!"), lossy)
        self.cache[b] = res
        return res


DECODER = Decoder()


def canon_err(s):
    """every error is one class unless the property names the kind"""
    return "err" if s.startswith("err:") else s


def parse_entries(body):
    """'[k=m k=m]' -> [(k, m)] tokens"""
    body = body.strip()
    assert body.startswith("[") and body.endswith("]"), body
    inner = body[1:-1].strip()
    if not inner:
        return []
    return [tuple(x.split("=", 1)) for x in inner.split(" ")]


def canon_text_model(fmt, out):
    """model line of kinds txtf / txta (raw trace) -> the library's view (decoded strings, IndexMap insertion).
    Returns (line, lossy) - when lossy the re-serialization is not comparable (only its category is)."""
    if not out.startswith("parse=ok "):
        return out, False
    head, reser = out.split(" | reser=", 1)
    toks = head.split(" ", 3)          # parse=ok d0 T=B.. [..]
    dirty, title = toks[1], toks[2][2:]
    lossy = False
    t, lz = DECODER.dec(unB(title))
    lossy |= lz
    m = {}
    order = []
    for (k, v) in parse_entries(toks[3]):
        kk, lz = DECODER.dec(unB(k))
        lossy |= lz
        if fmt == "S":
            vv, lz = DECODER.dec(unB(v))
            lossy |= lz
        else:
            vv = v
        if kk not in m:
            order.append(kk)
        m[kk] = vv
    line = "parse=ok %s T=%s [%s] | reser=%s" % (dirty, t, " ".join("%s=%s" % (k, m[k]) for k in order), reser)
    return line, lossy


def agree_text(fmt, impl_out, model_out):
    """leg K for kinds txtf / txta"""
    if impl_out in ("PANIC", "ABORT", "TIMEOUT", "MISSING-OUTPUT") or "PANIC" in model_out or "MODEL-" in model_out:
        return False
    if impl_out.startswith("parse=err") or model_out.startswith("parse=err") or impl_out.startswith("build=") or model_out.startswith("build="):
        return canon_err(impl_out.replace("parse=", "")) == canon_err(model_out.replace("parse=", ""))
    cm, lossy = canon_text_model(fmt, model_out)
    ih, ir = impl_out.split(" | reser=", 1)
    mh, mr = cm.split(" | reser=", 1)
    if ih != mh:
        return False
    if lossy:
        return ir.startswith("ok:") or ir.startswith("err:")
    return canon_err(ir) == canon_err(mr)


def canon_arc_model(out):
    """model line of kind arc (raw trace in record order) -> sorted map with decoded names (last record wins)"""
    if not out.startswith("ok "):
        return out
    m = {}
    for (k, v) in parse_entries(out[3:]):
        kk, _ = DECODER.dec(unB(k))
        m[tuple(unL(kk))] = v
    return "ok [%s]" % " ".join("%s=%s" % (L(k), m[k]) for k in sorted(m))


NAMED_ARC_ERRORS = ("err:nocount", "err:noinfo", "err:missingname", "err:oob")


def canon_arc_err(s):
    if s.startswith("err:") and s not in NAMED_ARC_ERRORS:
        return "err"
    return s


def agree_arc(impl_out, model_out):
    if impl_out in ("PANIC", "ABORT", "TIMEOUT", "MISSING-OUTPUT") or "PANIC" in model_out or "MODEL" in model_out or "MODES-DIFFER" in model_out:
        return False
    return canon_arc_err(impl_out) == canon_arc_err(canon_arc_model(model_out))
