# C20: texture containers (CTPK, BCH, CGFX, TPL) yield the packed textures and fail cleanly when truncated.
# Case lines (harness/src/h_tex.rs, coq/Extract/drv/d_tex20.ml), <kind> = ctpk | bch | cgfx | tpl:
#   <kind> ref B<file> <n> {B<name> <w> <h> <fmt> B<data> B<pal>}*   a generated container with its intended content
#   <kind> cut B<file> <lo> <hi> L<off,len,...>                      every prefix file[:k], lo <= k < hi; payload extents for the oracle
#   <kind> full B<file>                                              any bytes (wrong magic numbers)
import struct

import common
from common import PropertyCheck, Case
import texcont
import texref

KINDS = ["ctpk", "bch", "cgfx", "tpl"]
FMT3DS = [0, 2, 3, 4, 5, 7, 8, 12, 13]          # the formats C19 lists (colour formats + ETC1 / ETC1A4)

UTF8_NAMES = ["a", "tex0", "Tex_Body.001", "", "été", "日本語テクスチャ", "\U0001d11eclef",
              "﻿bom", "x" * 40, "body", "dy", "αβ", "ソ", "Á", "퟿", "\U0010ffff"]
SJIS_NAMES = ["a", "tex0", "Tex_Body.001", "", "ﾃｸｽﾁｬ", "テクスチャ", "表示", "ソ",
              "x" * 40, "body", "dy", "あいう", "能力.ctpk", "aソb"]


def hx(b):
    return "B" + bytes(b).hex()


def unhx(tok):
    return bytes.fromhex(tok[1:])


def rand_bytes(rng, n):
    return rng.getrandbits(8 * n).to_bytes(n, "little") if n else b""


def rand_tex3ds(rng, names, maxside):
    sides = [s for s in (8, 16, 32, 64, 128) if s <= maxside]
    r = rng.random()
    if r < 0.6:
        w, h = sides[0], sides[0]
    else:
        w, h = rng.choice(sides), rng.choice(sides)
    fmt = rng.choice(FMT3DS)
    name = rng.choice(names)
    return dict(name=name, w=w, h=h, fmt=fmt, data=rand_bytes(rng, texref.payload_size(fmt, w, h)), pal=b"")


def payload_bytes(fmt, w, h):
    """bytes of a w x h payload of any 3DS format id (get_pixel_format_bpp of the format documentation)"""
    bpp2 = {0: 8, 1: 6, 2: 4, 3: 4, 4: 4, 5: 4, 6: 2, 7: 2, 8: 2, 9: 2, 10: 1, 11: 2, 12: 1, 13: 2}.get(fmt, 0)
    return bpp2 * w * h // 2


def rand_tex3ds_odd(rng, names):
    """textures outside the supported set that the readers still have to handle cleanly: sides that are not powers of
    two / not multiples of the 8x8 tile, the remaining format ids (RGB8, HILO8, LA4, L4, A4)"""
    r = rng.random()
    if r < 0.4:      # supported colour format, multiple of 8 but not a power of two
        w, h = rng.choice([8, 24, 40]), rng.choice([8, 24, 16])
        fmt = rng.choice([0, 2, 3, 4, 5, 7, 8])
    elif r < 0.7:    # not a multiple of the tile (0 included: an empty payload)
        w, h = rng.choice([4, 12, 20, 8, 0]), rng.choice([4, 12, 8, 9, 0])
        fmt = rng.choice([0, 2, 3, 4, 5, 7, 8])
    else:            # the other format ids
        w, h = rng.choice([8, 16, 12]), rng.choice([8, 16])
        fmt = rng.choice([1, 6, 9, 10, 11])
    return dict(name=rng.choice(names), w=w, h=h, fmt=fmt, data=rand_bytes(rng, payload_bytes(fmt, w, h)), pal=b"")


def is_supported(kind, t):
    if kind == "tpl":
        return True
    if t["fmt"] in (12, 13):
        return t["w"] >= 8 and t["h"] >= 8 and t["w"] & (t["w"] - 1) == 0 and t["h"] & (t["h"] - 1) == 0
    return t["fmt"] in texref.FORMATS and t["w"] % 8 == 0 and t["h"] % 8 == 0 and t["w"] > 0 and t["h"] > 0


def rand_textpl(rng, maxside):
    r = rng.random()
    if r < 0.7:
        w, h = rng.choice([1, 2, 4, 8, 16, 32, 64]), rng.choice([1, 2, 4, 8, 16, 32, 64])
    elif r < 0.95:
        w, h = rng.randrange(1, 65), rng.randrange(1, 65)
    else:
        w, h = rng.choice([0, 3]), rng.choice([0, 5])        # empty images
    w, h = min(w, maxside), min(h, maxside)
    ncol = rng.choice([1, 2, 16, 255, 256, rng.randrange(1, 257)])
    n = texref.ci8_data_size(w, h)
    data = bytearray(rng.randrange(ncol) for _ in range(n))
    if rng.random() < 0.5:
        # only the visible pixels' indices have to lie inside the palette (C19_palette): the cropped-away padding bytes of the
        # 8x4 blocks are arbitrary (0xFF / random / = palette size)
        visible = set(texref.ci8_index(w, x, y) for y in range(h) for x in range(w))
        fill = rng.choice(["ff", "random", "ncol"])
        for i in range(n):
            if i not in visible:
                data[i] = 0xFF if fill == "ff" else (rng.randrange(256) if fill == "random" else min(ncol, 255))
    return dict(name=b"", w=w, h=h, fmt=9, data=bytes(data), pal=rand_bytes(rng, 2 * ncol))


def tex_tokens(texs):
    out = [str(len(texs))]
    for t in texs:
        out += [hx(t["name"]), str(t["w"]), str(t["h"]), str(t["fmt"]), hx(t["data"]), hx(t["pal"])]
    return " ".join(out)


def parse_tex_tokens(toks):
    n = int(toks[0])
    texs = []
    for i in range(n):
        a = toks[1 + 6 * i: 7 + 6 * i]
        texs.append(dict(name=unhx(a[0]), w=int(a[1]), h=int(a[2]), fmt=int(a[3]), data=unhx(a[4]), pal=unhx(a[5])))
    return texs


SIBLING_MAGICS = [b"CTPK", b"BCH\0", b"CGFX", b"DATA", b"DICT", b"TXOB", b"\x00\x20\xAF\x30", b"SARC", b"\0\0\0\0", b"\xff\xff\xff\xff"]


def magic_variants(magic):
    """wrong 4-byte magics derived from the right one: every permutation of its bytes (reversal and rotations included),
    case flips of its letters (all / each one), the tags of the sibling formats and sub-blocks and their reversals"""
    import itertools
    out = set()
    for p in itertools.permutations(range(4)):
        out.add(bytes(magic[i] for i in p))
    letters = [i for i in range(4) if chr(magic[i]).isalpha()]
    out.add(bytes(b ^ 0x20 if i in letters else b for i, b in enumerate(magic)))
    for k in letters:
        out.add(bytes(b ^ 0x20 if i == k else b for i, b in enumerate(magic)))
    for sib in SIBLING_MAGICS:
        out.add(sib)
        out.add(sib[::-1])
    out.discard(bytes(magic))
    return sorted(out)


def rand_knobs(rng, kind):
    k = dict(permute=rng.random() < 0.6, gaps=rng.random() < 0.5, share=rng.random() < 0.4, tail=rng.random() < 0.4,
             names_last=rng.random() < 0.3, junk_fields=rng.random() < 0.6, align=rng.choice([1, 1, 4, 16]),
             base=rng.choice(["min", "zero", "rand"]), two_names=rng.random() < 0.5)
    if kind == "bch":
        k["bc"] = rng.choice([0x07, 0x14, 0x15, 0x1f, 0x20, 0x21, 0x22, 0x23, 0x42])
    if kind == "cgfx":
        k["backward"] = rng.random() < 0.4        # payloads / names / TXOBs in front of the referring field (F23)
    return k


def parse_rle(s):
    out = []
    for tok in s.split():
        sym, _, cnt = tok.rpartition("x")
        out += [sym] * int(cnt)
    return out


def check_tpl_pixels(t, out):
    w, h = t["w"], t["h"]
    if len(out) != 4 * w * h:
        return "output has %d bytes, want %d" % (len(out), 4 * w * h)
    for y in range(h):
        for x in range(w):
            idx = t["data"][texref.ci8_index(w, x, y)]
            value = struct.unpack_from(">H", t["pal"], 2 * idx)[0]
            why = texref.check_rgb5a3(value, out[4 * (y * w + x): 4 * (y * w + x) + 4])
            if why:
                return "pixel (%d,%d) <- palette entry %d: %s" % (x, y, idx, why)
    return None


def check_pixels(kind, t, out):
    if kind == "tpl":
        return check_tpl_pixels(t, out)
    if t["fmt"] in (12, 13):
        return texref.check_etc1_image(t["fmt"] == 13, t["w"], t["h"], t["data"], out)
    return texref.check_tiled_image(t["fmt"], t["w"], t["h"], t["data"], out)


class C20(PropertyCheck):
    pid = "C20"
    source_tables = ["Tex20", "Tile", "Etc1", "Pixel"]   # tables / constants regenerated from /repo's source (gen/srctables.py)
    release_too = True
    kdiff_smallest_first = True
    rule = ("per container format (CTPK, BCH, CGFX, TPL): files written by an independent Python writer with placement knobs (0-6 textures, the nine "
            "3DS formats of C19 / CI8+RGB5A3 for TPL, power-of-two sizes, ASCII and non-ASCII names incl. shared name tails and a leading U+FEFF; tables, "
            "names and payloads permuted, junk gaps, alignment 1/4/16, shared payload storage, section bases at 0 / at the first target / random, junk in "
            "ignored fields, trailing junk, BCH backward-compatibility bytes on both sides of 0x20), each accepted by the extracted verified "
            "conforms_<fmt>b; streams: ref (whole file: count, order, names, dimensions, pixels against the reference decoders of gen/texref.py), "
            "cut (EVERY prefix length of the file: never PANIC/ABORT, Err whenever the cut removes a payload byte), wrong-magic (each magic byte changed; every permutation of the magic's bytes, case flips, sibling-format and sub-block tags and "
            "their reversals, each with the two bytes behind the magic unchanged / FF FE / FE FF: rejected), sub-magic (tags the readers ignore: model "
            "comparison only), odd (3DS containers with textures outside the supported set - sides 4..40 that are not powers of two or not multiples of the tile, "
            "format ids 1, 6, 9, 10, 11 - whole and at every prefix: clean outcome, supported textures of an accepted file checked, model compared), far "
            "(a 66 KiB junk gap: offsets beyond 16 bits), f32-size (payload bytes requested by ctpk/bch around the binary32 exactness boundary), "
            "codec-table (sjis_encoded = encoding_rs on all 1- and 2-byte strings), tpl-big-palette (RGB5A3 palettes of 32767..65535 entries), alias (several table entries sharing one stored payload with "
            "different formats / shapes), wide (a dimension of 2048..4104; above 4096 pixels implementation + oracle only); CGFX files with backward (negative) self-relative offsets in 40 % of the cases.  Model compared in both profiles (outcome class incl. bad magic, full pixel data / FNV of the Ok line for prefixes).  "
            "Non-trivial = container with at least one texture; distinct = distinct case line.")
    assumptions = [
        "A-std: Cursor<&[u8]> reads past the end fail with UnexpectedEof, seeks never fail; binread 2.1.1 FilePtr32::parse seeks to the absolute offset and restores the position",
        "A-codec: encoding_rs UTF-8 decoding reports errors exactly on ill-formed UTF-8; CTPK names of conforming files satisfy sjis_encoded (table compared with encoding_rs per character on every run)",
        "A-float: Rust's f32 multiplication is IEEE binary32 round-to-nearest-even and `as usize` truncates (the product itself is modelled: payload_size32)",
        "A-alloc: allocations of payload-sized buffers succeed",
    ]

    # ------------------------------------------------------------------ generation
    def generate(self, rng, tier):
        thorough = tier == "thorough"
        cases = []
        utf8 = [s.encode("utf-8") for s in UTF8_NAMES]
        sjis = [s.encode("shift_jis") for s in SJIS_NAMES]
        nfiles = 36 if not thorough else 220
        cut_limit = 2048 if not thorough else 6 * 1024
        for kind in KINDS:
            for j in range(nfiles):
                n = [0, 1, 1, 2, 3, 6][j] if j < 6 else rng.randrange(0, 7)
                big = (j % 9 == 8)
                maxside = (128 if thorough else 32) if big else (16 if n <= 3 else 8)
                if kind == "tpl":
                    texs = [rand_textpl(rng, 64 if big else (16 if n <= 3 else 8)) for _ in range(n)]
                else:
                    texs = [rand_tex3ds(rng, sjis if kind == "ctpk" else utf8, maxside) for _ in range(n)]
                if n >= 2 and rng.random() < 0.3:
                    texs[1] = dict(texs[0])           # the same texture twice (shared storage when the knob is on)
                knobs = rand_knobs(rng, kind) if j >= 2 else dict()
                if kind == "bch" and j < 2:
                    knobs["bc"] = 0x21
                img, ext = texcont.WRITERS[kind](texs, rng, **knobs)
                cases.append(Case("%s ref %s %s" % (kind, hx(img), tex_tokens(texs)), kind + "-ref"))
                if len(img) <= cut_limit:
                    flat = ",".join("%d,%d" % e for e in ext)
                    step = 4096
                    for lo in range(0, len(img), step):
                        cases.append(Case("%s cut %s %d %d L%s" % (kind, hx(img), lo, min(len(img), lo + step), flat), kind + "-cut"))
                if kind != "ctpk" and j % 3 == 0:
                    for b in range(4):
                        for x in (1, 0x80, rng.randrange(1, 256)):
                            bad = bytearray(img)
                            bad[b] ^= x
                            cases.append(Case("%s full %s" % (kind, hx(bad)), kind + "-wrong-magic"))
                if kind != "ctpk" and j % 6 == 0:
                    # structured wrong magics (permutations / reversal, case flips, sibling tags), each with the two bytes behind the
                    # magic as they are, as the little-endian BOM FF FE and as the byte-swapped BOM FE FF (the CGFX byte-order mark)
                    for wm in magic_variants(img[:4]):
                        for bom in (None, b"\xff\xfe", b"\xfe\xff"):
                            bad = bytearray(img)
                            bad[0:4] = wm
                            if bom is not None:
                                if len(bad) < 6 or bytes(bad[4:6]) == bom:
                                    continue
                                bad[4:6] = bom
                            cases.append(Case("%s full %s" % (kind, hx(bad)), kind + "-wrong-magic"))
                if j % 6 == 0 and n > 0 and kind in ("ctpk", "cgfx"):
                    # tags the readers do not look at (CTPK file magic; CGFX DATA / DICT / TXOB): compared with the model only
                    spots = [0] if kind == "ctpk" else [0x14] + [img.find(t) for t in (b"DICT", b"TXOB") if img.find(t) >= 0]
                    for at in spots:
                        for wm in magic_variants(img[at:at + 4])[::5]:
                            bad = bytearray(img)
                            bad[at:at + 4] = wm
                            cases.append(Case("%s full %s" % (kind, hx(bad)), kind + "-sub-magic"))
            # textures outside the supported set (3DS containers): other sizes and format ids; compared with the model,
            # the oracle asks for a clean outcome and checks the supported textures of an accepted file
            if kind != "tpl":
                for j in range(12 if not thorough else 120):
                    n = 1 + j % 4
                    names = sjis if kind == "ctpk" else utf8
                    texs = [rand_tex3ds_odd(rng, names) if rng.random() < 0.7 else rand_tex3ds(rng, names, 8) for _ in range(n)]
                    img, ext = texcont.WRITERS[kind](texs, rng, **rand_knobs(rng, kind))
                    cases.append(Case("%s ref %s %s" % (kind, hx(img), tex_tokens(texs)), kind + "-odd-ref"))
                    if len(img) <= cut_limit:
                        flat = ",".join("%d,%d" % e for e in ext)
                        cases.append(Case("%s cut %s %d %d L%s" % (kind, hx(img), 0, len(img), flat), kind + "-odd-cut"))
            # aliased payloads: two (or three) table entries point at the SAME stored bytes but differ in format or in shape
            # (RGB565 / RGBA4 8x8; L8 16x8 / 8x16; RGBA8 8x8 / RGB565 16x8 / LA8 8x16) - every entry must be decoded as its own
            # format and size
            if kind != "tpl":
                for j in range(6 if not thorough else 40):
                    names = sjis if kind == "ctpk" else utf8
                    group = [[(3, 8, 8), (4, 8, 8)], [(7, 16, 8), (7, 8, 16)], [(0, 8, 8), (3, 16, 8), (5, 8, 16)],
                             [(2, 8, 8), (8, 16, 8)], [(12, 16, 16), (7, 16, 8)], [(13, 8, 8), (7, 8, 8), (8, 8, 8)]][j % 6]
                    blob = rand_bytes(rng, texref.payload_size(*group[0]))
                    texs = [dict(name=rng.choice(names), w=w, h=h, fmt=fmt, data=blob, pal=b"") for (fmt, w, h) in group]
                    if j % 2:
                        texs.insert(rng.randrange(len(texs) + 1), rand_tex3ds(rng, names, 8))
                    rng.shuffle(texs)
                    knobs = rand_knobs(rng, kind)
                    knobs["share"] = True
                    if kind == "cgfx":
                        knobs["backward"] = True       # shared storage needs a payload in front of at least one of its TXOBs
                    img, ext = texcont.WRITERS[kind](texs, rng, **knobs)
                    assert len(set(o for (o, _) in ext)) < len(ext), "payloads are not shared"
                    cases.append(Case("%s ref %s %s" % (kind, hx(img), tex_tokens(texs)), kind + "-alias"))
                    if len(img) <= cut_limit and (thorough or j < 2):
                        flat = ",".join("%d,%d" % e for e in ext)
                        cases.append(Case("%s cut %s %d %d L%s" % (kind, hx(img), 0, len(img), flat), kind + "-alias"))
            else:
                for j in range(4 if not thorough else 24):
                    # two TPL images sharing image data (8x4 and 8x1..4 have the same block) and / or the palette
                    pal = rand_bytes(rng, 2 * 16)
                    blob = bytes(rng.randrange(16) for _ in range(32))
                    texs = [dict(name=b"", w=8, h=4, fmt=9, data=blob, pal=pal), dict(name=b"", w=rng.choice([5, 8]), h=rng.choice([1, 3]), fmt=9, data=blob, pal=pal)]
                    knobs = rand_knobs(rng, kind)
                    knobs["share"] = True
                    img, ext = texcont.WRITERS[kind](texs, rng, **knobs)
                    cases.append(Case("%s ref %s %s" % (kind, hx(img), tex_tokens(texs)), kind + "-alias"))
            # wide / tall textures: a dimension of 2048 or more (16 KiB payloads; the dimension fields are 16 resp. 32 bits wide).
            # Above 4096 pixels the list-based model decoders are too slow: implementation + oracle only (the driver answers skip).
            wide = [(7, 2048, 8), (8, 8, 2048), (7, 2056, 8), (8, 4096, 8), (7, 8, 4104)]
            for j in range(3 if not thorough else 15):
                (fmt, w, h) = wide[j % len(wide)]
                if kind == "tpl":
                    ncol = 256
                    t = dict(name=b"", w=w, h=min(h, 2048) if w < 2048 else 4, fmt=9, data=b"", pal=rand_bytes(rng, 2 * ncol))
                    t["data"] = rand_bytes(rng, texref.ci8_data_size(t["w"], t["h"]))
                else:
                    t = dict(name=rng.choice(sjis if kind == "ctpk" else utf8), w=w, h=h, fmt=fmt, data=rand_bytes(rng, texref.payload_size(fmt, w, h)), pal=b"")
                texs = [t] if j % 2 == 0 else [rand_textpl(rng, 8) if kind == "tpl" else rand_tex3ds(rng, sjis if kind == "ctpk" else utf8, 8), t]
                img, ext = texcont.WRITERS[kind](texs, rng, **rand_knobs(rng, kind))
                cases.append(Case("%s ref %s %s" % (kind, hx(img), tex_tokens(texs)), kind + "-wide"))
            # TPL palettes with 32767..65535 entries (the entry count is a u16, the byte size 2 * count needs 17 bits); CI8 indices
            # only reach the first 256 entries, the rest of the palette is payload that has to be read all the same
            if kind == "tpl":
                for j, ncol in enumerate([32767, 32768, 32769, 65535] if not thorough else [32767, 32768, 32769, 40000, 65534, 65535, 16384, 49152]):
                    w, h = [(8, 4), (5, 3), (16, 8), (1, 1)][j % 4]
                    t = dict(name=b"", w=w, h=h, fmt=9, data=bytes(rng.randrange(256) for _ in range(texref.ci8_data_size(w, h))),
                             pal=rand_bytes(rng, 2 * ncol))
                    texs = [t] if j % 2 == 0 else [rand_textpl(rng, 8), t]
                    img, ext = texcont.WRITERS[kind](texs, rng, **rand_knobs(rng, kind))
                    cases.append(Case("%s ref %s %s" % (kind, hx(img), tex_tokens(texs)), "tpl-big-palette"))
            # offsets beyond 16 bits: a junk gap of 66 KiB in front of one of the parts (whole-file cases only)
            for j in range(4 if not thorough else 24):
                n = 1 + j % 3
                texs = [rand_textpl(rng, 8) for _ in range(n)] if kind == "tpl" else \
                       [rand_tex3ds(rng, sjis if kind == "ctpk" else utf8, 8) for _ in range(n)]
                knobs = rand_knobs(rng, kind)
                knobs["far"] = 66 * 1024
                knobs["gaps"] = False
                if j % 2 == 0:
                    knobs["base"] = "zero"       # section-relative offsets become large as well
                img, ext = texcont.WRITERS[kind](texs, rng, **knobs)
                cases.append(Case("%s ref %s %s" % (kind, hx(img), tex_tokens(texs)), kind + "-far"))
        # the f32 payload-size request of ctpk.rs / bch.rs around the exactness boundary (payloads of 8..32 MiB built by
        # the harness; formats 10 / 11, whose decoder ignores the data): does the reader ask for round_f32(bpp*w*h) bytes?
        f32_sizes = [(10, 1001, 999), (10, 4097, 4099), (11, 4097, 4099), (11, 2897, 2899)]
        if thorough:
            f32_sizes += [(10, 4096, 4096), (11, 4096, 4096), (10, 4099, 4101), (11, 5793, 5795), (10, 8191, 4099), (11, 4099, 4097),
                          (10, 5793, 5793), (11, 8191, 2049), (10, 65535, 257), (11, 257, 65535), (10, 4097, 4097)]
            f32_sizes += [(rng.choice([10, 11]), rng.randrange(4000, 6000), rng.randrange(4000, 6000)) for _ in range(20)]
        for (fmt, w, h) in f32_sizes:
            for kind in ("ctpk", "bch"):
                cases.append(Case("%s f32 %d %d %d" % (kind, fmt, w, h), "f32-size"))
        cases.append(Case("ctpk codec", "codec-table"))
        rng.shuffle(cases)          # spread the expensive prefix sweeps over the shards
        return cases

    # ------------------------------------------------------------------ oracle
    def oracle(self, case, impl_out, profile):
        toks = case.line.split()
        kind, sub = toks[0], toks[1]
        if impl_out in ("PANIC", "ABORT", "TIMEOUT") or impl_out.startswith("MISSING") or impl_out.startswith("UNKNOWN"):
            return "%s %s: %s" % (kind, sub, impl_out)
        if sub == "codec":
            return None                      # the table itself is compared with the model's (leg K)
        if sub == "f32":
            fmt, w, h = int(toks[2]), int(toks[3]), int(toks[4])
            bpp = {10: 0.5, 11: 1.0}[fmt]
            true = int(bpp * w * h)                                   # exact in double precision
            asked = int(struct.unpack("<f", struct.pack("<f", bpp * w * h))[0])   # one binary32 rounding, then truncation
            if asked != true:
                return None              # outside f32_exact: no claim of the property; the model (leg K) pins what the code does
            if impl_out != "EEOOO":
                return ("%s: %dx%d format %d: a payload of %d bytes (exactly representable in binary32): outcomes for payload lengths "
                        "-2..+2 are %s, expected EEOOO (accepted iff complete)" % (kind, w, h, fmt, true, impl_out))
            return None
        if sub == "ref":
            texs = parse_tex_tokens(toks[3:])
            ot = impl_out.split(" ")
            allsup = all(is_supported(kind, t) for t in texs)
            if ot[0] != "ok":
                if not allsup and impl_out.startswith("err"):
                    return None             # a texture outside the supported set may be refused (RGB8 always is)
                return "%s: a conforming container with %d textures is rejected (%s)" % (kind, len(texs), impl_out[:60])
            if int(ot[1]) != len(texs) or len(ot) != 2 + len(texs):
                return "%s: %s textures returned, %d packed" % (kind, ot[1], len(texs))
            for i, (t, o) in enumerate(zip(texs, ot[2:])):
                name, w, h, px = o.split(",")
                want = "" if kind == "tpl" else t["name"].hex()
                if name != want:
                    return "%s: texture %d has name %s, stored name %s" % (kind, i, name, want)
                if int(w) != t["w"] or int(h) != t["h"]:
                    return "%s: texture %d is %sx%s, stored %dx%d" % (kind, i, w, h, t["w"], t["h"])
                why = check_pixels(kind, t, unhx(px)) if is_supported(kind, t) else None
                if why:
                    return "%s: texture %d (format %d, %dx%d): %s" % (kind, i, t["fmt"], t["w"], t["h"], why)
            return None
        if sub == "cut":
            lo = int(toks[3])
            ext = [int(x) for x in toks[5][1:].split(",")] if len(toks) > 5 and len(toks[5]) > 1 else []
            need = max([ext[i] + ext[i + 1] for i in range(0, len(ext), 2) if ext[i + 1] > 0] + [0])
            try:
                classes = parse_rle(impl_out)
            except ValueError:
                return "%s cut: unreadable output %s" % (kind, impl_out[:60])
            if len(classes) != int(toks[4]) - lo:
                return "%s cut: %d classes for %d prefixes" % (kind, len(classes), int(toks[4]) - lo)
            for i, c in enumerate(classes):
                k = lo + i
                if c == "P":
                    return "%s: reading the first %d bytes of a conforming %d-byte file panics" % (kind, k, len(toks[2]) // 2)
                if k < need and c not in ("E", "M"):
                    return "%s: the first %d bytes of a conforming file are accepted although a texture payload ends at %d" % (kind, k, need)
            return None
        if sub == "full":
            if case.stream.endswith("wrong-magic") or case.stream == "corpus":
                if not impl_out.startswith("err"):
                    return "%s: input with a wrong magic number is not rejected (%s)" % (kind, impl_out[:60])
            return None
        return "unknown sub-kind " + sub

    # ------------------------------------------------------------------ correspondence
    def agree(self, case, impl_out, model_out, profile):
        if " || " in model_out:
            c, w = model_out.split(" || ", 1)
            model_out = c if profile == "debug" else w
        if case.line.split(" ", 2)[1] == "ref":
            if model_out == "skip":          # a texture above 4096 pixels: implementation + oracle only
                return True
            return model_out == "conforms=1 " + impl_out
        return model_out == impl_out

    def nontrivial(self, case, impl_out):
        toks = case.line.split()
        if toks[1] == "ref":
            return int(toks[3]) > 0
        if toks[1] == "cut":
            return len(toks) > 5 and len(toks[5]) > 1
        return True

    def shrink_candidates(self, case):
        toks = case.line.split()
        if toks[1] == "cut":
            lo, hi = int(toks[3]), int(toks[4])
            if hi - lo > 1:
                mid = (lo + hi) // 2
                for (a, b) in ((lo, mid), (mid, hi)):
                    yield Case(" ".join(toks[:3] + [str(a), str(b)] + toks[5:]), case.stream)


TB = ("Trusted: Coq 8.16.1 kernel (vm_compute, no native_compute), no axioms (Print Assumptions audited on every run), "
      "ExtrOcamlBasic extraction + hand-written OCaml driver, the Rust harness and Python generators/oracles. ")

MANIFEST = dict(
    text="Theorems about executable machine-level Gallina models (outcome monad Ok/Err/Panic, checked and wrapping u32 arithmetic, Cursor reads) of "
         "ctpk::read, bch::read, cgfx::read and Tpl::extract_textures (the binread derive modelled by hand: absolute FilePtr32 offsets, position "
         "restored; the f32 payload-size product of ctpk.rs / bch.rs with its binary32 rounding; CGFX self-relative offsets modulo 2^32) against format "
         "relations conforms_ctpk / _bch / _cgfx / _tpl written independently of the parsers from the published layouts, with tables, names and "
         "payloads anywhere in the file (CGFX: also in front of the referring field). All four parsers are proved (no _partial theorem): on every "
         "conforming file, in both arithmetic modes, the reader returns decode_all of the packed textures - same number, order, names (where stored), "
         "dimensions, pixel data = the C19 decoding of each texture's own payload; for CTPK and BCH under the explicit hypothesis f32_exact (the "
         "reader's binary32 size request equals the true payload size: proved for payloads below 8 MiB and for power-of-two sides, refuted by a "
         "witness for 4097x4099 L4). On the supported textures (colour formats 0,2,3,4,5,7,8 with sides that are multiples of 8, ETC1/ETC1A4 with "
         "power-of-two sides; CI8 whose visible pixels index into the RGB5A3 palette) that is Ok (map decoded texs) with mode-independent pixels, and "
         "composed with C19: pixel (X,Y) of texture i = decode_color of the payload element at the tiled index / the decoded palette entry at "
         "ci8_index. BCH, CGFX and TPL input whose first four bytes are not the magic number is Err EBadMagic (shorter input Err); for every "
         "conforming file and every k < |f| reading the first k bytes never panics and is an error whenever the cut removes a byte of a texture payload "
         "(TPL: image or palette data) as located by the file's own tables; the four boolean checkers conforms_*b are sound; finding F23 is kept as a "
         "witness theorem (a conforming CGFX file with backward offsets on which the pre-repair sum panics in the checked mode). The models are tied "
         "to /repo on every run: containers from an independent Python writer with placement knobs (incl. backward CGFX offsets) that the extracted "
         "verified checkers accepted, read whole (full pixel data) and at EVERY prefix length for files up to 2 KiB in the quick tier and 6 KiB in the thorough tier (larger files: whole file only), wrong magic numbers, the number of payload bytes "
         "requested around the binary32 exactness boundary (8..32 MiB payloads built by the harness), the Shift-JIS table against encoding_rs on all "
         "one- and two-byte strings, debug and release builds; the oracle (count, order, names, dimensions, pixels by the reference decoders of "
         "gen/texref.py; no PANIC/ABORT on any prefix, Err when a payload byte is missing; binary32 rounding by struct.pack) is independent of the Coq model.",
    note=TB + "Modelled, not verified: std::io::Cursor and binread 2.1.1 (A-std; binread's FilePtr/Vec/magic/repr semantics transcribed from its source), "
              "encoding_rs (A-codec: UTF-8 validity = Unicode table 3-7; CTPK names in the format relation must satisfy sjis_encoded, the exact table of "
              "byte strings that are Shift-JIS encodings of strings - compared with encoding_rs exhaustively per character on every run; the reader model "
              "itself keeps the structural rule, so on names outside that table model and code may differ), IEEE binary32 semantics of Rust's f32 "
              "multiplication and `as usize` (A-float, now only this), allocation (A-alloc). f32_exact is an explicit hypothesis of every CTPK/BCH theorem: "
              "for textures whose bpp*w*h is not representable in binary32 (first possible at 8 MiB) the reader asks for a different number of bytes and "
              "the theorems do not apply. TPL images are CI8 + RGB5A3 palette (the only combination extract_textures decodes). Offsets >= 2^24 are covered "
              "by the theorems but not generated. Defects F20 (BOM sniffing dropped a leading U+FEFF of BCH/CGFX texture names) and F23 (CGFX backward "
              "offsets panicked in checked builds) were repaired in /repo; the models describe the repaired code. bch.rs compares backward_compatibility "
              "with 20 where the format says 0x20: modelled as coded, proved unobservable on conforming files. texture_vec_to_map / "
              "LayeredFilesystem::read_*_textures are covered by C12's e2e theorems, not by this check.",
    technique="Coq proof (format relations, prefix-monotonicity of cursor reads lifted through the outcome monad, induction over the texture tables, lia) + "
              "extracted-model differential check on generated containers and all their prefixes + verified format checkers as generator filter + "
              "independent Python oracle (reference decoders)",
    ref="DESIGN.md section 7 (C20); notes/c20.md")
