# C16: 3DS arc extraction returns exactly the packed files; the four error cases.
import json
import os

from common import PropertyCheck, Case
import txtfile
from txtfile import B, L, unB, unL

TESTDIR = "/repo/resources/test"

NAME_PARTS = [b"a", b"file", b"Test1", b"x.bin", b"x.bin.lz", b"dir/sub/f", b"UPPER.ARC", b"name with space", b"0", b"_", b"Count", b"Info", b"Data"]
SJ_NAMES = [b"\x83\x65\x83\x58\x83\x67", b"\x95\x5c.bin", b"\xc3\xbd\xc4", b"\x93\xfa\x96\x7b\x8c\xea.lz", b"\x83\x5c\x83\x5c"]

# codec-edge names (Shift-JIS bytes), each with an ASCII extension: half-width katakana pairs that are also well-formed UTF-8
# two-byte sequences (C2..DF + A1..BF: CE BC = U+03BC, D0 BD = U+043D, C3 BD = U+00FD, D1 A1, C2 A9), a kanji + half-width
# katakana triple that is well-formed UTF-8 (E3 81 A1 = U+3061, E4 B8 A1), and the CP932 row-1 symbols whose Unicode mapping
# differs from JIS X 0208 (81 60 U+FF5E, 81 7C U+FF0D, 81 5F U+FF3C, 81 61 U+2225, 81 91 / 81 92, 81 5C).  A decoder that
# sniffs the encoding ("try UTF-8 first", seeded C16-10 / C17-8) or "repairs" a mapping (C15-8) changes these names.
CODEC_NAMES = [b"\xce\xbc.bin", b"\xd0\xbd.bin", b"\xc3\xbd.lz", b"\xd0\xbd\xd1\xa1.arc", b"\xc2\xa9", b"\xce\xbc\xce\xbc\xce\xbc.bin",
               b"\xe3\x81\xa1.bin", b"\xe4\xb8\xa1.lz", b"dir/\xce\xbc", b"\x81\x60.bin", b"a\x81\x60b.lz", b"\x81\x7c.bin", b"\x81\x5f.bin",
               b"\x81\x61x.bin", b"\x81\x91\x81\x92.bin", b"\x81\x5c.bin"]


def rnd_files(rng, n, maxlen):
    names = set()
    files = []
    while len(files) < n:
        r = rng.random()
        if r < 0.05:
            # names that are also words the format or the game files use as labels: a record's own name label must not be taken for
            # structure (seeded change C16-4 took the header padding from a label called "Data")
            nm = rng.choice([b"Data", b"Count", b"Info", b"Header", b"data"])
        elif r < 0.6:
            nm = rng.choice(NAME_PARTS) + (str(len(files)).encode() if rng.random() < 0.8 else b"")
        elif r < 0.7:
            nm = rng.choice(SJ_NAMES) + str(len(files)).encode()
        elif r < 0.8:
            nm = rng.choice(CODEC_NAMES)
        else:
            nm = bytes(rng.randint(0x21, 0x7E) for _ in range(rng.randint(1, 12)))
        if nm in names:
            continue
        names.add(nm)
        ln = rng.choice([0, 0, 1, 2, 3, 4, 5, 7, 8, rng.randint(0, maxlen), rng.randint(0, maxlen)])
        kind = rng.random()
        if kind < 0.2:
            body = bytes(ln)                                   # zero bodies (look like header padding)
        elif kind < 0.3:
            body = bytes([0xFF]) * ln
        else:
            body = bytes(rng.getrandbits(8) for _ in range(ln))
        files.append((nm, body))
    return files


def share_bodies(rng, files):
    """make some bodies slices (prefix / suffix / inner part / copy) of another body, so that the writer's `share` knob
    can let two records name overlapping or identical ranges"""
    out = list(files)
    for j in range(len(out)):
        if len(out) > 1 and rng.random() < 0.35:
            i = rng.randrange(len(out))
            src = out[i][1]
            if i != j and src:
                a = rng.randint(0, len(src))
                b = rng.randint(a, len(src))
                out[j] = (out[j][0], src[a:b] if rng.random() < 0.7 else src)
    return out


def first_data_word(image):
    """the first u32 of the data region of a little-endian bin-archive image (None when the region is shorter)"""
    if len(image) < 0x24:
        return None
    dsz = int.from_bytes(image[4:8], "little")
    if dsz < 4:
        return None
    return int.from_bytes(image[0x20:0x24], "little")


def render(image, expect, files, padded=None):
    if expect == "ok" and padded is False:
        expect = "ok:unpadded"       # the writer's knob travels with the case: no 0x60 header in this image (signature of F27)
    return render0(image, expect, files)


def render0(image, expect, files):
    """arc B<image> E<expected outcome> (B<name> B<body>)*   - the expectation travels with the case so that a replay
    evaluates the same oracle; the tools read the image only"""
    parts = ["arc", B(image), "E" + expect]
    for (n, b) in files:
        parts += [B(n), B(b)]
    return " ".join(parts)


def parse_case(line):
    t = line.split()
    image = unB(t[1])
    expect = t[2][1:] if len(t) > 2 else None
    files = [(unB(t[i]), unB(t[i + 1])) for i in range(3, len(t) - 1, 2)]
    return image, expect, files


def _load_known():
    p = os.path.join(os.path.dirname(os.path.dirname(os.path.abspath(__file__))), "known_findings.json")
    try:
        return json.load(open(p)).get("findings", [])
    except (OSError, ValueError):
        return []


KNOWN = _load_known()


class C16(PropertyCheck):
    pid = "C16"
    source_tables = ["ARC_LABELS", "ARC_HEADER_PAD", "BIN_HEADER"]   # tables / constants regenerated from /repo's source (gen/srctables.py)
    release_too = True
    rule = ("streams: images from a Python arc writer on top of a Python bin-archive writer with layout knobs (padded 0x60 header or "
            "not, record order != body order, unaligned / empty / zero-filled bodies with gaps, bodies before and AFTER the tables, a body ending "
            "exactly on the last byte of the data region, an EMPTY file as the last body with nothing after it (start address = size of the data region), "
            "shared and overlapping ranges, un-padded images with the bodies from data offset 0 (first word zero = known finding F27, stream "
            "unpadded-zero-first-word), Count before or after Info, Count / Info ALSO on higher addresses (the lowest address counts: F22), "
            "extra labels, permuted pointer and label tables, junk and duplicated strings in the text section, non-ASCII lossless names), "
            "0-12 files quick / up to 100 thorough; each error variant (no Count, no Info, record without a string, range leaving the data "
            "region, planted offsets incl. 0xFFFFFFF0 = finding F9, Count larger/smaller than the table); ArcTest.arc. The result is compared "
            "as a sorted map with the file set the image was built from (oracle) and with the extracted model, in debug and release builds. "
            "Non-trivial = at least one file extracted or one of the four named errors; distinct = distinct case line.")
    assumptions = ["A-codec: file names are Shift-JIS strings encoding_rs converts losslessly (the model's raw names are decoded with the "
                   "library's own decoder before comparing)",
                   "A-std: HashMap (compared sorted), Vec",
                   "byte level: C16_extract_from_file / C16_file_no_count / C16_file_no_info quantify over every byte string that conforms to C01's "
                   "format relation (Proofs/BinFormatSpec.v) with an arc-shaped content; no premise about BinArchive::from_bytes is left"]

    def generate(self, rng, tier):
        cases = []
        quick = tier == "quick"
        n_ok = 1500 if quick else 20000
        for _ in range(n_ok):
            nf = rng.choice([0, 1, 2, 3, rng.randint(1, 12), rng.randint(1, 12), rng.randint(1, 12)])
            files = rnd_files(rng, nf, 40)
            share = rng.random() < 0.3
            if share:
                files = share_bodies(rng, files)
            kw = dict(padded=rng.random() < 0.5, permute_bodies=rng.random() < 0.7, unaligned=rng.random() < 0.5, gaps=rng.random() < 0.4,
                      count_first=rng.random() < 0.5, extra_labels=rng.random() < 0.6, shuffle_tables=rng.random() < 0.5,
                      junk_text=rng.random() < 0.3, dup_strings=rng.random() < 0.3,
                      tail=rng.choice([0.0, 0.0, 0.3, 1.0]), end_exact=rng.random() < 0.5, share=share,
                      indices=rng.choice(["seq", "seq", "zero", "dup", "random"]),
                      decoys=rng.choice([None, None, None, "count", "info", "both"]),
                      data_label=rng.choice(["base", "base", "none", "body", "end"]), tail_share=rng.random() < 0.2)
            if not kw["padded"] and rng.random() < 0.3:
                kw["sentinel"] = False           # bodies from data offset 0 (first word 0 => known finding F27)
            image, exp = txtfile.arc_write(files, rng, **kw)
            cases.append(Case(render(image, exp, files, kw["padded"]), "layout-knobs"))
        if not quick:
            for nf in (50, 100):
                for padded in (True, False):
                    files = rnd_files(rng, nf, 64)
                    image, exp = txtfile.arc_write(files, rng, padded=padded, unaligned=True, gaps=True, shuffle_tables=True)
                    cases.append(Case(render(image, exp, files), "layout-knobs-large"))
        # knob grid on a fixed small file set (every combination of the boolean knobs)
        base = [(b"one.bin", b"\x01\x02\x03\x04\x05"), (b"empty", b""), (b"zeros", bytes(7)), (b"\x95\x5c.lz", bytes(range(40, 57)))]
        for mask in range(256):
            kw = dict(padded=bool(mask & 1), permute_bodies=bool(mask & 2), unaligned=bool(mask & 4), gaps=bool(mask & 8),
                      count_first=bool(mask & 16), extra_labels=bool(mask & 32), tail=0.5 if mask & 64 else 0.0, end_exact=bool(mask & 128))
            image, exp = txtfile.arc_write(base, rng, **kw)
            cases.append(Case(render(image, exp, base), "knob-grid"))
        # an EMPTY file packed as the very last body with nothing after it: record size 0 and offset + padding = size of the data
        # region (the start address of the range equals the end of the data; extraction must be Ok with an empty entry) - alone in
        # the archive, after other bodies, with and without the padded header, record first or last in the table
        for padded in (True, False):
            for count_first in (True, False):
                for fs in ([(b"empty", b"")],
                           [(b"empty", b""), (b"a.bin", b"\x01\x02\x03")],
                           [(b"a.bin", b"\x01\x02\x03\x04"), (b"empty", b"")],
                           [(b"e1", b""), (b"b", bytes(5)), (b"e2", b"")]):
                    for rep in range(2 if quick else 6):
                        image, exp = txtfile.arc_write(fs, rng, padded=padded, permute_bodies=False, unaligned=bool(rep & 1), count_first=count_first,
                                                       extra_labels=bool(rep & 2), tail=1.0, end_exact=True, empty_last=True)
                        cases.append(Case(render(image, exp, fs), "empty-last"))
        # known finding F27: UN-padded images whose first body starts with a zero word (or is empty / short and zero), bodies from
        # data offset 0.  The property demands Ok with the packed files; the library takes the zero word for the 0x60 header.
        zb = [b"\x00\x00\x00\x00\xaa\xbb", bytes(4), bytes(8), b"\x00\x00\x00\x00" + bytes(range(1, 30)), bytes(3), b""]
        for rep in range(40 if quick else 400):
            first = zb[rep % len(zb)]
            nf = (1, 1, 2, 3, 7, 7, 12)[rep % 7]
            fs = [(b"z", first)] + [(b"f%d" % j, bytes([0x10 + j]) * rng.choice([8, 8, 1, 5, 200])) for j in range(1, nf)]
            image, exp = txtfile.arc_write(fs, rng, padded=False, sentinel=False, permute_bodies=False, unaligned=False, gaps=False,
                                           count_first=bool(rep & 1), extra_labels=bool(rep & 2), shuffle_tables=bool(rep & 4))
            cases.append(Case(render(image, exp, fs, False), "unpadded-zero-first-word"))
        # Count / Info on SEVERAL addresses: the lowest address counts (finding F22, repair 10408e9; before it the answer
        # depended on the hash order of the label map and changed from run to run)
        for rep in range(60 if quick else 600):
            fs = rnd_files(rng, rng.randint(1, 4), 12)
            image, exp = txtfile.arc_write(fs, rng, padded=bool(rep & 1), count_first=bool(rep & 2), shuffle_tables=bool(rep & 4),
                                           extra_labels=bool(rep & 8), tail=rng.choice([0.0, 1.0]), decoys=("count", "info", "both")[rep % 3])
            cases.append(Case(render(image, exp, fs), "several-addresses"))
        # images of a string-POOLING packer: a name / label text stored as the TAIL of a longer string of the table ("a.bin" inside
        # "data.bin", the label "Info" inside the name "SceneInfo", "Count" inside "DisCount") - seeded C16-7
        pools = [[b"data.bin", b"a.bin", b"bin"], [b"SceneInfo", b"x"], [b"DisCount", b"Count.bin", b"t"], [b"SceneInfo", b"DisCount", b"nfo", b"o"],
                 [b"dir/sub/file.lz", b"file.lz", b"le.lz", b".lz", b"z"], [b"\x93\xfa\x96\x7b\x8c\xea.lz", b"\x8c\xea.lz", b".lz"]]
        for rep in range(48 if quick else 480):
            names = pools[rep % len(pools)]
            fs = [(n, bytes(rng.getrandbits(8) for _ in range(rng.choice([0, 3, 8, 17])))) for n in names]
            rng.shuffle(fs)
            image, exp = txtfile.arc_write(fs, rng, padded=bool(rep & 1), count_first=bool(rep & 2), extra_labels=bool(rep & 4),
                                           shuffle_tables=bool(rep & 8), junk_text=bool(rep & 16), tail_share=True)
            cases.append(Case(render(image, exp, fs, bool(rep & 1)), "tail-shared-strings"))
        # codec-edge names as file names and (extra_labels: the name is also a label on its record) as label text
        for rep in range(32 if quick else 320):
            k = 1 + rep % 4
            names = [CODEC_NAMES[(rep * 3 + j * 5) % len(CODEC_NAMES)] for j in range(k)]
            names = list(dict.fromkeys(names))
            fs = [(n, bytes(rng.getrandbits(8) for _ in range(rng.choice([0, 1, 6, 9])))) for n in names]
            image, exp = txtfile.arc_write(fs, rng, padded=bool(rep & 1), count_first=bool(rep & 2), extra_labels=bool(rep & 4) or rep % 3 == 0,
                                           shuffle_tables=bool(rep & 8), tail_share=bool(rep & 16))
            cases.append(Case(render(image, exp, fs, bool(rep & 1)), "codec-edge-names"))
        # a missing label is an error also when NOTHING is packed (count word 0): Count present + Info absent, Info present +
        # Count absent, both absent - padded or not, Count before or after Info, with and without other labels (seeded C16-8)
        for drop in ("info", "count", "both"):
            for mask in range(16):
                image, exp = txtfile.arc_write([], rng, padded=bool(mask & 1), count_first=bool(mask & 2), extra_labels=bool(mask & 4),
                                               shuffle_tables=bool(mask & 8), drop=drop)
                cases.append(Case(render(image, exp, []), "errors-empty-" + drop))
        # error variants
        n_err = 600 if quick else 8000
        for _ in range(n_err):
            nf = rng.randint(1, 6)
            files = rnd_files(rng, nf, 24)
            pre_v = None
            if rng.random() < 0.15:              # label errors on an EMPTY archive as well
                nf, files, pre_v = 0, [], rng.choice(["nocount", "noinfo", "noboth"])
            kw = dict(padded=rng.random() < 0.5, unaligned=rng.random() < 0.5, count_first=rng.random() < 0.5,
                      extra_labels=rng.random() < 0.5, shuffle_tables=rng.random() < 0.5)
            v = pre_v or rng.choice(["nocount", "noinfo", "noboth", "noname", "range", "more", "fewer", "offset"])
            shown = files
            if v == "nocount":
                kw["drop"] = "count"
            elif v == "noinfo":
                kw["drop"] = "info"
            elif v == "noboth":
                kw["drop"] = "both"
            elif v == "noname":
                kw["bad_name"] = rng.randrange(nf)
            elif v == "range":
                kw["bad_range"] = rng.randrange(nf)
            elif v == "more":
                kw["count_delta"] = rng.choice([1, 2, 0x10000, 0xFFFFFFF0 - nf, 0xFFFFFFFF - nf])
            elif v == "fewer":
                kw["count_delta"] = -rng.randint(1, nf)
            elif v == "offset":
                kw["raw_offset"] = (rng.randrange(nf), rng.choice([0xFFFFFFF0, 0xFFFFFFFF, 0xFFFFFFA0, 0xFFFFFF9F, 0x80000000, 0x7FFFFFFF,
                                                                   0xFFFFFFA0 - 1, rng.randint(0, 0x200)]))
            image, exp = txtfile.arc_write(files, rng, **kw)
            if v == "more":
                exp = "err"                       # non-conforming count: some error, the property does not name which
            elif v == "fewer":
                shown = files[:nf + kw["count_delta"]]
            elif v == "offset":
                i, off = kw["raw_offset"]
                data_len = txtfile.bin_read("L", image)[0].__len__()
                addr = off + (0x60 if kw["padded"] else 0)
                size = len(files[i][1])
                if addr >= 1 << 32:
                    exp = "err:oob"                              # offset + padding does not fit a u32 (C16_offset_overflow), any size
                elif size == 0:
                    exp = "ok"                                   # an empty range is the empty body wherever it points (holds_file)
                elif addr + size > data_len:
                    exp = "err:oob"
                else:
                    data = txtfile.bin_read("L", image)[0]
                    shown = [(n, b) if j != i else (n, bytes(data[addr:addr + size])) for j, (n, b) in enumerate(files)]
            cases.append(Case(render(image, exp, shown), "errors-" + v))
        # finding F9, literally: padded header, offset 0xFFFFFFF0
        for size in (1, 5):
            f9 = [(b"f9.bin", bytes(range(1, size + 1)))]
            image, _ = txtfile.arc_write(f9, rng, padded=True, raw_offset=(0, 0xFFFFFFF0))
            cases.append(Case(render(image, "err:oob", f9), "errors-offset"))
        p = os.path.join(TESTDIR, "ArcTest.arc")
        if os.path.exists(p):
            fs = [(n.encode(), open(os.path.join(TESTDIR, n), "rb").read()) for n in ("ArcTest1.bin", "ArcTest1.bin.lz")]
            cases.append(Case(render(open(p, "rb").read(), "ok", fs), "game-file"))
        return cases

    def oracle(self, case, impl_out, profile):
        if impl_out in ("PANIC", "ABORT", "TIMEOUT", "MISSING-OUTPUT") or impl_out.startswith("UNKNOWN-KIND"):
            return "implementation: " + impl_out
        image, expect, files = parse_case(case.line)
        if expect is None or expect == "any":
            return None
        if expect in ("ok", "ok:unpadded"):
            want = {}
            for (n, b) in files:
                want[tuple(unL(txtfile.DECODER.dec(n)[0]))] = B(b)
            line = "ok [%s]" % " ".join("%s=%s" % (L(k), want[k]) for k in sorted(want))
            if impl_out != line:
                return "extraction differs from the packed files: want %s got %s" % (line[:300], impl_out[:300])
            return None
        if expect == "err":
            return None if impl_out.startswith("err:") else "a non-conforming image was accepted: " + impl_out[:200]
        if impl_out != expect:
            return "expected %s, got %s" % (expect, impl_out[:200])
        return None

    def known_finding(self, case, impl_out, failure):
        """F27 (known_findings.json, status known).  Signature, decided ON THE CASE: a conforming image written WITHOUT the 0x60
        header (expectation token ok:unpadded = the writer's knob) whose first data word is zero; the library's answer is an
        out-of-bounds error or an Ok with other bytes (any other outcome - a panic, another error - is still a violation)."""
        if not case.line.startswith("arc "):
            return None
        image, expect, files = parse_case(case.line)
        if expect != "ok:unpadded" or first_data_word(image) != 0:
            return None
        if not (impl_out == "err:oob" or impl_out.startswith("ok [")):
            return None
        for f in KNOWN:
            if f.get("id") == "F27" and f.get("status") == "known" and f.get("property") == "C16":
                return f["what"]
        return None

    def agree(self, case, impl_out, model_out, profile):
        return txtfile.agree_arc(impl_out, model_out)

    def nontrivial(self, case, impl_out):
        return ("=" in impl_out) or impl_out in txtfile.NAMED_ARC_ERRORS


TB = ("Trusted: Coq 8.16.1 kernel (vm_compute, no native_compute), no axioms (Print Assumptions audited on every run), "
      "ExtrOcamlBasic extraction + hand-written OCaml driver, the Rust harness and Python generators/oracles. ")

MANIFEST = dict(
    text="Theorems about an executable Gallina model of arc::from_bytes (written with the bin-archive stream model): for every archive that "
         "satisfies the layout relation arc_layout (Count / Info looked up as the repaired code does: the LOWEST address whose bucket holds the "
         "label - with the label on one address, that address; the Count word = number of files; at the Info address records (string cell, "
         "index, size, offset); body i = data[offset + pad, + size) with pad = 0x60 iff the first word of the data is 0 - the detection rule of "
         "arc.rs:23, not '0x60 zero bytes'; an empty range is the empty body wherever it points; names distinct) extraction returns exactly the packed files - any record order, any body placement, padded "
         "header or not, empty bodies; the error theorems (no Count, no Info, record without a string, ANY record of a readable table whose non-empty range leaves the data region, "
         "offset + padding beyond u32, Count larger than the records that fit), each with an Example obtained through the theorem; "
         "no panic and no fuel exhaustion on ANY archive in both arithmetic modes. Model tied to /repo on every run by the extracted model vs "
         "the real library on images from a Python arc writer with layout knobs and error variants (debug and release), results compared as "
         "sorted maps with the file set the image was built from.",
    note=TB + "KNOWN FINDING F27 (known_findings.json, status known, NOT repaired): the property's quantifier 'with and without the padded header, "
              "any placement of file bodies' includes UN-padded images whose first data word is 0 (first body starting with 00 00 00 00, an empty / "
              "short zero body or a gap at data offset 0); arc.rs:23 takes that word for the 0x60 header and adds 0x60 to every offset: Err(OutOfBounds) "
              "or, with enough slack behind the bodies, Ok with bytes of the Count/Info tables (silent wrong data). The model agrees with the code. The full "
              "statement C16_extract_full (every image the text describes, explicit padding) is REFUTED in Coq (witnesses: one file rejected, seven files "
              "accepted with wrong bytes); proved is C16_extract_outside_known (every described image that is not 'un-padded layout and first data word = 0'). "
              "The check generates such images (stream unpadded-zero-first-word, and the layout knobs without sentinel word), the oracle fails on them and "
              "they are reported as KNOWN-FINDING by signature on the case; any other failure is still a VIOLATION. "
              "Byte level: C16_file_reads_content (on every file conforming to C01's format relation arc::from_bytes is the archive-level reader on the "
              "file's content - no uniqueness of the labels needed after the repair 10408e9), so every theorem speaks about files; "
              "proved from C01's parser correctness, Proofs/TextBinBridge.v + ArcBytes.v. "
              "Modelled, not verified: HashMap, Vec (A-std), encoding_rs for names (A-codec). Repaired defects: F9 bc4a741, F22 10408e9 (find_label_address = lowest address).",
    technique="Coq proof (induction over the record list with the cursor invariant pos = info + 16 i; block-read lemma) + extracted-model differential check",
    ref="DESIGN.md section 6 (C16)")
