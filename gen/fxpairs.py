# Pairs of different 16-character ASCII identifiers with equal rustc_hash::FxHasher (1.1, 64-bit) state after hashing
# their bytes - for every way Rust feeds a string to a Hasher: `write(bytes)` alone (initial state 0), `str::hash`
# (= write(bytes) + write_u8(0xff): the same collision), and `[u8]::hash` / `Vec<u8>::hash` (write_usize(len) first).
import random
M64 = (1 << 64) - 1
K = 0x517cc1b727220a95
def rotl5(x): return ((x << 5) | (x >> 59)) & M64
ALPH = b"abcdefghijklmnopqrstuvwxyzABCDEFGHIJKLMNOPQRSTUVWXYZ0123456789_"
OK = set(ALPH)
def pair(rng, h0, prefix=b""):
    """(x, y): 16-byte ASCII identifiers, x != y, equal FxHash state when hashing starts from state h0"""
    while True:
        w0 = bytes(rng.choice(ALPH) for _ in range(8)); w1 = bytes(rng.choice(ALPH) for _ in range(8))
        a0 = int.from_bytes(w0, "little"); a1 = int.from_bytes(w1, "little")
        s = rotl5(((rotl5(h0) ^ a0) * K) & M64) ^ a1          # invariant: rotl5(h1) ^ w1
        for _ in range(200000):
            v0 = bytes(rng.choice(ALPH) for _ in range(8))
            if v0 == w0: continue
            b0 = int.from_bytes(v0, "little")
            b1 = s ^ rotl5(((rotl5(h0) ^ b0) * K) & M64)
            v1 = b1.to_bytes(8, "little")
            if all(c in OK for c in v1):
                return w0 + w1, v0 + v1
def fx(b, h=0):
    i = 0
    while len(b) - i >= 8:
        h = ((rotl5(h) ^ int.from_bytes(b[i:i+8], "little")) * K) & M64; i += 8
    if len(b) - i >= 4:
        h = ((rotl5(h) ^ int.from_bytes(b[i:i+4], "little")) * K) & M64; i += 4
    if len(b) - i >= 2:
        h = ((rotl5(h) ^ int.from_bytes(b[i:i+2], "little")) * K) & M64; i += 2
    if len(b) - i >= 1:
        h = ((rotl5(h) ^ b[i]) * K) & M64
    return h
# fixed pairs (seed 7), verified at import
PAIRS_PLAIN = [("u8jzPde0IgxLd6Gn", "H1pJoi2CsyzGtYPZ"), ("ja0UA_vhtJju38E_", "0OVme2Z58BNB80zl"), ("vzXmbUFqx1pUYz80", "vZBoSvwFs1dQ9kM8")]
PAIRS_LEN_PREFIXED = [("cn3woWzDi8FcMdo8", "SCFWVVcPn2Z44xLw"), ("J2Y6qDSrr1KOFQyj", "OfS3Z7R2TV8UqVod"), ("LnxX48No5bZEfOxA", "ktSxjVgJJmBduSrP")]
for _x, _y in PAIRS_PLAIN:
    assert _x != _y and fx(_x.encode()) == fx(_y.encode())
for _x, _y in PAIRS_LEN_PREFIXED:
    assert _x != _y and fx(_x.encode(), (16 * K) & M64) == fx(_y.encode(), (16 * K) & M64)
ALL_PAIRS = PAIRS_PLAIN + PAIRS_LEN_PREFIXED

if __name__ == "__main__":
    rng = random.Random(7)
    out = []
    for h0 in (0, (16 * K) & M64):      # plain write / str::hash ; slice hash with the length prefix 16
        for _ in range(3):
            x, y = pair(rng, h0)
            assert x != y and fx(x, h0) == fx(y, h0)
            out.append((x.decode(), y.decode()))
    print(out)
