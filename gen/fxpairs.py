# Pairs of different 16-character ASCII identifiers with equal rustc_hash::FxHasher (1.1, 64-bit) state after hashing
# their bytes - for every way Rust feeds a string to a Hasher: `write(bytes)` alone (initial state 0), `str::hash`
# (= write(bytes) + write_u8(0xff): the same collision), and `[u8]::hash` / `Vec<u8>::hash` (write_usize(len) first).
import random
M64 = (1 << 64) - 1
K = 0x517cc1b727220a95
def rotl5(x): return ((x << 5) | (x >> 59)) & M64
ALPH = b"abcdefghijklmnopqrstuvwxyzABCDEFGHIJKLMNOPQRSTUVWXYZ0123456789_"
OK = set(ALPH)
def pair(rng, h0, prefix=b""):
    """(x, y): 16-byte ASCII identifiers, x != y, equal FxHash state when hashing starts from state h0"""
    while True:
        w0 = bytes(rng.choice(ALPH) for _ in range(8)); w1 = bytes(rng.choice(ALPH) for _ in range(8))
        a0 = int.from_bytes(w0, "little"); a1 = int.from_bytes(w1, "little")
        s = rotl5(((rotl5(h0) ^ a0) * K) & M64) ^ a1          # invariant: rotl5(h1) ^ w1
        for _ in range(200000):
            v0 = bytes(rng.choice(ALPH) for _ in range(8))
            if v0 == w0: continue
            b0 = int.from_bytes(v0, "little")
            b1 = s ^ rotl5(((rotl5(h0) ^ b0) * K) & M64)
            v1 = b1.to_bytes(8, "little")
            if all(c in OK for c in v1):
                return w0 + w1, v0 + v1
def fx(b, h=0):
    i = 0
    while len(b) - i >= 8:
        h = ((rotl5(h) ^ int.from_bytes(b[i:i+8], "little")) * K) & M64; i += 8
    if len(b) - i >= 4:
        h = ((rotl5(h) ^ int.from_bytes(b[i:i+4], "little")) * K) & M64; i += 4
    if len(b) - i >= 2:
        h = ((rotl5(h) ^ int.from_bytes(b[i:i+2], "little")) * K) & M64; i += 2
    if len(b) - i >= 1:
        h = ((rotl5(h) ^ b[i]) * K) & M64
    return h
# constants produced by the search below (seed 7) plus the pair of seed C18-10's demo; verified at import
H_SLICE16 = (16 * K) & M64
PAIRS_STR = [(b"u8jzPde0IgxLd6Gn", b"H1pJoi2CsyzGtYPZ"), (b"ja0UA_vhtJju38E_", b"0OVme2Z58BNB80zl"),
             (b"vzXmbUFqx1pUYz80", b"vZBoSvwFs1dQ9kM8"), (b"uHead_M_ch622_04", b"uHead_E_th622_0_")]      # write(bytes) / str::hash
PAIRS_SLICE = [(b"cn3woWzDi8FcMdo8", b"SCFWVVcPn2Z44xLw"), (b"J2Y6qDSrr1KOFQyj", b"OfS3Z7R2TV8UqVod"),
               (b"LnxX48No5bZEfOxA", b"ktSxjVgJJmBduSrP")]                                                # [u8]::hash, length prefix 16
for (_x, _y) in PAIRS_STR:
    assert _x != _y and len(_x) == len(_y) == 16 and fx(_x) == fx(_y) and fx(_x + b"_cl0n\xff") == fx(_y + b"_cl0n\xff")
for (_x, _y) in PAIRS_SLICE:
    assert _x != _y and len(_x) == len(_y) == 16 and fx(_x, H_SLICE16) == fx(_y, H_SLICE16)
# One pair for std's DefaultHasher::new() (SipHash-1-3 with the zero key) over `write(bytes)`: NOT constructible (found by the
# author of seeded change C17-10 with 9.5e9 hash evaluations); kept as a regression input, verified below.
def _rotl(x, b): return ((x << b) | (x >> (64 - b))) & M64
def siphash13(data, k0=0, k1=0):
    v = [k0 ^ 0x736f6d6570736575, k1 ^ 0x646f72616e646f6d, k0 ^ 0x6c7967656e657261, k1 ^ 0x7465646279746573]
    def rnd():
        v[0] = (v[0] + v[1]) & M64; v[1] = _rotl(v[1], 13); v[1] ^= v[0]; v[0] = _rotl(v[0], 32)
        v[2] = (v[2] + v[3]) & M64; v[3] = _rotl(v[3], 16); v[3] ^= v[2]
        v[0] = (v[0] + v[3]) & M64; v[3] = _rotl(v[3], 21); v[3] ^= v[0]
        v[2] = (v[2] + v[1]) & M64; v[1] = _rotl(v[1], 17); v[1] ^= v[2]; v[2] = _rotl(v[2], 32)
    n, i = len(data), 0
    while n - i >= 8:
        m = int.from_bytes(data[i:i + 8], "little"); v[3] ^= m; rnd(); v[0] ^= m; i += 8
    b = ((n & 0xff) << 56) | int.from_bytes(data[i:], "little")
    v[3] ^= b; rnd(); v[0] ^= b
    v[2] ^= 0xff; rnd(); rnd(); rnd()
    return (v[0] ^ v[1] ^ v[2] ^ v[3]) & M64
PAIRS_SIP13 = [(b"clip_f83fe6259b80e7ba", b"clip_c77482909676e285")]
for _x, _y in PAIRS_SIP13:
    assert _x != _y and siphash13(_x) == siphash13(_y)
ALL_PAIRS = PAIRS_STR + PAIRS_SLICE + PAIRS_SIP13

if __name__ == "__main__":
    rng = random.Random(7)
    out = []
    for h0 in (0, (16 * K) & M64):      # plain write / str::hash ; slice hash with the length prefix 16
        for _ in range(3):
            x, y = pair(rng, h0)
            assert x != y and fx(x, h0) == fx(y, h0)
            out.append((x.decode(), y.decode()))
    print(out)
