# Pairs of different 16-character ASCII identifiers with equal rustc_hash::FxHasher (1.1, 64-bit) state after hashing
# their bytes - for every way Rust feeds a string to a Hasher: `write(bytes)` alone (initial state 0), `str::hash`
# (= write(bytes) + write_u8(0xff): the same collision), and `[u8]::hash` / `Vec<u8>::hash` (write_usize(len) first).
import random
M64 = (1 << 64) - 1
K = 0x517cc1b727220a95
def rotl5(x): return ((x << 5) | (x >> 59)) & M64
ALPH = b"abcdefghijklmnopqrstuvwxyzABCDEFGHIJKLMNOPQRSTUVWXYZ0123456789_"
OK = set(ALPH)
def pair(rng, h0, prefix=b""):
    """(x, y): 16-byte ASCII identifiers, x != y, equal FxHash state when hashing starts from state h0"""
    while True:
        w0 = bytes(rng.choice(ALPH) for _ in range(8)); w1 = bytes(rng.choice(ALPH) for _ in range(8))
        a0 = int.from_bytes(w0, "little"); a1 = int.from_bytes(w1, "little")
        s = rotl5(((rotl5(h0) ^ a0) * K) & M64) ^ a1          # invariant: rotl5(h1) ^ w1
        for _ in range(200000):
            v0 = bytes(rng.choice(ALPH) for _ in range(8))
            if v0 == w0: continue
            b0 = int.from_bytes(v0, "little")
            b1 = s ^ rotl5(((rotl5(h0) ^ b0) * K) & M64)
            v1 = b1.to_bytes(8, "little")
            if all(c in OK for c in v1):
                return w0 + w1, v0 + v1
def fx(b, h=0):
    i = 0
    while len(b) - i >= 8:
        h = ((rotl5(h) ^ int.from_bytes(b[i:i+8], "little")) * K) & M64; i += 8
    if len(b) - i >= 4:
        h = ((rotl5(h) ^ int.from_bytes(b[i:i+4], "little")) * K) & M64; i += 4
    if len(b) - i >= 2:
        h = ((rotl5(h) ^ int.from_bytes(b[i:i+2], "little")) * K) & M64; i += 2
    if len(b) - i >= 1:
        h = ((rotl5(h) ^ b[i]) * K) & M64
    return h
# constants produced by the search below (seed 7) plus the pair of seed C18-10's demo; verified at import
H_SLICE16 = (16 * K) & M64
PAIRS_STR = [(b"u8jzPde0IgxLd6Gn", b"H1pJoi2CsyzGtYPZ"), (b"ja0UA_vhtJju38E_", b"0OVme2Z58BNB80zl"),
             (b"vzXmbUFqx1pUYz80", b"vZBoSvwFs1dQ9kM8"), (b"uHead_M_ch622_04", b"uHead_E_th622_0_")]      # write(bytes) / str::hash
PAIRS_SLICE = [(b"cn3woWzDi8FcMdo8", b"SCFWVVcPn2Z44xLw"), (b"J2Y6qDSrr1KOFQyj", b"OfS3Z7R2TV8UqVod"),
               (b"LnxX48No5bZEfOxA", b"ktSxjVgJJmBduSrP")]                                                # [u8]::hash, length prefix 16
for (_x, _y) in PAIRS_STR:
    assert _x != _y and len(_x) == len(_y) == 16 and fx(_x) == fx(_y) and fx(_x + b"_cl0n\xff") == fx(_y + b"_cl0n\xff")
for (_x, _y) in PAIRS_SLICE:
    assert _x != _y and len(_x) == len(_y) == 16 and fx(_x, H_SLICE16) == fx(_y, H_SLICE16)
ALL_PAIRS = PAIRS_STR + PAIRS_SLICE

if __name__ == "__main__":
    rng = random.Random(7)
    out = []
    for h0 in (0, (16 * K) & M64):      # plain write / str::hash ; slice hash with the length prefix 16
        for _ in range(3):
            x, y = pair(rng, h0)
            assert x != y and fx(x, h0) == fx(y, h0)
            out.append((x.decode(), y.decode()))
    print(out)
