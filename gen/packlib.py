# Pack archive (GameCube/Wii "pack", src/fe9_arc.rs): an independent Python statement of the format.
# Nothing here is derived from the Coq model or from mila: a strict reference reader, a reference
# writer with layout knobs, and the input alphabets of the generators (C15, pack part of C05).
import struct

MAGIC = 0x7061636B


def hx(b):
    return bytes(b).hex()


def B(b):
    return "B" + bytes(b).hex()


def unB(tok):
    return bytes.fromhex(tok[1:])


class NotConforming(Exception):
    pass


def fields(img, i):
    """(unknown, name address, file address, size) of entry i"""
    return struct.unpack_from(">IIII", img, 8 + 16 * i)


def ref_read(img):
    """Strict reader: the ordered list [(name bytes, body bytes)] the image stands for, plus the
    recorded fields; raises NotConforming when the image is not a conforming pack image."""
    img = bytes(img)
    if len(img) < 8 or struct.unpack_from(">I", img, 0)[0] != MAGIC:
        raise NotConforming("magic")
    (count,) = struct.unpack_from(">H", img, 4)
    if 8 + 16 * count > len(img):
        raise NotConforming("entry table leaves the image")
    files, recs = [], []
    for i in range(count):
        _, na, fa, sz = fields(img, i)
        if na >= len(img):
            raise NotConforming("name address")
        end = img.find(b"\0", na)
        if end < 0:
            raise NotConforming("unterminated name")
        if fa + sz > len(img):
            raise NotConforming("body leaves the image")
        files.append((img[na:end], img[fa:fa + sz]))
        recs.append((na, fa, sz))
    names = [n for n, _ in files]
    if len(set(names)) != len(names):
        raise NotConforming("duplicate names")
    return files, recs


def ref_write(files, rng=None, names_after=False, permute=False, gaps=False, overlap=False,
              share_names=False, align=32, junk_fields=False):
    """Reference writer.  Default knobs give a plain layout (names after the table, bodies after the
    names, each body on a multiple of `align`).  Knobs: names region after the bodies; bodies in a
    random order; random junk between pieces; bodies that already occur in the image are not stored
    again (overlapping storage, possibly inside the entry table or another body); a name that is a
    suffix of a stored name points into it; random values in the ignored fields."""
    n = len(files)
    assert n <= 65535
    buf = bytearray(8 + 16 * n)
    struct.pack_into(">IH", buf, 0, MAGIC, n)
    if junk_fields and rng:
        buf[6] = rng.randrange(256)
        buf[7] = rng.randrange(256)
    name_addr = [None] * n
    file_addr = [None] * n

    def junk():
        if gaps and rng and rng.random() < 0.6:
            k = rng.choice([1, 2, 3, 5, 17, 32, 40])
            # junk may contain anything, including zero bytes and pieces that look like names
            buf.extend(bytes(rng.randrange(256) for _ in range(k)))

    def put_names():
        order = list(range(n))
        if permute and rng:
            rng.shuffle(order)
        if share_names:
            order.sort(key=lambda i: -len(files[i][0]))   # longest first so that suffixes can point into them
        for i in order:
            nm = bytes(files[i][0])
            if share_names:
                pos = bytes(buf).find(nm + b"\0", 8 + 16 * n)
                if pos >= 0:
                    name_addr[i] = pos
                    continue
            junk()
            name_addr[i] = len(buf)
            buf.extend(nm + b"\0")

    def put_bodies():
        order = list(range(n))
        if permute and rng:
            rng.shuffle(order)
        for i in order:
            body = bytes(files[i][1])
            if overlap:
                if len(body) == 0:
                    file_addr[i] = rng.randrange(len(buf) + 1) if rng else len(buf)
                    continue
                # the entry table is filled in later, so only search behind it
                pos = bytes(buf).find(body, 8 + 16 * n)
                if pos >= 0:
                    file_addr[i] = pos
                    continue
            junk()
            while len(buf) % align != 0:
                buf.append(rng.randrange(256) if (gaps and rng) else 0)
            file_addr[i] = len(buf)
            buf.extend(body)

    if names_after:
        put_bodies()
        put_names()
    else:
        put_names()
        put_bodies()
    junk()
    for i in range(n):
        unk = rng.randrange(1 << 32) if (junk_fields and rng) else 0
        struct.pack_into(">IIII", buf, 8 + 16 * i, unk, name_addr[i], file_addr[i], len(files[i][1]))
    return bytes(buf)


# ----------------------------------------------------------------------------- alphabets
# Unicode file names whose cp932 encoding encoding_rs (WHATWG Shift_JIS) decodes and re-encodes
# to the same bytes (the harness checks that itself and answers `unrepresentable` otherwise).
UNI_NAMES = [
    "FE9ArcTest1.bin", "FE9ArcTest2.bin", "a", "ab", "abc", "abcd", "b", "zdata/map01.cmp", "x.bin", "X.BIN",
    "face/ike.tpl", "マップ", "マップ01", "顔.bin", "ｱｲｳ", "ｱ", "データ/音楽.cmp", "ソ", "表", "ポ", "能力", "表示.bin",
    "ソフト", "十", "予定表", "構造.dat", "あ", "あい", "あいう", "漢字かなカナｶﾅabc", "ー", "　", "~tilde", "back\\slash",
    "with space.bin", ".", "..", "%d", "mess/メッセージ.m", "鷹", "龍", "！？", "a" * 31, "b" * 32, "c" * 33,
    "long/" + "n" * 200, "ＡＢＣ", "①", "㈱",
]
# "①", "㈱" (NEC row 13) have more than one cp932 encoding; Python's encoder and encoding_rs pick the same one.
# U+7E8A has two as well and they pick different ones (ED40 / FA5C), so it is given in the form encoding_rs
# produces.  Names that do not survive decode+encode are reported by the harness (`unrepresentable`), not hidden.
RAW_NAMES = [b"\xfa\x5c", b"\xfa\x5c.bin",
             # row-1 symbols whose Unicode mapping differs between the CP932 table (encoding_rs) and JIS X 0208: 81 60 = U+FF5E
             # FULLWIDTH TILDE (JIS: U+301C WAVE DASH - seeded C15-8 "translated" it on decode), 81 7C = U+FF0D, 81 5F = U+FF3C,
             # 81 61 = U+2225, 81 91 / 81 92 = U+FFE0 / U+FFE1, 81 5C = U+2015; each must come back as the SAME name
             b"\x83\x58\x83\x65\x81\x5b\x83\x57\x82\x50\x81\x60\x82\x52.cmp", b"\x81\x60", b"a\x81\x60b", b"\x81\x60\x81\x60.bin",
             b"\x81\x7c", b"m\x81\x7c1.bin", b"\x81\x5f", b"\x81\x61x", b"\x81\x91\x81\x92", b"\x81\x5c.bin",
             # half-width katakana pairs that are also well-formed UTF-8 (D0 BD = U+043D, D1 A1 = U+0461, C3 BD = U+00FD): a codec
             # that sniffs the encoding would decode them as UTF-8
             b"\xd0\xbd", b"\xd0\xbd\xd1\xa1.bin", b"\xc3\xbd\xc4", b"\xd0\xbd\xd0\xbd\xd0\xbd"]


def encode_name(s):
    return s.encode("cp932")


def safe_names():
    out = []
    for s in UNI_NAMES:
        try:
            b = encode_name(s)
        except UnicodeEncodeError:
            continue
        if b"\0" not in b:
            out.append(b)
    return out + list(RAW_NAMES)


BODY_LENS = [0, 0, 1, 2, 5, 6, 15, 16, 17, 30, 31, 32, 33, 34, 63, 64, 65, 95, 96, 97, 127, 128, 129, 255, 256, 257]


def rand_body(rng, n=None):
    if n is None:
        r = rng.random()
        if r < 0.75:
            n = rng.choice(BODY_LENS)
        elif r < 0.97:
            n = rng.randrange(0, 200)
        else:
            n = rng.randrange(200, 1500)
    mode = rng.random()
    if mode < 0.15:
        return bytes(n)                                   # all zero
    if mode < 0.3:
        return bytes([rng.choice([0, 0xFF, 0x70, 0x61])] * n)
    return bytes(rng.randrange(256) for _ in range(n))


def rand_files(rng, nmax=40, names=None):
    names = names or safe_names()
    r = rng.random()
    if r < 0.08:
        n = 0
    elif r < 0.2:
        n = 1
    elif r < 0.75:
        n = rng.randrange(2, 9)
    else:
        n = rng.randrange(9, nmax + 1)
    pool = list(names)
    # synthetic ASCII names too, so that 40 distinct ones always exist
    pool += [("f%d" % i).encode() for i in range(12)] + [("dir/%02d.bin" % i).encode() for i in range(12)]
    if rng.random() < 0.1:
        pool.append(b"")                                  # the empty name is NUL-free and representable
    rng.shuffle(pool)
    chosen = pool[:n]
    files = []
    shared = rand_body(rng)
    for nm in chosen:
        body = shared if rng.random() < 0.1 else rand_body(rng)
        if rng.random() < 0.05 and len(shared) > 2:
            a = rng.randrange(len(shared))
            body = shared[a:rng.randrange(a, len(shared) + 1)]    # a sub-slice of another body
        files.append((nm, body))
    return files


def files_tokens(files):
    return " ".join("%s %s" % (B(n), B(b)) for n, b in files)


def parse_files_tokens(toks):
    return [(unB(toks[i]), unB(toks[i + 1])) for i in range(0, len(toks) - 1, 2)]


def entries_str(files):
    """the ` <name>,<body>` rendering both sides use"""
    return "".join(" %s,%s" % (hx(n), hx(b)) for n, b in files)
