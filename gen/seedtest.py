#!/usr/bin/env python3
# Confirms a seeded change (patch.diff + seeded_demo.rs + meta.json produced by an independent agent) and runs the
# registered checks against it:  gen/seedtest.py <out-dir> <scratch-worktree> <ID> [more IDs...]
#  1. clean worktree: the demo passes;  2. patch applied: the crate's own tests still pass (82) and the demo fails;
#  3. VERIF_REPO=<worktree> ./check <ID> for every given ID;  4. worktree reset, evidence restored.
# Result is stored in /verif/seeded/<name>/ (patch.diff, seeded_demo.rs, meta.json with the fields below added).
import json
import os
import re
import shutil
import subprocess
import sys

VERIF = os.path.dirname(os.path.dirname(os.path.abspath(__file__)))


def sh(cmd, cwd=None, env=None, timeout=3600):
    p = subprocess.run(cmd, shell=True, cwd=cwd, stdout=subprocess.PIPE, stderr=subprocess.STDOUT, env=env, timeout=timeout)
    return p.returncode, p.stdout.decode("utf-8", "replace")


def main():
    out, wt = sys.argv[1], sys.argv[2]
    ids = sys.argv[3:]
    name = sys.argv[1].rstrip("/").split("/")[-2] + "-" + sys.argv[1].rstrip("/").split("/")[-1]
    env = dict(os.environ, CARGO_NET_OFFLINE="true")
    res = {"checks": {}}
    sh("git reset --hard -q && git clean -fdq", cwd=wt)
    # rebase the worktree onto the repository's current HEAD (other fixes may have landed since the seed was made)
    rc, o = sh("git checkout -q --detach $(git -C /repo rev-parse HEAD)", cwd=wt)
    shutil.copy(os.path.join(out, "seeded_demo.rs"), os.path.join(wt, "tests_seeded_demo.rs.tmp"))
    os.makedirs(os.path.join(wt, "tests"), exist_ok=True)
    shutil.move(os.path.join(wt, "tests_seeded_demo.rs.tmp"), os.path.join(wt, "tests", "seeded_demo.rs"))
    rc, o = sh("cargo test --offline --test seeded_demo 2>&1 | tail -15", cwd=wt, env=env)
    res["demo_on_clean"] = "pass" if re.search(r"test result: ok", o) else "FAIL: " + o[-400:]
    rc, o = sh("git apply %s 2>&1 || (git apply --3way %s && git reset -q)" % (os.path.join(out, "patch.diff"), os.path.join(out, "patch.diff")), cwd=wt)
    res["patch_applies"] = (rc == 0) or o[-300:]
    rc, o = sh("cargo test --offline --lib 2>&1 | grep -E '^test result' | head -1", cwd=wt, env=env)
    res["suite_with_patch"] = o.strip()
    rc, o = sh("cargo test --offline --test seeded_demo 2>&1 | tail -30", cwd=wt, env=env)
    res["demo_with_patch"] = "fails" if re.search(r"test result: FAILED", o) else "DOES NOT FAIL: " + o[-300:]
    os.remove(os.path.join(wt, "tests", "seeded_demo.rs"))
    try:
        os.rmdir(os.path.join(wt, "tests"))
    except OSError:
        pass
    for pid in ids:
        env2 = dict(env, VERIF_REPO=wt)
        rc, o = sh("./check %s --tier quick" % pid, cwd=VERIF, env=env2)
        lines = [l for l in o.split("\n") if l.startswith("VIOLATION") or l.startswith("KNOWN-FINDING")]
        info = {"exit": rc, "lines": [l[:300] for l in lines[:4]]}
        vlines = [l for l in lines if l.startswith("VIOLATION")]      # a KNOWN-FINDING line may come first
        if vlines:
            m = re.search(r"replay=(\S+)", vlines[0])
            if m and os.path.exists(m.group(1)):
                rp = json.load(open(m.group(1)))
                info["replay_reason"] = rp.get("reason")
                info["replay_case"] = str(rp.get("case", rp.get("what", "")))[:300]
                info["replay_oracle"] = str(rp.get("oracle", rp.get("theorem_or_relation", "")))[:400]
        res["checks"][pid] = info
        sh("git checkout evidence/%s.json" % pid, cwd=VERIF)
    sh("git reset --hard -q && git clean -fdq", cwd=wt)
    # remove only THIS worktree's private harness copy (common.harness_dir: work/harness-<sha1 of the worktree path>): several
    # seedtests run side by side in one tree, and `rm -rf work/harness-*` deleted the crate another one was building
    # (seen as `harness-build-failed` in seeded/C01-8)
    import hashlib
    tag = hashlib.sha1(os.path.realpath(wt).encode()).hexdigest()[:10]
    sh("rm -rf work/harness-%s work/srctables-%s" % (tag, tag), cwd=VERIF)
    dst = os.path.join(VERIF, "seeded", name)
    os.makedirs(dst, exist_ok=True)
    for f in ("patch.diff", "seeded_demo.rs"):
        shutil.copy(os.path.join(out, f), os.path.join(dst, f))
    meta = json.load(open(os.path.join(out, "meta.json")))
    meta["confirmed_by_builder"] = {k: res[k] for k in ("demo_on_clean", "patch_applies", "suite_with_patch", "demo_with_patch")}
    meta["check_results"] = res["checks"]
    meta["caught"] = any(v["exit"] != 0 for v in res["checks"].values())
    json.dump(meta, open(os.path.join(dst, "meta.json"), "w"), indent=1)
    print(json.dumps({"name": name, "confirmed": meta["confirmed_by_builder"], "checks": res["checks"]}, indent=1))


if __name__ == "__main__":
    main()
