# C03: allocate / deallocate / truncate relocate every annotation consistently.
from common import PropertyCheck, Case
import pyarchive

MAXU = (1 << 64) - 1
STRS = ["B41", "B4242", "B", "B82a0"]   # "A", "BB", "", hiragana A (Shift-JIS)


def rnd_build(rng, size):
    """annotate an archive of `size` bytes (cell-aligned annotations, some labels on odd addresses / the end)"""
    ops = []
    if size:
        ops.append(("aae", [str(size)]))
        ops.append(("wb", ["0", "B" + bytes(rng.getrandbits(8) for _ in range(size)).hex()]))
    cells = list(range(0, size - 3, 4))
    rng.shuffle(cells)
    for c in cells:
        r = rng.random()
        if r < 0.25:
            ops.append(("ws", [str(c), rng.choice(STRS)]))
        elif r < 0.5:
            ops.append(("wp", [str(c), str(rng.choice([0, size, rng.randint(0, size), 4 * rng.randint(0, size // 4)]))]))
        elif r < 0.7:
            ops.append(("wc", [str(c), rng.choice(["B43", "B4343", "B41"])]))
    for _ in range(rng.randint(0, 4)):
        ops.append(("wl", [str(rng.choice([size, rng.randint(0, size), 4 * rng.randint(0, size // 4)])), rng.choice(["B4c", "B4c32", "B41"])]))
    return ops


def rnd_op(rng, size):
    r = rng.random()
    a = rng.choice([rng.randint(0, size + 8), 4 * rng.randint(0, size // 4 + 2)])
    n = rng.choice([rng.randint(0, 16), 4 * rng.randint(0, 4)])
    ge = str(rng.randint(0, 1))
    if r < 0.25:
        return ("al", [str(a), str(n), ge])
    if r < 0.5:
        return ("de", [str(a), str(n), ge])
    if r < 0.6:
        return ("tr", [str(rng.choice([a, 4 * (a // 4)]))])
    if r < 0.66:
        return ("aae", [str(rng.choice([0, 1, 4, 8]))])
    if r < 0.72:
        return rng.choice([("Wseek", [str(a)]), ("Wal", [str(n), ge])])
    if r < 0.78:
        return ("ws", [str(4 * (a // 4)), rng.choice(STRS)])
    if r < 0.84:
        return ("wp", [str(4 * (a // 4)), str(rng.randint(0, size + 4))])
    if r < 0.9:
        return ("wl", [str(a), "B4c"])
    if r < 0.94:
        return ("wc", [str(4 * (a // 4)), "B43"])
    return rng.choice([("ds", [str(a)]), ("dp", [str(a)]), ("dls", [str(a)]), ("dl", [str(a), "0"]), ("wu32", [str(a), "305419896"])])


# pointer targets are caller-supplied usize values (write_pointer validates only the cell): the relocation arithmetic on them
# must be exact on the whole range - around 2^31 and 2^32 (a signed or 32-bit intermediate), 2^63 (isize), 2^64 (usize)
HUGE_TARGETS = ([MAXU - k for k in range(0, 13)] + [(1 << 63) + d for d in (-8, -4, -1, 0, 1, 4, 8)] +
                [(1 << 32) + d for d in (-16, -12, -8, -4, -1, 0, 1, 4, 8, 12, 16)] +
                [(1 << 31) + d for d in (-16, -12, -8, -4, -1, 0, 1, 4, 8, 12, 16)] + [MAXU - 16, MAXU - 20, MAXU - 64])
HUGE_AMOUNTS = [MAXU - 3, MAXU - 7, MAXU - 11, MAXU - 15, MAXU - 19, (1 << 63), (1 << 63) + 4, (1 << 63) - 4, (1 << 63) - 8, (1 << 63) - 12,
                (1 << 63) - 16, MAXU, MAXU - 1, MAXU - 2, (1 << 63) - 1, (1 << 63) - 3]


def safe_amount(rng, size, pool):
    """an allocate amount the library can serve or must reject: small, or so large that the new size exceeds isize::MAX
    (an ACCEPTED huge amount would make the library allocate it: resource exhaustion, outside the property)"""
    n = rng.choice(pool)
    if n > 64 and size + n <= pyarchive.ISIZE_MAX:
        n = pyarchive.ISIZE_MAX + 1 - size + 4 * rng.randint(0, 3) + rng.choice([0, 0, 0, 1])
    return n


def usize_target_cases(rng, tier):
    cases = []
    # one or two huge targets x every insertion point x small amounts around the distance to 2^64, both ge, then a second insertion
    for e in "LB":
        for t in HUGE_TARGETS:
            for a in (0, 4, 8, 16, 3, 20):
                for n in (0, 4, 8, 12, 16):
                    for ge in "01":
                        if tier == "quick" and (a, n, ge) not in ((0, 4, "0"), (8, 4, "1"), (4, 8, "0"), (16, 12, "1"), (0, 16, "0"), (3, 4, "0"), (20, 4, "1"), (8, 0, "1")):
                            continue
                        pre = [("aae", ["16"]), ("wp", ["0", str(t)]), ("wp", ["8", "8"]), ("wp", ["12", str(rng.choice(HUGE_TARGETS))]), ("wl", ["8", "B4c"])]
                        post = [("al", ["0", "4", ge]), ("rp", ["4"]), ("de", ["0", "4", ge]), ("tr", ["8"])]
                        cases.append(Case(pyarchive.render_case(e, 2, pre + [("al", [str(a), str(n), ge])] + post), "usize-targets"))
            # deallocate in front of / on the pointer cells: surviving targets move back by exactly n
            for a in (0, 4, 8):
                for n in (4, 8, 12):
                    for ge in "01":
                        if tier == "quick" and (a, n, ge) not in ((0, 4, "0"), (4, 4, "1"), (0, 8, "1"), (4, 8, "0"), (8, 4, "0"), (0, 12, "1")):
                            continue
                        pre = [("aae", ["16"]), ("wp", ["12", str(t)]), ("wp", ["8", str(rng.choice(HUGE_TARGETS))]), ("wp", ["4", str(a)]), ("wl", ["8", "B4c"])]
                        cases.append(Case(pyarchive.render_case(e, 2, pre + [("de", [str(a), str(n), ge]), ("al", ["0", "4", ge]), ("rp", ["4"])]), "usize-targets"))
        # amounts up to usize::MAX - 3: rejected before anything changes, whatever the address, with and without huge targets
        for n in HUGE_AMOUNTS:
            for a in (0, 4, 16, 2, 20, MAXU - 3):
                for ge in "01":
                    for pre in ([], [("aae", ["16"])], [("aae", ["16"]), ("wp", ["4", str(MAXU - 1)]), ("ws", ["8", "B41"]), ("wl", ["16", "B45"]), ("wc", ["12", "B43"])]):
                        size = 16 if pre else 0
                        if n > 64 and size + n <= pyarchive.ISIZE_MAX:
                            continue   # would be accepted: the library would have to allocate it
                        cases.append(Case(pyarchive.render_case(e, 2, pre + [("al", [str(a), str(n), ge]), ("al", ["0", "4", ge])]), "usize-targets"))
                        if pre and a < 16:   # at the end the writer appends byte by byte (allocate_at_end): not with a huge amount
                            cases.append(Case(pyarchive.render_case(e, 2, pre + [("Wseek", [str(a)]), ("Wal", [str(n), ge])]), "usize-targets"))
    # random histories over archives whose pointers carry arbitrary usize targets
    nh, maxlen = (150, 10) if tier == "quick" else (1500, 40)
    for _ in range(nh):
        e = rng.choice("LB")
        r = pyarchive.Ref(e)
        size0 = 4 * rng.randint(1, 6)
        ops = [("aae", [str(size0)])]
        r.apply("aae", [str(size0)])
        for _ in range(rng.randint(2, maxlen)):
            size = len(r.d)
            x = rng.random()
            cell = str(4 * rng.randint(0, max(size // 4, 1)))
            if x < 0.3:
                t = rng.choice([rng.choice(HUGE_TARGETS), MAXU - rng.randint(0, 40), rng.randint(0, size + 4), 4 * rng.randint(0, size // 4)])
                op = ("wp", [cell, str(t)])
            elif x < 0.65:
                n = safe_amount(rng, size, [0, 4, 4, 8, 12, 16, 20, 32, 2, 7] + HUGE_AMOUNTS)
                op = ("al", [rng.choice([cell, cell, str(rng.randint(0, size + 4))]), str(n), str(rng.randint(0, 1))])
            elif x < 0.75:
                op = ("de", [cell, str(rng.choice([0, 4, 4, 8, MAXU - 3])), str(rng.randint(0, 1))])
            elif x < 0.8:
                op = ("tr", [cell])
            elif x < 0.85:
                op = ("wl", [str(rng.randint(0, size)), "B4c"])
            elif x < 0.9:
                op = rng.choice([("ws", [cell, "B41"]), ("wc", [cell, "B43"])])
            elif x < 0.95:
                op = ("Wseek", [cell])
            else:
                # writer allocate: at the end it appends (small amounts only), elsewhere it is allocate at the cursor
                n = rng.choice([0, 4, 8]) if r.wpos == size else safe_amount(rng, size, [4, 8, 12] + HUGE_AMOUNTS)
                op = ("Wal", [str(n), str(rng.randint(0, 1))])
            ops.append(op)
            r.apply(op[0], op[1])
        cases.append(Case(pyarchive.render_case(e, 2, ops), "usize-targets"))
    return cases


def same_writer_cases(rng, tier):
    """ONE BinArchiveWriter serves a whole run of consecutive writer operations (harness/src/k_ba.rs); `fresh` ends the run.  A writer
    that remembers anything about the archive (its size, seeded change C03-8) goes wrong only when the SAME object appends and
    then allocates again: at the old end (now an interior address with bytes and annotations behind it), at the real end (also of
    unaligned size), repeatedly.  Every history is generated in both regimes (with and without `fresh` between the two steps)."""
    cases = []
    for e in "LB":
        for size in (4, 8, 12, 10):
            for n in (2, 4, 8):
                for m in (4, 8):
                    for ge in "01":
                        pre = [("aae", [str(size)]), ("ws", ["0", "B4e414d45"]), ("wl", [str(size), "B45"])]
                        if size >= 8:
                            pre += [("wp", ["4", str(size)])]
                        fill = [("Wseek", [str(size)]), ("Wwb", ["B" + "ab" * n]), ("Wwl", ["B46"])]     # bytes + a label in/behind the appended block
                        if tier == "quick" and (n, m) in ((8, 8), (2, 8)):
                            continue
                        for sep in ([], [("fresh", [])]):
                            w = [("Wseek", [str(size)]), ("Waae", [str(n)])]
                            # insert at the OLD end with the same writer
                            cases.append(Case(pyarchive.render_case(e, 2, pre + w + fill + sep + [("Wseek", [str(size)]), ("Wal", [str(m), ge]), ("Wwu8", ["7"]), ("Wws", ["B42"])]), "same-writer"))
                            # append again at the REAL end (size + n may be unaligned: appending is always accepted)
                            cases.append(Case(pyarchive.render_case(e, 2, pre + w + sep + [("Wseek", [str(size + n)]), ("Wal", [str(m), ge]), ("Wal", [str(m), ge])]), "same-writer"))
                            # writer allocate at the end, then at the new end, then back at the first end
                            cases.append(Case(pyarchive.render_case(e, 2, pre + [("Wseek", [str(size)]), ("Wal", [str(n), ge])] + sep +
                                                                    [("Wseek", [str(size + n)]), ("Wal", [str(m), ge]), ("Wseek", [str(size)]), ("Wal", [str(m), ge])]), "same-writer"))
                            # insert in the middle, then append at the new end / write into the moved tail
                            if size >= 8:
                                cases.append(Case(pyarchive.render_case(e, 2, pre + [("Wseek", ["4"]), ("Wal", [str(m), ge])] + sep +
                                                                        [("Wseek", [str(size + m)]), ("Wal", [str(n), ge]), ("Wseek", [str(size)]), ("Wwu32", ["305419896"])]), "same-writer"))
    # random writer-heavy histories: long runs on one object, now and then a positional call or `fresh`
    nh, maxlen = (200, 14) if tier == "quick" else (2000, 50)
    for _ in range(nh):
        e = rng.choice("LB")
        r = pyarchive.Ref(e)
        size0 = rng.choice([0, 4, 8, 10, 12, 16])
        ops = [("aae", [str(size0)])] if size0 else []
        for op in ops:
            r.apply(op[0], op[1])
        for _ in range(rng.randint(3, maxlen)):
            size = len(r.d)
            x = rng.random()
            pos = rng.choice([size, r.wpos, 4 * rng.randint(0, max(size // 4, 0)), rng.randint(0, size + 2)])
            if x < 0.25:
                op = ("Wseek", [str(pos)])
            elif x < 0.4:
                op = ("Waae", [str(rng.choice([1, 2, 4, 4, 8]))])
            elif x < 0.6:
                op = ("Wal", [str(rng.choice([4, 4, 8, 2, 0])), str(rng.randint(0, 1))])
            elif x < 0.7:
                op = rng.choice([("Wwu8", ["9"]), ("Wwu32", ["16909060"]), ("Wwb", ["Ba1a2a3"]), ("Wwu16", ["513"])])
            elif x < 0.8:
                op = rng.choice([("Wws", ["B41"]), ("Wwl", ["B4c"]), ("Wwp", [str(rng.randint(0, size + 4))]), ("Wwc", ["B43"])])
            elif x < 0.88:
                op = ("fresh", [])
            elif x < 0.94:
                op = rng.choice([("aae", [str(rng.choice([2, 4]))]), ("tr", [str(4 * rng.randint(0, size // 4 + 1))]), ("al", [str(4 * rng.randint(0, size // 4)), "4", "1"])])
            else:
                op = ("de", [str(4 * rng.randint(0, max(size // 4, 0))), "4", str(rng.randint(0, 1))])
            ops.append(op)
            r.apply(op[0], op[1])
        cases.append(Case(pyarchive.render_case(e, 2, ops), "same-writer"))
    return cases


class C03(PropertyCheck):
    pid = "C03"
    release_too = True
    rule = ("exhaustive single operation: every archive layout from a family (<= 4 cells, one annotation of each kind at every position) x "
            "every allocate/deallocate/truncate argument (addresses 0..size+8, sizes 0..16 incl. misaligned and out of range, both ge); "
            "random histories of the nine operations (<= 12 steps quick, <= 60 thorough) on randomly annotated archives; a stream with "
            "addresses/sizes near usize::MAX; a stream with pointer targets in {2^64-1-k}, {2^63+d}, {2^32+d} x insertion points x amounts "
            "around the distance to 2^64 and allocate amounts up to usize::MAX-3 (all of which must be rejected with the archive "
            "unchanged), single operations and random histories; a stream of writer runs served by ONE BinArchiveWriter object (append then "
            "allocate again at the old end / the real end / repeatedly, each also with a fresh writer in between) and writer-heavy random "
            "histories; the full observable state incl. the serialize image and the re-parsed c-strings is compared "
            "after EVERY operation. Non-trivial = the case contains an accepted relocation of an archive that has at least one annotation; "
            "distinct = distinct case line.")
    assumptions = ["HashMap iteration order is unobservable in the compared state (everything printed sorted)",
                   "ACCEPTED huge allocate amounts (new size <= isize::MAX but beyond available memory: resource exhaustion) are outside the "
                   "property and not generated; amounts whose new size exceeds isize::MAX must be rejected and are generated"]

    def generate(self, rng, tier):
        cases = []
        # exhaustive single op on small annotated archives
        for e in "LB":
            for ncell in range(0, 5):
                size = 4 * ncell
                layouts = []
                for pos in range(0, ncell):
                    c = str(4 * pos)
                    layouts.append([("ws", [c, "B41"])])
                    layouts.append([("wp", [c, str(size)]), ("wp", [str(4 * ((pos + 1) % max(ncell, 1))), c])] if ncell > 1 else [("wp", [c, c])])
                    layouts.append([("wc", [c, "B43"])])
                    layouts.append([("wl", [c, "B4c"]), ("wl", [str(size), "B45"])])
                if not layouts:
                    layouts = [[("wl", ["0", "B45"])]]
                for lay in layouts:
                    pre = ([("aae", [str(size)])] if size else []) + lay
                    for a in range(0, size + 9):
                        for ge in "01":
                            for n in range(0, 17):
                                if n % 4 != 0 and (a % 2 == 1 or n % 2 == 0) and tier == "quick":
                                    continue
                                cases.append(Case(pyarchive.render_case(e, 2, pre + [("al", [str(a), str(n), ge])]), "exhaustive-allocate"))
                                cases.append(Case(pyarchive.render_case(e, 2, pre + [("de", [str(a), str(n), ge])]), "exhaustive-deallocate"))
                        cases.append(Case(pyarchive.render_case(e, 2, pre + [("tr", [str(a)])]), "exhaustive-truncate"))
        # near usize::MAX
        for e in "LB":
            for a in (0, 4, 8, MAXU - 3, MAXU - 7, MAXU):
                for n in (MAXU - 3, MAXU - 7, MAXU, MAXU - 11, (1 << 63), (1 << 63) - 4):
                    pre = [("aae", ["16"]), ("ws", ["4", "B41"]), ("wl", ["16", "B45"]), ("wc", ["8", "B43"])]
                    cases.append(Case(pyarchive.render_case(e, 2, pre + [("de", [str(a), str(n), "0"])]), "usize-max"))
                    if a > 16:
                        cases.append(Case(pyarchive.render_case(e, 2, pre + [("al", [str(a), "4", "1"]), ("tr", [str(a)])]), "usize-max"))
        # pointer targets that leave usize when relocated, new sizes that are not a vector length (finding F24)
        cases += usize_target_cases(rng, tier)
        # long-lived writer objects (append, then allocate again with the SAME writer)
        cases += same_writer_cases(rng, tier)
        # random histories
        nh, maxlen = (250, 12) if tier == "quick" else (2500, 60)
        for _ in range(nh):
            e = rng.choice("LB")
            size = 4 * rng.randint(0, 10) + rng.choice([0, 0, 0, 1, 2])
            ops = rnd_build(rng, size)
            cur = size
            for _ in range(rng.randint(1, maxlen)):
                ops.append(rnd_op(rng, cur))
            cases.append(Case(pyarchive.render_case(e, 2, ops), "random-history"))
        return cases

    def nontrivial(self, case, impl_out):
        steps = impl_out.split(" ; ")
        e, level, ops = pyarchive.parse_case(case.line)
        for (op, _), st in zip(ops, steps):
            if op in ("al", "de", "tr", "Wal", "Waae") and st.startswith("ok") and ("t=[]" not in st or "p=[]" not in st or "l=[]" not in st or "rc=[]" not in st):
                return True
        return False

    def oracle(self, case, impl_out, profile):
        return pyarchive.judge(case.line, impl_out)

    def agree(self, case, impl_out, model_out, profile):
        return impl_out == pyarchive.mask_lossy(impl_out, model_out)

    def shrink_candidates(self, case):
        e, level, ops = pyarchive.parse_case(case.line)
        for i in range(len(ops) - 1, -1, -1):
            yield Case(pyarchive.render_case(e, level, ops[:i] + ops[i + 1:]), case.stream)


TB = ("Trusted: Coq 8.16.1 kernel (vm_compute, no native_compute), no axioms (Print Assumptions audited on every run), "
      "ExtrOcamlBasic extraction + hand-written OCaml driver, the Rust harness and Python generators/oracles. ")

MANIFEST = dict(
    text="Theorems about an executable Gallina model of allocate / deallocate / truncate / allocate_at_end / writer allocate: accept-iff "
         "conditions (insert: range, alignment and REPRESENTABILITY - new size <= isize::MAX and every pointer target that moves stays "
         "below 2^64, the check of fix 0edd128 / finding F24; remove: range and alignment for arguments below 2^64), every other request "
         "rejected with one of two error kinds, never a panic; a second model of allocate in MACHINE arithmetic (add_w 64, checked and "
         "wrapping profile, on EVERY key and target) in the statement order of the code that returns the archive the caller is left with is "
         "proved equal to the functional one for both profiles on archives whose keys are <= size - an invariant proved for ALL histories "
         "of API calls, aligned or not (C03_keys_invariant) - so 'rejected and the archive unchanged' is a theorem that fails for the code "
         "before the fix (Example: panic after the splice / wrapped target) -, relocated targets and keys are usize values again, "
         "deallocate's usize subtractions are exact (operands >= addr + n); exact relocation through the maps kappa (strings, pointer cells, pending c-string "
         "cells) and tau (labels, pointer targets; inclusive iff ge) with DOMAIN EQUALITIES - every key of the new maps is the image of an "
         "old key, nothing lost or invented - and duplicate-free key lists stay duplicate-free (no two annotations merged), removal of "
         "exactly the annotations in a deallocated range and the pointers into it, truncation removing everything at or beyond the cut, "
         "appending accepted whenever the new size is a vector length (size + n <= 2^63 - 1, stated hypothesis), and an invariant over all "
         "histories of cell-aligned operations (every annotated cell lies inside the data) by induction over the operation list. "
         "Model tied to /repo on every run: extracted model vs real library on exhaustive single operations over a layout family, random "
         "histories, usize::MAX arguments, and a stream of pointer targets around 2^31 / 2^32 / 2^63 / 2^64 with insert amounts up to "
         "usize::MAX - 3 (allocate and deallocate, both ge), full state incl. serialize image and re-parsed c-strings after every step "
         "(also after every REJECTED step), debug and release; runs of writer operations are served by ONE BinArchiveWriter object (stream "
         "same-writer: append, then allocate again with the same writer), also with a fresh writer per operation; independent Python "
         "reference written from the property text as oracle.",
    note=TB + "Modelled, not verified: HashMap (association lists, order unobservable), Vec::splice/drain (A-std). Insert/append amounts that are "
              "ACCEPTED (new size <= isize::MAX) but exceed available memory abort the process in the allocator: resource exhaustion, outside "
              "the property, not generated; above isize::MAX allocate rejects (proved, tested) while allocate_at_end never returns (hypothesis "
              "of C03_append_always). The extracted (compared) allocate is the functional one with plain sums; the machine-arithmetic model is tied to it by "
              "proof (C03_allocate_steps_agree), not by extraction. Annotation keys (cells, label addresses) are <= size in every reachable "
              "archive (C03_keys_invariant); pointer targets are arbitrary usize values. 'Unchanged on rejection' for deallocate/truncate is by the "
              "outcome type (all checks precede the first mutation in the code, the later arithmetic is proved exact) and tied by leg K. "
              "Strings are Shift-JIS encoded bytes (A-codec).",
    technique="Coq proof (injectivity of the relocation maps, map/filter lemmas on association lists, refinement of a machine-arithmetic step model, induction over histories) + extracted-model differential check",
    ref="DESIGN.md section 2 (C03)")
