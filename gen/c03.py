# C03: allocate / deallocate / truncate relocate every annotation consistently.
from common import PropertyCheck, Case
import pyarchive

MAXU = (1 << 64) - 1
STRS = ["B41", "B4242", "B", "B82a0"]   # "A", "BB", "", hiragana A (Shift-JIS)


def rnd_build(rng, size):
    """annotate an archive of `size` bytes (cell-aligned annotations, some labels on odd addresses / the end)"""
    ops = []
    if size:
        ops.append(("aae", [str(size)]))
        ops.append(("wb", ["0", "B" + bytes(rng.getrandbits(8) for _ in range(size)).hex()]))
    cells = list(range(0, size - 3, 4))
    rng.shuffle(cells)
    for c in cells:
        r = rng.random()
        if r < 0.25:
            ops.append(("ws", [str(c), rng.choice(STRS)]))
        elif r < 0.5:
            ops.append(("wp", [str(c), str(rng.choice([0, size, rng.randint(0, size), 4 * rng.randint(0, size // 4)]))]))
        elif r < 0.7:
            ops.append(("wc", [str(c), rng.choice(["B43", "B4343", "B41"])]))
    for _ in range(rng.randint(0, 4)):
        ops.append(("wl", [str(rng.choice([size, rng.randint(0, size), 4 * rng.randint(0, size // 4)])), rng.choice(["B4c", "B4c32", "B41"])]))
    return ops


def rnd_op(rng, size):
    r = rng.random()
    a = rng.choice([rng.randint(0, size + 8), 4 * rng.randint(0, size // 4 + 2)])
    n = rng.choice([rng.randint(0, 16), 4 * rng.randint(0, 4)])
    ge = str(rng.randint(0, 1))
    if r < 0.25:
        return ("al", [str(a), str(n), ge])
    if r < 0.5:
        return ("de", [str(a), str(n), ge])
    if r < 0.6:
        return ("tr", [str(rng.choice([a, 4 * (a // 4)]))])
    if r < 0.66:
        return ("aae", [str(rng.choice([0, 1, 4, 8]))])
    if r < 0.72:
        return rng.choice([("Wseek", [str(a)]), ("Wal", [str(n), ge])])
    if r < 0.78:
        return ("ws", [str(4 * (a // 4)), rng.choice(STRS)])
    if r < 0.84:
        return ("wp", [str(4 * (a // 4)), str(rng.randint(0, size + 4))])
    if r < 0.9:
        return ("wl", [str(a), "B4c"])
    if r < 0.94:
        return ("wc", [str(4 * (a // 4)), "B43"])
    return rng.choice([("ds", [str(a)]), ("dp", [str(a)]), ("dls", [str(a)]), ("dl", [str(a), "0"]), ("wu32", [str(a), "305419896"])])


class C03(PropertyCheck):
    pid = "C03"
    release_too = True
    rule = ("exhaustive single operation: every archive layout from a family (<= 4 cells, one annotation of each kind at every position) x "
            "every allocate/deallocate/truncate argument (addresses 0..size+8, sizes 0..16 incl. misaligned and out of range, both ge); "
            "random histories of the nine operations (<= 12 steps quick, <= 60 thorough) on randomly annotated archives; a stream with "
            "addresses/sizes near usize::MAX; the full observable state incl. the serialize image and the re-parsed c-strings is compared "
            "after EVERY operation. Non-trivial = the case contains an accepted relocation of an archive that has at least one annotation; "
            "distinct = distinct case line.")
    assumptions = ["HashMap iteration order is unobservable in the compared state (everything printed sorted)",
                   "huge allocate amounts (resource exhaustion) are outside the property and not generated"]

    def generate(self, rng, tier):
        cases = []
        # exhaustive single op on small annotated archives
        for e in "LB":
            for ncell in range(0, 5):
                size = 4 * ncell
                layouts = []
                for pos in range(0, ncell):
                    c = str(4 * pos)
                    layouts.append([("ws", [c, "B41"])])
                    layouts.append([("wp", [c, str(size)]), ("wp", [str(4 * ((pos + 1) % max(ncell, 1))), c])] if ncell > 1 else [("wp", [c, c])])
                    layouts.append([("wc", [c, "B43"])])
                    layouts.append([("wl", [c, "B4c"]), ("wl", [str(size), "B45"])])
                if not layouts:
                    layouts = [[("wl", ["0", "B45"])]]
                for lay in layouts:
                    pre = ([("aae", [str(size)])] if size else []) + lay
                    for a in range(0, size + 9):
                        for ge in "01":
                            for n in range(0, 17):
                                if n % 4 != 0 and (a % 2 == 1 or n % 2 == 0) and tier == "quick":
                                    continue
                                cases.append(Case(pyarchive.render_case(e, 2, pre + [("al", [str(a), str(n), ge])]), "exhaustive-allocate"))
                                cases.append(Case(pyarchive.render_case(e, 2, pre + [("de", [str(a), str(n), ge])]), "exhaustive-deallocate"))
                        cases.append(Case(pyarchive.render_case(e, 2, pre + [("tr", [str(a)])]), "exhaustive-truncate"))
        # near usize::MAX
        for e in "LB":
            for a in (0, 4, 8, MAXU - 3, MAXU - 7, MAXU):
                for n in (MAXU - 3, MAXU - 7, MAXU, MAXU - 11, (1 << 63), (1 << 63) - 4):
                    pre = [("aae", ["16"]), ("ws", ["4", "B41"]), ("wl", ["16", "B45"]), ("wc", ["8", "B43"])]
                    cases.append(Case(pyarchive.render_case(e, 2, pre + [("de", [str(a), str(n), "0"])]), "usize-max"))
                    if a > 16:
                        cases.append(Case(pyarchive.render_case(e, 2, pre + [("al", [str(a), "4", "1"]), ("tr", [str(a)])]), "usize-max"))
        # random histories
        nh, maxlen = (250, 12) if tier == "quick" else (2500, 60)
        for _ in range(nh):
            e = rng.choice("LB")
            size = 4 * rng.randint(0, 10) + rng.choice([0, 0, 0, 1, 2])
            ops = rnd_build(rng, size)
            cur = size
            for _ in range(rng.randint(1, maxlen)):
                ops.append(rnd_op(rng, cur))
            cases.append(Case(pyarchive.render_case(e, 2, ops), "random-history"))
        return cases

    def nontrivial(self, case, impl_out):
        steps = impl_out.split(" ; ")
        e, level, ops = pyarchive.parse_case(case.line)
        for (op, _), st in zip(ops, steps):
            if op in ("al", "de", "tr", "Wal") and st.startswith("ok") and ("t=[]" not in st or "p=[]" not in st or "l=[]" not in st or "rc=[]" not in st):
                return True
        return False

    def oracle(self, case, impl_out, profile):
        return pyarchive.judge(case.line, impl_out)

    def agree(self, case, impl_out, model_out, profile):
        return impl_out == pyarchive.mask_lossy(impl_out, model_out)

    def shrink_candidates(self, case):
        e, level, ops = pyarchive.parse_case(case.line)
        for i in range(len(ops) - 1, -1, -1):
            yield Case(pyarchive.render_case(e, level, ops[:i] + ops[i + 1:]), case.stream)


TB = ("Trusted: Coq 8.16.1 kernel (vm_compute, no native_compute), no axioms (Print Assumptions audited on every run), "
      "ExtrOcamlBasic extraction + hand-written OCaml driver, the Rust harness and Python generators/oracles. ")

MANIFEST = dict(
    text="Theorems about an executable Gallina model of allocate / deallocate / truncate / allocate_at_end / writer allocate: accept-iff "
         "conditions (range and alignment, all arguments below 2^64, never a panic), exact relocation through the maps kappa (strings, "
         "pointer cells, pending c-string cells) and tau (labels, pointer targets; inclusive iff ge) with DOMAIN EQUALITIES - every key of the "
         "new maps is the image of an old key, nothing lost or invented -, removal of exactly the annotations in a deallocated range and the "
         "pointers into it, truncation removing everything at or beyond the cut, appending always accepted, and an invariant over all "
         "histories of cell-aligned operations (every annotated cell lies inside the data) by induction over the operation list. "
         "Model tied to /repo on every run: extracted model vs real library on exhaustive single operations over a layout family, random "
         "histories and usize::MAX arguments, full state incl. serialize image and re-parsed c-strings after every step, debug and release; "
         "independent Python reference written from the property text as oracle.",
    note=TB + "Modelled, not verified: HashMap (association lists, order unobservable), Vec::splice/drain (A-std). Huge allocation amounts "
              "(resource exhaustion) are outside the property. Strings are Shift-JIS encoded bytes (A-codec).",
    technique="Coq proof (injectivity of the relocation maps, map/filter lemmas on association lists, induction over histories) + extracted-model differential check",
    ref="DESIGN.md section 2 (C03)")
