# C05: archive-family parsers are total on arbitrary bytes.  Assembles the per-family modules
# (batotal, packtotal, txttotal, recstotal - whichever are present) that share one interface.
import importlib
from common import PropertyCheck, Case

MODULES = []
for name in ("batotal", "packtotal", "txttotal", "recstotal"):
    try:
        MODULES.append(importlib.import_module(name))
    except ImportError:
        pass


class C05(PropertyCheck):
    pid = "C05"
    source_tables = ["BIN_HEADER", "ARC_LABELS", "ARC_HEADER_PAD", "PACK_CONSTS", "ASet", "AssetBin"]   # tables / constants regenerated from /repo's source (gen/srctables.py)
    release_too = True
    rule = ("per parser family (bin archive both endiannesses; pack; text archive; arc; aset; asset binary): "
            "random bytes (half of them behind a plausible header), every truncation of valid generated and game files, every header / "
            "table field replaced by boundary values {0,1,size-1,size,size+1,0x7FFFFFFF,0x80000000,0xFFFFFFF0..0xFFFFFFFF}, pairs of "
            "fields whose u32 sums wrap, bit flips; both build profiles; outcome category and parsed value compared with the extracted "
            "model, largest single allocation request measured by a counting allocator, accepted inputs re-serialized. Non-trivial = "
            "input long enough to pass the first header check; distinct = distinct case line.")
    assumptions = ["process aborts / hangs are detected by the runner (ABORT / TIMEOUT), stack depth and wall time are not modelled",
                   "strings decoded lossily from malformed bytes are compared through the same encoding_rs call (A-codec)",
                   "allocation bound: requests driven by entries actually read (hash-map growth) may reach a constant multiple "
                   "of the input (64x + 4 KiB allowed); field-driven requests are bounded by the input (theorems)"]

    def _mod(self, case):
        for m in MODULES:
            for k in getattr(m, "KINDS", ()):
                if case.line.startswith(k + " "):
                    return m
        # fall back on the kind prefix conventions
        if case.line.startswith("bafrom "):
            return importlib.import_module("batotal")
        if case.line.startswith("pack"):
            return importlib.import_module("packtotal")
        return None

    def generate(self, rng, tier):
        cases = []
        for m in MODULES:
            cases += m.total_cases(rng, tier)
        return cases

    def nontrivial(self, case, impl_out):
        m = self._mod(case)
        return m.total_nontrivial(case, impl_out) if m else True

    def oracle(self, case, impl_out, profile):
        m = self._mod(case)
        if m is None:
            return None
        return m.total_oracle(case, impl_out, profile)

    def agree(self, case, impl_out, model_out, profile):
        m = self._mod(case)
        if m is None:
            return impl_out == model_out
        return m.total_agree(case, impl_out, model_out, profile)

    def shrink_candidates(self, case):
        m = self._mod(case)
        if m is not None and hasattr(m, "total_shrink"):
            yield from m.total_shrink(case)


TB = ("Trusted: Coq 8.16.1 kernel (vm_compute, no native_compute), no axioms (Print Assumptions audited on every run), "
      "ExtrOcamlBasic extraction + hand-written OCaml driver, the Rust harness and Python generators/oracles. ")

MANIFEST = dict(
    text="Theorems about machine-level Gallina models (outcome monad with Panic, both arithmetic modes) of the parsers of the archive family "
         "(all six: bin archive both endiannesses, pack, text archive both formats, arc, aset, asset binary - 58 theorems and 4 examples in "
         "Properties/C05.v): for ALL byte strings the parser never panics and the loop fuel is never exhausted (termination); the field-sized "
         "allocation requests are bounded by the input length for EVERY input, also when the parse fails afterwards (bin archive: the "
         "data.resize request is logged on every path, C05_bin_allocs_bounded; pack: every entry buffer; text / arc / aset / asset readers make no "
         "field-sized allocation - constant-size buffers or one element per iteration that consumed at least 4 / 8 bytes); headers, table entries, "
         "counts and sizes that declare more than the buffer holds yield Err (bin header, pointer entry, label address and name offset; pack count and "
         "entry size; arc Count; the header theorem carried to the text / arc / aset / asset entry points); every accepted value re-serializes "
         "without panic. Models tied to /repo on every run: outcome category and parsed value compared on random bytes and structure-aware "
         "mutations/truncations of valid files in debug (checked) and release (wrapping) builds; a counting allocator measures the largest single "
         "request of every parser kind; the runner detects aborts and hangs (a case without output for 240 s, thorough 900 s, is killed and reported "
         "as TIMEOUT: non-termination is a verdict, not a hung check); well-formed packs with more than 4096 entries and data regions cut inside "
         "the last record with consistent headers are part of the streams; a failing call of every parser family precedes every case (state "
         "left behind by a rejected input must not leak).",
    note=TB + "Modelled, not verified: Cursor/Read semantics, Vec/HashMap/IndexMap growth (A-std); real allocator behaviour, stack depth "
              "and time are observed by the harness only. A-usize: usize sums that the code performs without a width check (text_start + offset + "
              "0x20, pointer_value + 0x20, reader position += w) are unbounded in the models: exact for a 64-bit usize; a 32-bit target is outside "
              "these theorems; the mode parameter covers the u32/u64 arithmetic done at a fixed width. Not stated as a rejection: a string pointer "
              "whose VALUE lies beyond the file (it is an UnterminatedString error in code and model; covered by no-panic and the correspondence).",
    technique="Coq proof (every checked operation is dominated by a guard: induction over the table loops in the outcome monad) + extracted-model differential check in both build profiles + counting allocator",
    ref="DESIGN.md section 2 (C05)")
