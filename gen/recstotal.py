# Animation-set and asset-binary part of C05 (parsers are total on arbitrary bytes, checked and wrapping builds alike):
# case generator, oracle and correspondence relation for the kinds `aset p` / `asset p`, importable by gen/c05.py.
#
#   KINDS                                             case kinds this module owns
#   total_cases(rng, tier)                            -> list of common.Case (streams "aset-..." / "asset-...")
#   total_oracle(case, impl_out, profile)             -> None | text  (outcome must be Ok or Err; accepted => re-serialized without panic)
#   total_agree(case, impl_out, model_out, profile)   -> bool         (outcome category + parsed value + re-serialized bytes)
#   total_nontrivial(case, impl_out)                  -> bool
#   total_shrink(case)                                -> candidates
#   LEMMAS                                            the Coq theorems behind it (Proofs/RecsTotal.v)
#
# Self test:  python3 gen/recstotal.py [quick|thorough]   runs the cases through both harness profiles and the driver.
import os
import struct
import sys

from common import Case
import recsfmt as R
from recsfmt import B, unB

KINDS = ("aset", "asset")
TESTDIR = "/repo/resources/test"

LEMMAS = [
    "RecsTotal.ASetT.from_archive_no_panic : forall a k, ASet.from_archive a <> Panic k",
    "RecsTotal.ASetT.from_archive_fuel_never_exhausted : forall a, ASet.from_archive a <> Err EOutOfFuel",
    "RecsTotal.ASetT.read_set_advances : read_set a p = Ok (s, p') -> p + 4 <= p' <= size a /\\ length s = 257",
    "RecsTotal.ASetT.from_archive_wf : from_archive a = Ok v -> wf_aset v",
    "RecsTotal.ASetT.parse_no_panic / parse_fuel_never_exhausted : every byte string",
    "RecsTotal.ASetT.reserialize_no_panic : parse f = Ok v -> serialize m v <> Panic k   (both modes)",
    "RecsTotal.AssetT.from_archive_no_panic / from_archive_fuel_never_exhausted / from_archive_ok_iff (Ok <-> 4 <= size)",
    "RecsTotal.AssetT.from_stream_advances : from_stream a p = Ok (sp, p') -> p + 8 <= p' <= size a",
    "RecsTotal.AssetT.parse_no_panic / parse_fuel_never_exhausted : every byte string",
    "RecsTotal.AssetT.serialize_no_panic : forall m b k, serialize m b <> Panic k   (every value, both modes)",
]

BOUNDARY = [0, 1, 0x7FFFFFFF, 0x80000000] + list(range(0xFFFFFFF0, 0x100000000))
BAD = ("PANIC", "ABORT", "TIMEOUT", "MISSING-OUTPUT")
LABELS = [R.ACNT, b"set", b"", b"AnimClipNameTable2", b"\x83\x4c", b"x", b"y", b"lab"]


def kind_of(case):
    return case.line.split(" ", 1)[0]


# ----------------------------------------------------------------------------- inputs
def random_bytes(rng, n):
    return bytes(rng.getrandbits(8) for _ in range(n))


def structured_aset(rng):
    """a container that parses, around garbage: the table label somewhere, random flag words, random string cells"""
    style = rng.random()
    if style < 0.5:
        # room for the table: the set loop walks random words
        t = rng.choice([0, 4, 12, 12, 16, rng.randrange(0, 40)])
        n = t + 1028 + rng.choice([0, 1, 3, 4, 5, 8, 12, rng.randrange(0, 160), rng.randrange(0, 600)])
    else:
        n = rng.choice([0, 3, 4, 8, 11, 12, rng.randrange(0, 64), rng.randrange(1000, 1100)])
        t = rng.choice([0, 12, n, max(n - 4, 0), rng.randrange(0, n + 1)])
    dens = rng.choice([0.0, 0.02, 0.3, 1.0])
    data = bytearray(n)
    for i in range(0, n - 3, 4):
        r = rng.random()
        if r < dens:
            w = rng.getrandbits(32)
        elif r < dens + 0.2:
            w = rng.choice([0, 1, 2, 0x80, 0xFF, 0x100, 0x80000000, 0xFFFFFFFF, 1 << rng.randrange(32)])
        else:
            w = 0
        data[i:i + 4] = struct.pack("<I", w)
    for i in range(n - n % 4, n):
        data[i] = rng.getrandbits(8)
    labels = []
    if rng.random() < 0.9:
        labels.append((min(t, n), R.ACNT))
    for _ in range(rng.choice([0, 0, 1, 3])):
        labels.append((rng.choice([rng.randrange(0, n + 1), 4 * rng.randrange(0, n // 4 + 1)]), rng.choice(LABELS)))
    strings = {}
    if n >= 4:
        for _ in range(rng.choice([0, 1, 4, 40])):
            strings[4 * rng.randrange(n // 4)] = rng.choice([b"a", b"", b"\x95\x5c", b"clip", b"\xee\x6f", b"\x81", b"a\xffb"])
    return R.write_archive(bytes(data), strings, labels)


def structured_asset(rng):
    n = rng.choice([0, 1, 3, 4, 5, 8, 11, 12, 16, rng.randrange(0, 64), rng.randrange(0, 300)])
    dens = rng.choice([0.0, 0.1, 0.5, 1.0])
    data = bytearray(rng.getrandbits(8) if rng.random() < dens else rng.choice([0, 0, 0, 1, 0xFF]) for _ in range(n))
    strings = {}
    if n >= 4:
        for _ in range(rng.choice([0, 1, 4, 20])):
            strings[rng.choice([4 * rng.randrange(n // 4), rng.randrange(0, n - 3)])] = rng.choice([b"a", b"", b"\x95\x5c", b"uBody", b"\xee\x6f", b"\x81", b"a\xffb"])
    labels = [(rng.randrange(0, n + 1), b"L")] if rng.random() < 0.2 else []
    return R.write_archive(bytes(data), strings, labels)


def sample_aset_files(rng, k):
    out = []
    for _ in range(k):
        sets = []
        for _ in range(rng.choice([0, 1, 2, 3])):
            dens = rng.choice([0.0, 0.02, 0.3, 1.0])
            s = [rng.choice([None, b"lab", b""])] + [None] * 256
            gmask = rng.getrandbits(8)
            for i in range(1, 257):
                if (gmask >> ((i - 1) // 32)) & 1 and rng.random() < dens:
                    s[i] = rng.choice([b"c", b"", b"clip%d" % i])
            sets.append(s)
        table = [b"t%d" % i if rng.random() < 0.1 else None for i in range(257)]
        out.append(R.encode_aset_image(rng.choice([None, b"meta"]), table, sets))
    return out


def sample_asset_files(rng, k):
    out = []
    for _ in range(k):
        specs = []
        for _ in range(rng.choice([0, 1, 2, 4])):
            sp = R.empty_spec()
            dens = rng.choice([0.0, 0.1, 0.6, 1.0])
            if rng.random() < 0.7:
                sp["name"] = b"n"
            for i in range(R.N_STRS):
                if rng.random() < dens:
                    sp["strs"][i] = rng.choice([b"s", b"", b"uHead_00"])
            for j in range(R.N_TYPED):
                if rng.random() < dens:
                    sp["typed"][j] = (True, rng.getrandbits(32))
            specs.append(sp)
        out.append(R.encode_asset_image(rng.getrandbits(32), specs, force_long=rng.random() < 0.2))
    return out


def fields_of(f, data_words, max_tables=48):
    """(offset, what) of the u32 fields of a little-endian bin-archive image"""
    out = [(0, "file_size"), (4, "data_size"), (8, "pointer_count"), (12, "label_count")]
    if len(f) < 0x20:
        return out
    _, dsz, pc, lc = struct.unpack("<IIII", f[:16])
    base = 0x20 + dsz
    for i in range(min(pc, max_tables)):
        out.append((base + 4 * i, "pointer"))
    for i in range(min(lc, max_tables)):
        out.append((base + 4 * pc + 8 * i, "label_address"))
        out.append((base + 4 * pc + 8 * i + 4, "label_name"))
    for o in data_words:
        out.append((0x20 + o, "data_word"))
    return [(o, w) for (o, w) in out if o + 4 <= len(f)]


def mutations(rng, f, quick, data_words, cut_step, max_tables=48, nvals=5):
    out = []
    for cut in range(0, len(f), cut_step):
        out.append(("truncate", f[:cut]))
    dsz = struct.unpack("<I", f[4:8])[0] if len(f) >= 8 else 0
    sizes = sorted(set(x & 0xFFFFFFFF for s in (dsz, len(f)) for x in (s - 1, s, s + 1)))
    for (o, what) in fields_of(f, data_words, max_tables):
        vals = BOUNDARY + sizes + [1 << b for b in (2, 8, 31)]
        if quick:
            vals = rng.sample(vals, nvals) + [0xFFFFFFF0, 0xFFFFFFFF]
        for v in vals:
            g = bytearray(f)
            g[o:o + 4] = struct.pack("<I", v)
            out.append(("field-" + what, bytes(g)))
    for (d, p, l) in ((0xFFFFFFF0, 4, 0), (0xFFFFFFFC, 1, 0), (0, 0x40000000, 0), (0, 0, 0x20000000), (0xFFFFFFF8, 0, 1),
                      (dsz, 0x40000000, 0), (dsz, 0, 0x20000000), (0xFFFFFFFF, 0xFFFFFFFF, 0xFFFFFFFF)):
        g = bytearray(f)
        if len(g) >= 16:
            g[4:16] = struct.pack("<III", d, p, l)
            out.append(("wrapping-pair", bytes(g)))
    for _ in range(8 if quick else 60):
        if f:
            g = bytearray(f)
            i = rng.randrange(len(g))
            g[i] ^= 1 << rng.randrange(8)
            out.append(("byte-flip", bytes(g)))
    return out


def aset_words(f, rng, k):
    """data offsets worth planting values in: header words, first table cells, everything behind the table (flag words, slots)"""
    p = R.parse_archive(f)
    if p is None:
        return []
    hits = [a for (a, n) in p.labels if n == R.ACNT]
    t = hits[0] if hits else 12
    tail = list(range(t + 1028, len(p.data) - 3, 4))
    if len(tail) > k:
        tail = tail[:k // 2] + rng.sample(tail[k // 2:], k // 2)
    return [0, 4, 8, t, t + 4, t + 1024] + tail


def asset_words(f, rng, k):
    p = R.parse_archive(f)
    if p is None:
        return []
    ws = list(range(0, len(p.data) - 3, 4))
    return ws if len(ws) <= k else ws[:k // 2] + rng.sample(ws[k // 2:], k // 2)


def data_cuts(f, window):
    """the image with its DATA REGION cut to every length inside the last `window` bytes - also lengths = 1, 2, 3 (mod 4) - and all
    header fields (file size, data size, pointer and label tables) kept consistent, so that BinArchive::from_bytes accepts the file
    and it is the record reader that runs into the end of the data (seed C05-9: read_f32 validating 2 bytes instead of 4)"""
    p = R.parse_archive(f)
    if p is None:
        return []
    raw = bytearray(p.data)
    for c in p.strings:
        raw[c:c + 4] = bytes(4)
    out = []
    n = len(raw)
    for cut in range(max(0, n - window), n):
        strings = {c: s for c, s in p.strings.items() if c + 4 <= cut}
        labels = [(a, nm) for (a, nm) in p.labels if a <= cut]
        out.append(R.write_archive(bytes(raw[:cut]), strings, labels))
    return out


def tail_specs(rng):
    """asset binaries whose LAST record ends with each field type: every typed field (colour = 4 x u8, f32, u32) alone and behind
    other fields, a base string, an extended string, the name cell only (short and long form)"""
    files = []
    for j in range(R.N_TYPED):
        for before in ([], [0, 5], [31, 32]):
            sp = R.empty_spec()
            sp["name"] = b"n"
            for i in before:
                sp["strs"][i] = b"s"
            if before and j > 0:
                sp["typed"][j - 1] = (True, 0x01020304)
            sp["typed"][j] = (True, rng.choice([0x3F800000, 0xFFFFFFFF, 0x7FA00001, 1]))
            first = R.empty_spec()
            first["name"] = b"first"
            files.append(R.encode_asset_image(rng.getrandbits(32), [first, sp] if rng.random() < 0.5 else [sp]))
    for strs in ([], [3], [30], [31], [32], [0, 32]):
        sp = R.empty_spec()
        sp["name"] = rng.choice([None, b"n"])
        for i in strs:
            sp["strs"][i] = b"tail"
        files.append(R.encode_asset_image(0, [sp], force_long=bool(strs) and rng.random() < 0.3))
    return files


def total_cases(rng, tier):
    quick = tier == "quick"
    cases = []

    def add(kind, b, stream):
        # mode q = mode p + the largest single allocation request made during the parse (counting allocator of the harness)
        cases.append(Case("%s q %s" % (kind, B(b)), "%s-%s" % (kind, stream)))

    # hand-made edge cases
    for kind in KINDS:
        add(kind, b"", "edge")
        add(kind, bytes(0x20), "edge")                                             # empty archive
        add(kind, R.write_archive(bytes(3)), "edge")
        add(kind, R.write_archive(bytes(4)), "edge")
    add("aset", R.write_archive(bytes(12), labels=[(12, R.ACNT)]), "edge")           # table label at the end of the data
    add("aset", R.write_archive(bytes(1040), labels=[(12, R.ACNT)]), "edge")         # header + table, no set
    add("aset", R.write_archive(bytes(1043), labels=[(12, R.ACNT)]), "edge")         # 3 stray bytes behind the table
    add("aset", R.write_archive(bytes(1040) + b"\xff\xff\xff\xff", labels=[(12, R.ACNT)]), "edge")   # all groups announced, none there
    add("aset", R.write_archive(bytes(1040) + struct.pack("<II", 1, 0xFFFFFFFF) + bytes(4 * 31), labels=[(12, R.ACNT)]), "edge")
    add("aset", R.write_archive(bytes(1044), labels=[(12, R.ACNT), (1040, R.ACNT)]), "edge")   # ambiguous table label
    add("asset", R.write_archive(bytes(4) + b"\x01" + bytes(6)), "edge")              # long form announced, 7 flag bytes missing one
    add("asset", R.write_archive(bytes(4) + b"\x01" + bytes(3) + b"\xff\xff\xff\x00" + bytes(4)), "edge")   # every extended field announced
    add("asset", R.write_archive(bytes(4) + b"\xfe\xff\xff\xff" + bytes(4 * 8)), "edge")   # short form, every base string announced
    add("asset", R.write_archive(bytes(4) + b"\x01\x00\x00\x00\x04\x00\x00" + bytes(4) + b"\x01\x02"), "edge")   # colour cut after 2 bytes
    # (a) random bytes
    for kind in KINDS:
        for _ in range(150 if quick else 2000):
            n = rng.choice([0, 1, 31, 32, 33, rng.randint(0, 64), rng.randint(0, 512)])
            add(kind, random_bytes(rng, n), "random-bytes")
    # (b) random content behind a valid container
    for _ in range(300 if quick else 4000):
        add("aset", structured_aset(rng), "structured-random")
    for _ in range(400 if quick else 4000):
        add("asset", structured_asset(rng), "structured-random")
    # (c) truncations and field mutations of valid generated files and of the game files
    for f in sample_aset_files(rng, 3 if quick else 12):
        step = max(1, len(f) // (60 if quick else 600))
        for (what, g) in mutations(rng, f, quick, aset_words(f, rng, 10 if quick else 80), step):
            add("aset", g, what)
    for f in sample_asset_files(rng, 4 if quick else 16):
        step = 1 if (not quick or len(f) < 120) else 3
        for (what, g) in mutations(rng, f, quick, asset_words(f, rng, 12 if quick else 100), step):
            add("asset", g, what)
    # (d) the data region cut inside the last record, headers consistent (every length mod 4, every field type at the tail)
    for f in tail_specs(rng):
        for g in data_cuts(f, 14 if quick else 40):
            add("asset", g, "data-cut")
    for f in sample_aset_files(rng, 2 if quick else 10):
        for g in data_cuts(f, 14 if quick else 60):
            add("aset", g, "data-cut")
    pa = os.path.join(TESTDIR, "FE14Aset_Test.bin")
    if os.path.exists(pa):
        f = open(pa, "rb").read()
        add("aset", f, "gamefile")
        # the model's list-based from_bytes is quadratic in the file size (14 KiB: 0.1 s per case): a sample only
        for (what, g) in mutations(rng, f, True, aset_words(f, rng, 6 if quick else 30), 2999 if quick else 211,
                                   max_tables=2 if quick else 12, nvals=1 if quick else 5):
            add("aset", g, "game-" + what)
    pb = os.path.join(TESTDIR, "AssetBinary_Test.bin")
    if os.path.exists(pb):
        f = open(pb, "rb").read()
        add("asset", f, "gamefile")
        for (what, g) in mutations(rng, f, quick, asset_words(f, rng, 16 if quick else 200), 13 if quick else 1):
            add("asset", g, "game-" + what)
    # the runner splits the list into contiguous shards: spread the expensive cases (14 KiB game file in the list-based model)
    rng.shuffle(cases)
    return cases


# ----------------------------------------------------------------------------- oracle, correspondence
def total_oracle(case, impl_out, profile):
    """the property's own words: the entry point returns Ok or Err - no panic, overflow, abort, hang; anything accepted
    is re-serialized by the harness, which must not panic either (a serialization error is an Err, hence allowed)"""
    if impl_out in BAD or impl_out.startswith("UNKNOWN"):
        return "%s build: %s" % (profile, impl_out)
    if " maxalloc=" in impl_out:
        # "no single buffer larger than a small constant multiple of the input is ever requested on the strength of such a field"
        impl_out, mxs = impl_out.rsplit(" maxalloc=", 1)
        n = len(unB(case.line.split(" ")[2]))
        if int(mxs) > 64 * n + 4096:
            return "%s build: a single allocation request of %s bytes for an input of %d bytes" % (profile, mxs, n)
    out = impl_out[4:] if impl_out.startswith("amb ") else impl_out
    if out == "re=err":
        return None
    if out.startswith("re=ok:") and " | ser2=" in out:
        ser2 = out.rsplit(" | ser2=", 1)[1]
        if ser2 == "err" or ser2.startswith("B"):
            return None
        return "re-serialization: " + ser2[:60]
    return "unexpected output " + impl_out[:60]


_norm_cache = {}


def _ascii_token(t):
    b = unB(t)
    return all(0 < x < 0x80 for x in b)


def normalise_strings(tokens):
    """map raw Shift-JIS byte tokens (B..) of the model to what the harness prints for the string the library decodes
    from them (decode with encoding_rs, lossy; re-encode): harness kind sjisnorm.  ASCII is the identity."""
    import subprocess
    import common
    todo = [t for t in set(tokens) if t not in _norm_cache and not _ascii_token(t)]
    for i in range(0, len(todo), 200):
        chunk = todo[i:i + 200]
        p = subprocess.run([common.harness_bin(False)], input=("sjisnorm " + " ".join(chunk) + "\n").encode(),
                           stdout=subprocess.PIPE, stderr=subprocess.DEVNULL, env=common.ENV)
        res = p.stdout.decode().strip().split(" ")
        if len(res) != len(chunk):
            res = chunk
        for t, r in zip(chunk, res):
            _norm_cache[t] = r
    return [t if _ascii_token(t) else _norm_cache[t] for t in tokens]


def _split_value(out):
    """'re=ok:<value tokens> | ser2=<..>' -> (value tokens, ser2)"""
    head, ser2 = out.rsplit(" | ser2=", 1)
    return head[len("re=ok:"):].split(" "), ser2


def total_agree(case, impl_out, model_out, profile):
    if " maxalloc=" in impl_out:
        impl_out = impl_out.rsplit(" maxalloc=", 1)[0]
    if impl_out == model_out:
        return True
    if impl_out.startswith("amb ") and model_out.startswith("amb "):
        impl_out, model_out = impl_out[4:], model_out[4:]
    if impl_out.startswith("re=ok:") and model_out.startswith("re=ok:") and " | ser2=" in impl_out and " | ser2=" in model_out:
        # strings that are not canonical Shift-JIS (mutated files, random bytes): the model carries the raw bytes, the
        # library the decoded string (A-codec); compare through the library's own codec call.  The re-serialization is
        # then not comparable: the re-encoded strings have other bytes, and a string holding U+FFFD (undecodable input)
        # makes the library's serialize return an encoding error - an Err, which the oracle allows, never a panic
        iv, iser = _split_value(impl_out)
        mv, mser = _split_value(model_out)
        if len(iv) != len(mv):
            return False
        normed = normalise_strings([t for t in mv if t.startswith("B")])
        it = iter(normed)
        mv2 = [next(it) if t.startswith("B") else t for t in mv]
        if mv2 == mv:
            return False          # every string canonical: the lines had to be equal
        return iv == mv2
    # (the table label on two addresses, prefix "amb": since fix 10408e9 the lookup returns the lowest address on both sides)
    return impl_out == model_out


def total_nontrivial(case, impl_out):
    """the layered reader was reached with something to read, or the container was rejected for a planted field"""
    st = case.stream.split("-", 1)[1]
    return "re=ok" in impl_out or st.startswith(("field", "wrapping", "structured", "game-field", "game-wrapping", "data-cut"))


def total_shrink(case):
    toks = case.line.split(" ")
    if len(toks) != 3 or toks[1] not in ("p", "q"):
        return
    f = unB(toks[2])
    for cut in (len(f) // 2, len(f) - 4, len(f) - 1):
        if 0 <= cut < len(f):
            yield Case("%s %s %s" % (toks[0], toks[1], B(f[:cut])), case.stream)
    p = R.parse_archive(f)
    if p is not None and len(p.data) >= 4:
        # drop the last word of the data region, keep the tables
        d = bytes(p.data[:len(p.data) - 4])
        strings = {c: s for c, s in p.strings.items() if c + 4 <= len(d)}
        labels = [(a, n) for (a, n) in p.labels if a <= len(d)]
        for c in strings:
            pass
        raw = bytearray(d)
        for c in strings:
            raw[c:c + 4] = bytes(4)
        yield Case("%s %s %s" % (toks[0], toks[1], B(R.write_archive(bytes(raw), strings, labels))), case.stream)


# ----------------------------------------------------------------------------- self test
def main():
    import random
    import common
    tier = sys.argv[1] if len(sys.argv) > 1 else "quick"
    rng = random.Random(int(os.environ.get("VERIF_SEED", "1")))
    cs = total_cases(rng, tier)
    lines = [c.line for c in cs]
    wd = os.path.join(common.WORK, "recstotal")
    os.makedirs(wd, exist_ok=True)
    model = common.run_tool(common.driver_bin(), lines, wd, "model")
    bad = 0
    dist = {}
    for prof in ("debug", "release"):
        impl = common.run_tool(common.harness_bin(prof == "release"), lines, wd, "impl-" + prof)
        for c, i, m in zip(cs, impl, model):
            if prof == "debug":
                key = (c.stream, i.split(":")[0][:10])
                dist[key] = dist.get(key, 0) + 1
            f = total_oracle(c, i, prof)
            if f:
                bad += 1
                print("ORACLE", prof, f, c.stream, c.line[:200])
            if not total_agree(c, i, m, prof):
                bad += 1
                print("DIFF", prof, c.stream, c.line[:300], "\n  impl ", i[:300], "\n  model", m[:300])
    for k in sorted(dist):
        print("%-40s %-12s %d" % (k[0], k[1], dist[k]))
    print("cases", len(cs), "distinct", len(set(lines)), "nontrivial", sum(1 for c, i in zip(cs, impl) if total_nontrivial(c, i)), "bad", bad)
    return 1 if bad else 0


if __name__ == "__main__":
    sys.exit(main())
