# C08: LZ10 compression emits a valid stream that expands to the input.
from lzcommon import (LZCheckMixin, PropertyCheck, Case, Bad, compress_inputs, parse_compress_out, parse_hex, hexb,
                      strict_parse, expand, shrink_bytes, shrink_ptok, case_data_token)


class C08(LZCheckMixin, PropertyCheck):
    pid = "C08"
    source_tables = ["LZ10_CONSTS", "LZ_DECODE_CONSTS"]   # tables / constants regenerated from /repo's source (gen/srctables.py)
    release_too = True
    rule = ("streams: all strings over 2 and 3 letters up to a length bound; every length of a run / period-2 / period-19 input; "
            "long runs around 4096; structured random inputs (runs, periods around the window edge, Thue-Morse, Fibonacci, incompressible, "
            "length-form boundaries, blocks repeated at distance 4093..4099, self-copying, near-periodic) <= 6 KiB against the extracted model "
            "and larger ones (quick <= 64 KiB, thorough <= 1 MiB; repeats of 65536..140000 bytes) against the oracle only; a slice of the family through "
            "the enum CompressionFormat; pairs of same-length inputs with equal FxHash64 compressed one after the other (kind lz10p: prelude + input); the 16 MiB boundary: 2^24-1 and 2^24-2 bytes (compact P<len>:<pattern> inputs, implementation + oracle). Non-trivial = the emitted stream contains a "
            "back-reference; distinct = distinct input.")
    assumptions = ["A-std: Vec, slices and integer casts behave as documented",
                   "machine-level model (C08_compress_succeeds): out_buffer's filled prefix as a list, i32 token-byte expressions without overflow checks (values <= 0x1000)"]

    def generate(self, rng, tier):
        return compress_inputs(rng, tier, "lz10c", lambda n: "1")

    def nontrivial(self, case, impl_out):
        cat, c, _ = parse_compress_out(impl_out)
        if cat != "ok":
            return False
        try:
            _, _, toks = strict_parse(c, 10)
        except Bad:
            return False
        return any(not isinstance(t, int) for t in toks)

    def oracle(self, case, impl_out, profile):
        data = parse_hex(case_data_token(case.line))
        cat, c, rt = parse_compress_out(impl_out)
        if len(data) >= 1 << 24:
            # outside the property's first sentence; F21: the 24-bit size field cannot store the length, so the only
            # acceptable results are an error, or a stream that really decodes to the input
            if cat == "err" or (cat == "ok" and rt == "rt:same"):
                return None
            return "input of %d bytes (>= 16 MiB): neither rejected nor a stream that decodes to the input: %s %s" % (len(data), cat, rt)
        if cat != "ok":
            return "LZ10 compression did not succeed: %s" % impl_out[:80]
        try:
            ver, size, toks = strict_parse(c, 10)
        except Bad as e:
            return "LZ10 output is not a well-formed stream: %s" % e
        if size != len(data):
            return "LZ10 header announces %d bytes for an input of %d" % (size, len(data))
        if expand(toks) != data:
            return "independent decoder: the stream does not expand to the input"
        if rt != "rt:same":
            return "the library's own decompressor does not return the input: %s" % (rt or "")[:80]
        return None

    def shrink_candidates(self, case):
        parts = case.line.split(" ")
        if len(parts) > 3:
            return                  # prelude + input (collision siblings): the pair is the case, not shrunk
        if parts[2][0] == "P" or "+" in parts[2]:
            for t in shrink_ptok(parts[2]):
                yield Case("%s 0 %s" % (parts[0], t), case.stream)
            return
        for d in shrink_bytes(parse_hex(parts[2])):
            yield Case("%s %s %s" % (parts[0], "1" if len(d) <= 6000 else parts[1], hexb(d)), case.stream)


TB = ("Trusted: Coq 8.16.1 kernel (vm_compute, no native_compute), no axioms (Print Assumptions audited on every run), "
      "ExtrOcamlBasic extraction + hand-written OCaml driver, the Rust harness and Python generators/oracles. ")

MANIFEST = dict(
    text="Theorems (Coq 8.16, closed under the global context) about executable Gallina models of LZ10CompressionFormat::compress (get_occurrence_length, the greedy loop with window min(pos,0x1000) and look-ahead 0x12, the flag/token emission loop, header and token bytes with the shift/mask expressions of src/lz10.rs) and of the library's decoder (lz13::decompress_lz as it is after the repair of F14): for EVERY byte string shorter than 2^24 the output is accepted completely by a strict LZ10 parser written from the format description (type 0x10, 24-bit LE size = input length, flag groups of eight tokens MSB first, references of length 3-18 and displacement 1-4096 reaching only into produced data, exact size, no byte left over) and its tokens expand to the input; the library's decompressor returns the input in the checked and the wrapping profile, also through the enum CompressionFormat; the greedy token sequence expands to the input for every input (overlapping copies included). 'Compression succeeds' is a theorem too: a machine-level model of compress (the size guard of F21, get_occurrence_length and the loop of lz10.rs with checked slice indexing, usize arithmetic in a profile, the 17-byte out_buffer array) returns Ok of exactly the list model's output for every input shorter than 2^24 bytes in either profile, returns Err(InputTooLarge) from 2^24 bytes on (before the repair of F21 such an input was written with a truncated size), and equals the exported list model compress10_o on EVERY input; whatever compress returns Ok for is read back by the library's decompressor (no size hypothesis). The models are tied to /repo on every run: extracted model vs real library byte-for-byte on bounded-exhaustive small alphabets, every run length 0..299 (thorough 0..699; period-2 / period-19 inputs at every third length), structured inputs <= 6 KiB, both build profiles; larger inputs (quick 64 KiB + repeats up to 140000 bytes, thorough 1 MiB) and the 16 MiB boundary (2^24-1, 2^24-2 bytes succeed; 2^24 and 2^24+5 bytes are rejected by model and implementation alike) with compact P<len>:<pattern> inputs; an independent Python strict parser/expander judges every implementation output.",
    note=TB + 'Modelled, not verified (A-std): Vec, slices, integer casts, 64-bit usize. In the machine-level model the filled prefix of out_buffer is a list and the i32 token-byte expressions are evaluated without overflow checks (values <= 0x1000). Inputs of 16 MiB and more are rejected (F21). notes/lz.md lists the mutations of /repo, all reported by the quick check.',
    technique='Coq proof (induction on the greedy loop, parser/encoder inversion, decoder simulation) + extracted-model differential check + independent Python stream parser as oracle',
    ref='DESIGN.md section 4 (C08); notes/lz.md')
