# C08: LZ10 compression emits a valid stream that expands to the input.
from lzcommon import (LZCheckMixin, PropertyCheck, Case, Bad, compress_inputs, parse_compress_out, parse_hex, hexb,
                      strict_parse, expand, shrink_bytes)


class C08(LZCheckMixin, PropertyCheck):
    pid = "C08"
    source_tables = ["LZ10_CONSTS", "LZ_DECODE_CONSTS"]   # tables / constants regenerated from /repo's source (gen/srctables.py)
    release_too = True
    rule = ("streams: all strings over 2 and 3 letters up to a length bound; every length of a run / period-2 / period-19 input; "
            "long runs around 4096; structured random inputs (runs, periods around the window edge, Thue-Morse, Fibonacci, incompressible, "
            "length-form boundaries, blocks repeated at distance 4093..4099, self-copying, near-periodic) <= 6 KiB against the extracted model "
            "and larger ones (quick <= 64 KiB, thorough <= 1 MiB) against the oracle only. Non-trivial = the emitted stream contains a "
            "back-reference; distinct = distinct input.")
    assumptions = ["A-std: Vec, slices and integer casts behave as documented",
                   "index safety of get_occurrence_length / the emission buffer is read off the source, not proved (the correspondence would show a panic)"]

    def generate(self, rng, tier):
        return compress_inputs(rng, tier, "lz10c", lambda n: "1")

    def nontrivial(self, case, impl_out):
        cat, c, _ = parse_compress_out(impl_out)
        if cat != "ok":
            return False
        try:
            _, _, toks = strict_parse(c, 10)
        except Bad:
            return False
        return any(not isinstance(t, int) for t in toks)

    def oracle(self, case, impl_out, profile):
        data = parse_hex(case.line.split(" ")[2])
        if len(data) >= 1 << 24:
            return None
        cat, c, rt = parse_compress_out(impl_out)
        if cat != "ok":
            return "LZ10 compression did not succeed: %s" % impl_out[:80]
        try:
            ver, size, toks = strict_parse(c, 10)
        except Bad as e:
            return "LZ10 output is not a well-formed stream: %s" % e
        if size != len(data):
            return "LZ10 header announces %d bytes for an input of %d" % (size, len(data))
        if expand(toks) != data:
            return "independent decoder: the stream does not expand to the input"
        if rt != "rt:same":
            return "the library's own decompressor does not return the input: %s" % (rt or "")[:80]
        return None

    def shrink_candidates(self, case):
        parts = case.line.split(" ")
        for d in shrink_bytes(parse_hex(parts[2])):
            yield Case("%s %s %s" % (parts[0], "1" if len(d) <= 6000 else parts[1], hexb(d)), case.stream)


TB = ("Trusted: Coq 8.16.1 kernel (vm_compute, no native_compute), no axioms (Print Assumptions audited on every run), "
      "ExtrOcamlBasic extraction + hand-written OCaml driver, the Rust harness and Python generators/oracles. ")

MANIFEST = dict(
    text="(filled in below)",
    note=TB,
    technique="Coq proof (induction on the greedy loop, parser/encoder inversion, decoder simulation) + extracted-model differential check + independent Python stream parser as oracle",
    ref="DESIGN.md section 4 (C08)")
