#!/bin/bash
# runs every registered check in the thorough tier, one after the other (used with `vp run`); prints rc and wall time per check
cd "$(dirname "$0")/.."
./check setup > /tmp/thorough_setup.log 2>&1 || { tail -20 /tmp/thorough_setup.log; exit 1; }
for id in "$@"; do
  s=$(date +%s); ./check $id --tier thorough > /tmp/thorough_$id.log 2>&1; rc=$?
  echo "$id rc=$rc wall=$(( $(date +%s)-s ))s violations=$(grep -c '^VIOLATION' /tmp/thorough_$id.log) known=$(grep -c '^KNOWN-FINDING' /tmp/thorough_$id.log)"
  grep '^VIOLATION' /tmp/thorough_$id.log | head -3
done
