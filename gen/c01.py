# C01: bin archive content survives serialize -> parse, for any conforming layout.
import glob
import itertools
import os
from common import PropertyCheck, Case, REPO
import pyarchive
import barandom


def ref_of_content(c, patched_data=None):
    r = pyarchive.Ref(c.e)
    r.d = bytearray(patched_data if patched_data is not None else c.data)
    r.text = dict(c.text)
    r.ptr = dict(c.ptr)
    r.lab = {k: list(v) for k, v in c.lab.items() if v}
    r.cs = list(c.cs)
    return r


class C01(PropertyCheck):
    pid = "C01"
    source_tables = ["BIN_HEADER"]   # tables / constants regenerated from /repo's source (gen/srctables.py)
    release_too = True       # both build profiles (review 2: the both-modes theorems must be tied to a release build too)
    rule = ("streams: (A) archives built through the public API from random well-formed contents (sizes 0..256 quick / ..16384 thorough, "
            "unaligned lengths, labels on the end address, several labels per address, strings equal to label names, empty strings, "
            "non-ASCII lossless Shift-JIS, c-strings mixed with strings), serialized, parsed back, re-serialized; (B) files produced by an "
            "independent reference writer with layout knobs (permuted pointer table, interleaved label table, strings shared / duplicated / "
            "separated by junk, trailing junk) parsed by the library; (C) the game files in resources/test; (D) exhaustive archives of <= 3 "
            "cells over {none, 2 strings, 2 pointers, c-string} x label sets x both endiannesses; (E) archives with EMPTY label buckets "
            "(write_labels(a, []) / delete_label of the last label), serialized, parsed, and their image parsed with read_labels at the "
            "bucket's address (None after the round trip). Non-trivial = content with at least one "
            "string or c-string and one pointer or label; distinct = distinct case line.")
    assumptions = ["A-codec: strings are Shift-JIS byte lists that encoding_rs round-trips losslessly (table checked by harness kind `sjischk`)",
                   "big-endian label order: the model's sort key of every name is the library's own decoding of it (case-line group K, "
                   "gen/namekeys.py); names are not restricted"]

    def __init__(self):
        self.meta = {}

    def generate(self, rng, tier):
        cases = []
        # (A) API-built
        n, maxsize = (400, 256) if tier == "quick" else (3000, 16384)
        for i in range(n):
            e = rng.choice("LB")
            ms = rng.choice([8, 16, 32, 64, maxsize if i % 10 == 0 else 64])
            c = barandom.random_content(rng, e, max_size=ms)
            ops = barandom.build_ops(rng, c) + [("lvl", ["3"])]
            cases.append(Case(pyarchive.render_case(e, 0, ops), "api-built"))
        # (A2) numeric coincidences between the two offset spaces of the file (see barandom.coincidence_contents)
        for c in barandom.coincidence_contents():
            ops = barandom.build_ops(rng, c, shuffle=False, noise=False) + [("lvl", ["3"])]
            cases.append(Case(pyarchive.render_case(c.e, 0, ops), "offset-coincidence"))
        # (A3) empty label buckets: write_labels(a, vec![]) and delete_label of the last label leave `labels[a] = []`; the bucket
        # has no image in the file (read_labels: Some([]) before, None after the round trip) - the LABELS (all_labels) are the
        # same, which is what is compared (state lists labels through all_labels, i.e. non-empty buckets only)
        for e in "LB":
            for size in (0, 4, 8, 10, 16):
                for a in sorted(set([0, 4 * (size // 8), size])):
                    for other in ([], [("wl", [str(size), "B45"])], [("wl", ["0", "B41"]), ("ws", ["0", "B4142"])] if size >= 4 else [("wl", ["0", "B41"])]):
                        for make in ([("wls", [str(a), "0"])],
                                     [("wl", [str(a), "B4c"]), ("dl", [str(a), "0"])] if a + 4 <= size else [("wl", [str(a), "B4c"]), ("wls", [str(a), "0"])],
                                     [("wls", [str(a), "2", "B4c", "B4d"]), ("dl", [str(a), "1"]), ("dl", [str(a), "0"])] if a + 4 <= size else [("wls", [str(a), "0"]), ("wls", [str(a), "0"])]):
                            pre = ([("aae", [str(size)])] if size else []) + other
                            ops = pre + make + [("rl", [str(a)]), ("lvl", ["3"])]
                            cases.append(Case(pyarchive.render_case(e, 0, ops), "empty-buckets"))
                            # the image, parsed: the bucket is gone (read_labels = None), nothing else changed
                            r = pyarchive.Ref(e)
                            for op, args in pre + make:
                                r.apply(op, args)
                            if r.in_domain():
                                img = r.canonical_image()[0]
                                line = pyarchive.render_case(e, 0, [("from", [barandom.hexb(img)]), ("rl", [str(a)]), ("lvl", ["3"])])
                                cases.append(Case(line, "empty-buckets"))
                                self.meta[line] = ("rl-after", a, size, bool(r.lab.get(a)))
        # (B) knob files
        n = 400 if tier == "quick" else 4000
        for i in range(n):
            e = rng.choice("LB")
            c = barandom.random_content(rng, e, max_size=rng.choice([8, 16, 32, 64]), cstrings=False)
            f, patched = barandom.knob_file(rng, c)
            line = pyarchive.render_case(e, 0, [("from", [barandom.hexb(f)]), ("lvl", ["3"])])
            cs = Case(line, "knob-files")
            r = ref_of_content(c, patched)
            self.meta[cs.line] = (r.state(1), "B" + r.canonical_image()[0].hex() if r.in_domain() else None)
            cases.append(cs)
        # (C) game files
        for path in sorted(glob.glob(os.path.join(REPO, "resources", "test", "*"))):
            if os.path.isfile(path) and os.path.getsize(path) < 200000 and not path.endswith(".lz"):
                f = open(path, "rb").read()
                for e in "LB":
                    line = pyarchive.render_case(e, 0, [("from", [barandom.hexb(f)]), ("lvl", ["3"])])
                    cases.append(Case(line, "game-files"))
        # (D) exhaustive small
        opts = ["-", "sA", "sB", "p0", "pE", "cA"]
        labsets = [[], [(0, b"A")], [("E", b"B")], [(0, b"A"), ("E", b"B")], [(0, b"A"), (0, b"B")], [("E", b"B"), ("E", b"A")], [(0, b"B"), (0, b"A")]]
        for ncell in range(0, 4):
            for combo in itertools.product(opts, repeat=ncell):
                for tail in ((0, 2) if ncell < 3 or tier != "quick" else (0,)):
                    size = 4 * ncell + tail
                    for labs in labsets:
                        for e in "LB":
                            ops = [("aae", [str(size)])] if size else []
                            for i, o in enumerate(combo):
                                c = str(4 * i)
                                if o[0] == "s":
                                    ops.append(("ws", [c, "B41" if o[1] == "A" else "B4242"]))
                                elif o[0] == "p":
                                    ops.append(("wp", [c, "0" if o[1] == "0" else str(size)]))
                                elif o[0] == "c":
                                    ops.append(("wc", [c, "B41"]))
                            for (a, nm) in labs:
                                ops.append(("wl", [str(size if a == "E" else 0), barandom.hexb(nm)]))
                            ops.append(("lvl", ["3"]))
                            cases.append(Case(pyarchive.render_case(e, 0, ops), "exhaustive-small"))
        return cases

    def extra_checks(self, ctx):
        """The 32-bit size guard of serialize (finding F25) cannot be exercised by a case line (a 4 GiB archive); it is read
        from the source the harness was built against: exactly one `if file_size > <u32::MAX> { return Err(..` before the single
        `bytes.resize(` of BinArchive::serialize.  Without it an image of 4 GiB or more is written with truncated header fields
        and parses back as a different archive - the property's first sentence fails on that input."""
        import srctables
        from rustsrc import AnchorError
        try:
            tabs = srctables.x_binheader(REPO)
            lim = list(tabs[0].value)[11]
        except (AnchorError, IndexError) as ex:
            return [("BinArchive::serialize of an archive whose image is 4 GiB or more (e.g. 2^32 - 32 data bytes, no annotation)",
                     "no size guard found before bytes.resize in serialize (%s): the image would be written with its 32-bit size fields "
                     "truncated and parse back as a different archive (finding F25); model: Err (C01_serialize_smallest_rejected)" % str(ex)[:200])], \
                   {"serialize_size_guard": "MISSING"}
        if lim != (1 << 32) - 1:
            return [("BinArchive::serialize size guard", "the guard accepts files up to %d bytes, the format's limit is 2^32 - 1" % lim)], \
                   {"serialize_size_guard": lim}
        return [], {"serialize_size_guard": lim}

    def nontrivial(self, case, impl_out):
        last = impl_out.split(" ; ")[-1]
        return ("t=[]" not in last or "rc=[]" not in last) and ("p=[]" not in last or "l=[]" not in last)

    def oracle(self, case, impl_out, profile):
        if impl_out in ("PANIC", "ABORT", "TIMEOUT", "MISSING-OUTPUT"):
            return "implementation %s" % impl_out
        if case.stream == "empty-buckets" and " from " in case.line:
            # parsed image of an archive with an empty bucket at `a`: read_labels(a) is None (Err outside a 4-byte cell)
            _, a, size, nonempty = self.meta[case.line]
            st = impl_out.split(" ; ")
            want = "err:oob" if a + 4 > size else "ok:none"
            if not st[0].startswith("ok"):
                return "the library rejects the image of an archive with an empty label bucket: %s" % st[0]
            if not nonempty and st[1] != want:
                return "read_labels at the address of an empty bucket after the round trip: want %s got %s" % (want, st[1][:80])
            return None
        if case.stream in ("api-built", "exhaustive-small", "corpus", "empty-buckets", "offset-coincidence"):
            if " from " in case.line:
                return None
            return pyarchive.judge(case.line, impl_out)
        steps = impl_out.split(" ; ")
        d = pyarchive.split_step(steps[-1])
        if case.stream == "knob-files":
            want_state, want_img = self.meta[case.line]
            if not steps[0].startswith("ok"):
                return "the library rejects a conforming file: %s" % steps[0]
            if d["base"] != "ok" + want_state:
                return "content parsed from a conforming file differs: want %s got %s" % (want_state[:300], d["base"][:300])
            if want_img is not None and d["ser"] != want_img:
                return "re-serializing the parsed conforming file does not give the canonical image"
            if d["reser"] not in (None, "same"):
                return "parse/serialize is not idempotent on the canonical image"
            return None
        if case.stream == "game-files":
            if steps[0].startswith("ok") and d["ser"] is not None and d["ser"] != "err":
                if d["reser"] != "same":
                    return "game file: serialize(parse(serialize(parse f))) differs from serialize(parse f)"
            return None
        return None

    def shrink_candidates(self, case):
        if " from " in case.line:
            return
        e, level, ops = pyarchive.parse_case(case.line)
        for i in range(len(ops) - 2, -1, -1):
            if ops[i][0] in ("aae", "wb"):
                continue
            yield Case(pyarchive.render_case(e, level, ops[:i] + ops[i + 1:]), case.stream)


TB = ("Trusted: Coq 8.16.1 kernel (vm_compute, no native_compute), no axioms (Print Assumptions audited on every run), "
      "ExtrOcamlBasic extraction + hand-written OCaml driver, the Rust harness and Python generators/oracles. ")

MANIFEST = dict(
    text="Theorems about executable Gallina models of BinArchive::serialize and from_bytes: the parser recovers the content from EVERY "
         "conforming file (C01_parser_correct: any table order, strings anywhere, shared or duplicated; the format relation is written "
         "independently of both functions). serialize carries the 32-bit guard of fix 524d15f (finding F25): on the property's domain it "
         "succeeds EXACTLY when the image fits the 32-bit sizes of the format and otherwise returns an error in both arithmetic profiles "
         "(C01_serialize_ok_iff_fits, C01_serialize_rejects_large; symbolic boundary C01_serialize_boundary / _largest_accepted / "
         "_smallest_rejected at 2^32 - 1), never panics on any archive (C01_serialize_never_panics), and behind the guard no `as u32` "
         "truncates. Hence the theorems about an image need no size hypothesis: EVERY successful serialize conforms, is well-formed "
         "(header totals exact) and round-trips (C01_serialize_ok_conforms, C01_image_wellformed, C01_round_trip_ok: raw bytes outside "
         "annotated cells, strings, pointers, labels in per-address order, every pending c-string readable, both endiannesses, strings "
         "and c-strings mixed); the closed bound fits32 remains only as the sufficient condition under which an image is promised to "
         "exist (C01_serialize_conforms, C01_round_trip). 'Same size' is proved in the reading that is true of the format: size' = size + "
         "|c-string pool padded to 4|, equal sizes when no c-string is pending (C01_same_size_partial); the literal reading is refuted "
         "with a pending c-string (C01_same_size_full / C01_same_size_refuted: 14 -> 18 bytes). Tied to /repo on every run: the extracted "
         "model is compared byte-for-byte (serialize) and state-for-state (from_bytes) with the real library on API-built archives, on "
         "files from an independent reference writer with layout knobs, on the game files, on an exhaustive small family and on archives "
         "with empty label buckets; an independent Python statement of the format (canonical image, expected re-parsed content) is the "
         "oracle on the implementation's outputs.",
    note=TB + "Domain = wf_archive (at most one annotation per cell, cells inside the data and not overlapping, targets and labels <= size, "
              "NUL-free strings, NON-EMPTY label buckets). Images of 4 GiB or more: REJECTED by serialize (proved about the model); the "
              "rejection branch cannot be exercised by the correspondence - a 4 GiB archive neither fits the case-line protocol nor the "
              "extracted model (a list of 2^32 numbers) - and is tied to the code by a SOURCE-LEVEL check run on every ./check C01 (exactly one "
              "`if file_size > u32::MAX .. { return Err` before the single bytes.resize of serialize, else VIOLATION: reverting the fix is "
              "reported) and by the source-table agreement of the guard constant "
              "(BIN_HEADER entry 11 = u32::MAX, read from `if file_size > u32::MAX as usize` and required to precede bytes.resize; "
              "gen/srctables_selftest.py mutates it) and by reading the seven lines of the fix; the reviewers' probe (notes/review2) is "
              "the executable witness. Outside wf_archive a pointer TARGET or label address >= 2^32 is still written `as u32` (not in the "
              "property's quantifier: targets and labels <= size). Empty buckets are API-buildable (write_labels(a, []), delete_label of "
              "the last label); the format has no image for them: read_labels is Some([]) before and None after the round trip in code and "
              "model (Example C01_example_empty_bucket, stream empty-buckets); the labels (all_labels) are unchanged, which is the reading "
              "of 'the same labels' - that an archive with empty buckets serializes like the one without them is checked by correspondence "
              "and oracle, not proved. No theorem derives wf_archive from API histories (C03_invariant gives only cells-inside-data). "
              "Modelled, not verified: HashMap order (association lists; theorems quantify over permutations), Cursor, Vec (A-std); strings "
              "are Shift-JIS encoded bytes (A-codec); the big-endian label order compares a sort key per name that is a parameter of the model "
              "(every theorem holds for every key function) and is supplied by the library's own decoder on every run.",
    technique="Coq proof (format relation, loop invariants over the pointer and label tables, text-pool invariant) + extracted-model differential check",
    ref="DESIGN.md section 2 (C01)")
