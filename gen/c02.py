# C02: bin archive serialization is canonical, deterministic and byte-stable.
import os
import subprocess
from common import PropertyCheck, Case, harness_bin, ENV
import pyarchive
import barandom


class C02(PropertyCheck):
    pid = "C02"
    release_too = True       # both build profiles (review 2: the both-modes theorems must be tied to a release build too)
    source_tables = ["BIN_HEADER"]   # tables / constants regenerated from /repo's source (gen/srctables.py)
    rule = ("random contents without c-strings (several labels per address, label names equal to strings, equal names at different "
            "addresses, equal buckets at different addresses, big-endian pointer data), each built by 3 differently shuffled API "
            "histories with overwrites and deletes; the serialize image of every history must equal the canonical image computed by an "
            "independent Python writer, and parse -> re-serialize must reproduce it; the whole case file is additionally run in fresh "
            "processes (new hash seeds) and all images compared. Non-trivial = content with >= 2 labelled addresses or >= 2 strings; "
            "distinct = distinct case line.")
    assumptions = ["A-codec (lossless Shift-JIS names); the big-endian label order of the model takes the sort key of every name from the "
                   "library's own decoder (case-line group K, gen/namekeys.py) - no restriction on big-endian names",
                   "std RandomState gives every HashMap instance its own seed: every archive in every process has its own iteration order"]

    def generate(self, rng, tier):
        cases = []
        n = 350 if tier == "quick" else 7000
        for i in range(n):
            e = "B" if i % 2 else "L"
            c = barandom.random_content(rng, e, max_size=rng.choice([8, 16, 32, 64, 128]), cstrings=False)
            # stress: equal buckets at several addresses, names equal to strings
            if rng.random() < 0.5 and len(c.data) >= 8:
                name = rng.choice(barandom.ASCII_STRS[:4] + barandom.ORDER_STRS[:4] + barandom.KANA_STRS[:2] + barandom.SYMBOL_STRS[:4] + [b"L"])
                for a in rng.sample(range(0, len(c.data) + 1), min(3, len(c.data) + 1)):
                    c.lab[a] = [name] if rng.random() < 0.7 else [name, b"Z"]
            for k in range(3):
                ops = barandom.build_ops(rng, c, shuffle=True, noise=(k > 0)) + [("lvl", ["3"])]
                cs = Case(pyarchive.render_case(e, 0, ops), "shuffled-histories")
                cs.meta = {"group": i}
                cases.append(cs)
        # numeric coincidences between the two offset spaces of the file (barandom.coincidence_contents): the canonical image must
        # survive parse -> re-serialize also when a label's name offset equals the value stored in a string cell
        for j, c in enumerate(barandom.coincidence_contents()):
            ops = barandom.build_ops(rng, c, shuffle=True, noise=False) + [("lvl", ["3"])]
            cs = Case(pyarchive.render_case(c.e, 0, ops), "offset-coincidence")
            cs.meta = {"group": n + j}
            cases.append(cs)
        return cases

    def nontrivial(self, case, impl_out):
        last = impl_out.split(" ; ")[-1]
        d = pyarchive.split_step(last)
        return d["base"].count(":B") >= 2

    def oracle(self, case, impl_out, profile):
        return pyarchive.judge(case.line, impl_out)

    def extra_checks(self, ctx):
        """fresh processes: run the same case file again in separate harness processes; every image must be identical"""
        wd = ctx["wd"]
        lines = [l.rstrip("\n") for l in open(os.path.join(wd, "cases.txt")) if l.strip()]
        nproc = 4 if ctx["tier"] == "quick" else 8
        sample = lines[: 600 if ctx["tier"] == "quick" else 6000]
        inp = ("\n".join(sample) + "\n").encode()
        outs = []
        for _ in range(nproc):
            p = subprocess.run([harness_bin(False)], input=inp, stdout=subprocess.PIPE, stderr=subprocess.DEVNULL, env=ENV)
            outs.append(p.stdout.decode().split("\n"))
        viol = []
        images = 0
        for i, line in enumerate(sample):
            vals = set(o[i] if i < len(o) else "MISSING" for o in outs)
            images += 1
            if len(vals) != 1:
                viol.append((line, "serialization differs between fresh processes: %d distinct outputs" % len(vals)))
                if len(viol) >= 3:
                    break
        # same content, different histories: identical bytes (groups of 3 consecutive cases)
        ref = outs[0]
        groups = 0
        for i in range(0, len(sample) - 2, 3):
            sers = set(pyarchive.split_step(ref[j].split(" ; ")[-1])["ser"] for j in (i, i + 1, i + 2) if j < len(ref))
            groups += 1
            if len(sers) != 1:
                viol.append((sample[i], "different API histories of the same content serialize differently"))
                if len(viol) >= 6:
                    break
        return viol, {"fresh_processes": nproc, "images_compared_across_processes": images, "history_groups_compared": groups}

    def shrink_candidates(self, case):
        e, level, ops = pyarchive.parse_case(case.line)
        for i in range(len(ops) - 2, -1, -1):
            if ops[i][0] in ("aae", "wb"):
                continue
            yield Case(pyarchive.render_case(e, level, ops[:i] + ops[i + 1:]), case.stream)


TB = ("Trusted: Coq 8.16.1 kernel (vm_compute, no native_compute), no axioms (Print Assumptions audited on every run), "
      "ExtrOcamlBasic extraction + hand-written OCaml driver, the Rust harness and Python generators/oracles. ")

MANIFEST = dict(
    text="Theorems about the executable Gallina model of BinArchive::serialize: the image does not depend on the iteration order of the four "
         "hash maps (for all permutations of the association lists, by uniqueness of a stable sort on distinct keys; big-endian label order "
         "by name with address tie-break is a total order), hence archives answering every lookup alike - whatever API history or hash "
         "state produced them - serialize to identical bytes (C02_serialize_order_independent, C02_deterministic); the image EQUALS an "
         "independently written canonical image of the content (C02_serialize_is_canonical, for archives without pending c-strings and "
         "WITHOUT a size hypothesis: serialize and the canonical writer both reject a content whose image exceeds the 32-bit sizes of the "
         "format - fix 524d15f, finding F25 - and truncate nothing below; an Example compares both with literal bytes); parsing a file "
         "written by serialize and serializing the result reproduces the file byte for byte in both arithmetic profiles, for EVERY "
         "successful serialize (C02_reserialize_identity, also for any archive answering every lookup like the parsed one), and in the "
         "wording of the property: ANY canonical file - a byte string equal to the canonical image of a well-formed content - parses and "
         "re-serializes to itself (C02_canonical_file_reserializes; a canonical image exists only below 4 GiB). "
         "Model tied to /repo on every run: byte-exact comparison of the extracted model with the real library on shuffled API histories, "
         "an independent Python canonical writer as oracle, images compared across fresh processes, parse -> re-serialize identity.",
    note=TB + "Modelled, not verified: HashMap (association lists in arbitrary order), IndexMap, stable sort_by (A-std); strings are "
              "Shift-JIS encoded bytes (A-codec). Big-endian label order: the library compares names as Strings (scalars of the decoded names); "
              "serialize_k / canonical take that sort key as a parameter kf, the theorems hold for every kf (C02_serialize_is_canonical: kf injective on "
              "the names, or distinct label addresses; C02_example_key_matters is the reviewers' witness) and every run passes the library's own decoding "
              "of every big-endian name to the extracted model (case-line group K) - no restriction on names.",
    technique="Coq proof (sorted permutations of a list with an antisymmetric total order are equal; permutation invariance of serialize) + extracted-model differential check + multi-process determinism run",
    ref="DESIGN.md section 2 (C02)")
