#!/usr/bin/env python3
# Translator: finite tables and constants of /repo's CURRENT source -> coq/Generated/SourceTables.v
# (definitions `src_<NAME>` only; numbers are N, strings lists of scalar values / bytes).
# The agreement of every table with the hand-written Coq models is a proof obligation
# (coq/Proofs/SrcAgree_<Group>.v), see notes/tables.md.   python3 stdlib only.
#   python3 gen/srctables.py            regenerate (only rewritten when the content changes)
#   python3 gen/srctables.py --list     tables, groups, source anchors
import os
import re
import sys

sys.path.insert(0, os.path.dirname(os.path.abspath(__file__)))
from rustsrc import (AnchorError, Src, const_eval, parse_int, parse_float2, parse_str_lit, split_alternatives,  # noqa: E402
                     int_pattern_values, path_tail, expand_enum_match, expand_int_match)

# ----------------------------------------------------------------------------- Coq value printer
# type DSL: 'N' | 'Z' | 'bool' | ('list', t) | ('option', t) | ('prod', t1, ..., tn)


def coq_type(t):
    if isinstance(t, str):
        return t
    if t[0] == "list":
        return "list (%s)" % coq_type(t[1]) if not isinstance(t[1], str) else "list %s" % t[1]
    if t[0] == "option":
        return "option (%s)" % coq_type(t[1])
    if t[0] == "prod":
        return " * ".join("(%s)" % coq_type(x) if not isinstance(x, str) else x for x in t[1:])
    raise ValueError(t)


def coq_val(v, t):
    if t == "N":
        if not isinstance(v, int) or isinstance(v, bool) or v < 0:
            raise AnchorError("value %r is not a natural number" % (v,))
        return str(v)
    if t == "Z":
        if not isinstance(v, int) or isinstance(v, bool):
            raise AnchorError("value %r is not an integer" % (v,))
        return "(%d)%%Z" % v
    if t == "bool":
        return "true" if v else "false"
    if t[0] == "list":
        return "[" + "; ".join(coq_val(x, t[1]) for x in v) + "]"
    if t[0] == "option":
        return "None" if v is None else "(Some %s)" % coq_val(v, t[1])
    if t[0] == "prod":
        if len(v) != len(t) - 1:
            raise AnchorError("tuple %r does not have %d components" % (v, len(t) - 1))
        return "(" + ", ".join(coq_val(x, tt) for x, tt in zip(v, t[1:])) + ")"
    raise ValueError(t)


LN = ("list", "N")
STR = LN


class Table:
    def __init__(self, name, group, typ, value, origin, doc):
        self.name, self.group, self.typ, self.value, self.origin, self.doc = name, group, typ, value, origin, doc

    def coq(self):
        body = coq_val(self.value, self.typ)
        # wrap long lists
        out, line = [], ""
        for tok in re.split(r"(?<=;) ", body):
            if len(line) + len(tok) > 110:
                out.append(line)
                line = "  " + tok
            else:
                line = (line + " " + tok) if line else tok
        out.append(line)
        # the file name only: line numbers move with every unrelated edit and would force a rebuild (they are in the evidence)
        return "(* %s  [%s] *)\nDefinition src_%s : %s :=\n  %s.\n" % (self.doc, self.origin.split(":")[0], self.name,
                                                                       coq_type(self.typ), "\n  ".join(out))


# registry: extractor functions, each returns a list of Table; declared with the names it produces so
# that a failure can be attributed to them
EXTRACTORS = []


def extractor(group, names):
    def deco(f):
        EXTRACTORS.append((group, names, f))
        return f
    return deco


def ascii_name(s):
    return [ord(c) for c in s]


# ============================================================================ group Tile: src/texture_decoder.rs
TD = "src/texture_decoder.rs"


def _u8_array(src, name, n=None):
    s, e, p = src.const_item(name)
    items, _ = src.array_items(s, e)
    vals = [const_eval(x) for x in items]
    if n is not None and len(vals) != n:
        src.fail("%s has %d entries, expected %d" % (name, len(vals), n))
    return vals, src.where(p)


@extractor("Tile", ["TILE_ORDER", "CONVERT_5_TO_8"])
def x_tile_arrays(repo):
    src = Src(repo, TD)
    t, w1 = _u8_array(src, "TILE_ORDER")
    c, w2 = _u8_array(src, "CONVERT_5_TO_8")
    return [Table("TILE_ORDER", "Tile", LN, t, w1, "static TILE_ORDER: position of the pixel-th texel inside an 8x8 tile"),
            Table("CONVERT_5_TO_8", "Tile", LN, c, w2, "static CONVERT_5_TO_8: 5-bit -> 8-bit channel expansion")]


@extractor("Tile", ["BPP2", "BPP2_DEFAULT"])
def x_bpp(repo):
    src = Src(repo, TD)
    body = src.fn_body("get_pixel_format_bpp")
    arms, p = src.match_after(r"pixel_format", body)
    tbl, default = expand_int_match(arms)
    if default is None:
        src.fail("get_pixel_format_bpp: no default arm")
    rows = sorted((k, parse_float2(v)) for k, v in tbl.items())
    return [Table("BPP2", "Tile", ("list", ("prod", "N", "N")), rows, src.where(p),
                  "get_pixel_format_bpp: (pixel format, 2 * bytes per pixel) for every format named by an arm"),
            Table("BPP2_DEFAULT", "Tile", "N", parse_float2(default), src.where(p), "get_pixel_format_bpp: the `_` arm, doubled")]


@extractor("Tile", ["DECODE_DISPATCH", "ETC1_ALPHA_FORMAT"])
def x_dispatch(repo):
    src = Src(repo, TD)
    body = src.fn_body("decode_pixel_data")
    arms, p = src.match_after(r"format", body)
    tbl, default = expand_int_match(arms)
    if default is None or "UnsupportedFormat" not in default:
        src.fail("decode_pixel_data: the `_` arm is not Err(UnsupportedFormat)")
    rows = []
    alpha = None
    for k in sorted(tbl):
        e = tbl[k]
        if re.search(r"\bdecode_rgba_pixel_data\s*\(", e):
            rows.append((k, 0))
        elif re.search(r"\betc1::decode\s*\(", e):
            rows.append((k, 1))
            m = re.search(r"format\s*==\s*([0-9A-Za-z_x]+)", e)
            if not m:
                src.fail("decode_pixel_data: etc1 arm without `format == <alpha format>`")
            a = const_eval(m.group(1))
            if alpha is not None and alpha != a:
                src.fail("decode_pixel_data: two different alpha formats")
            alpha = a
        else:
            src.fail("decode_pixel_data: arm for %d calls neither decode_rgba_pixel_data nor etc1::decode" % k)
    if alpha is None:
        src.fail("decode_pixel_data: no etc1 arm")
    return [Table("DECODE_DISPATCH", "Tile", ("list", ("prod", "N", "N")), rows, src.where(p),
                  "decode_pixel_data: (format, decoder) with 0 = decode_rgba_pixel_data, 1 = etc1::decode; formats not listed are UnsupportedFormat"),
            Table("ETC1_ALPHA_FORMAT", "Tile", "N", alpha, src.where(p), "decode_pixel_data: with_alpha = (format == this)")]


@extractor("Tile", ["READ_WIDTH"])
def x_read_width(repo):
    src = Src(repo, TD)
    body = src.fn_body("decode_rgba_pixel_data")
    arms, p = src.match_after(r"format", body)
    tbl, default = expand_int_match(arms)
    if default is None or re.search(r"read_u", default):
        src.fail("decode_rgba_pixel_data: the `_` arm reads from the cursor")
    rows = []
    for k in sorted(tbl):
        e = tbl[k]
        reads = re.findall(r"\bread_(u32|u16|u8)\b", e)
        if len(reads) != 1:
            src.fail("decode_rgba_pixel_data: arm for %d does not contain exactly one read" % k)
        w = {"u32": 4, "u16": 2, "u8": 1}[reads[0]]
        back = 0
        m = re.search(r"SeekFrom::Current\(\s*([^)]*?)\s*\)", e)
        if m:
            back = -const_eval(m.group(1))
            if back < 0:
                src.fail("decode_rgba_pixel_data: arm for %d seeks forward" % k)
        rows.append((k, w, back))
    return [Table("READ_WIDTH", "Tile", ("list", ("prod", "N", "N", "N")), rows, src.where(p),
                  "decode_rgba_pixel_data: (format, bytes read per pixel, bytes seeked back afterwards); formats not listed read nothing")]


# ============================================================================ group Etc1: src/etc1.rs
E1 = "src/etc1.rs"
ETC_OFFSET_NAMES = ["ETC_INDIV_RED1_OFFSET", "ETC_INDIV_GREEN1_OFFSET", "ETC_INDIV_BLUE1_OFFSET",
                    "ETC_DIFF_RED1_OFFSET", "ETC_DIFF_GREEN1_OFFSET", "ETC_DIFF_BLUE1_OFFSET",
                    "ETC_RED2_OFFSET", "ETC_GREEN2_OFFSET", "ETC_BLUE2_OFFSET",
                    "ETC_TABLE1_OFFSET", "ETC_TABLE2_OFFSET", "ETC_DIFFERENTIAL_BIT", "ETC_ORIENTATION_BIT"]


@extractor("Etc1", ["ETC_MODIFIERS"])
def x_etc_mod(repo):
    src = Src(repo, E1)
    body = src.fn_body("get_etc_modifiers_table")
    items, _ = src.array_items(*body)
    rows = []
    for it in items:
        m = re.search(r"\[(.*)\]", it, flags=re.S)
        if not m:
            src.fail("get_etc_modifiers_table: row %r is not an array" % it)
        vals = [const_eval(x) for x in m.group(1).split(",") if x.strip()]
        if len(vals) != 2:
            src.fail("get_etc_modifiers_table: row %r does not have two entries" % it)
        rows.append(tuple(vals))
    return [Table("ETC_MODIFIERS", "Etc1", ("list", ("prod", "Z", "Z")), rows, src.where(body[0]),
                  "get_etc_modifiers_table: the eight (small, large) intensity modifiers")]


@extractor("Etc1", ["ETC_OFFSETS", "ETC_BLOCK_SIZES"])
def x_etc_consts(repo):
    src = Src(repo, E1)
    offs = []
    for n in ETC_OFFSET_NAMES:
        v, w = src.const_int(n)
        offs.append(v)
    b1, w1 = src.const_int("ETC1_BLOCK_SIZE")
    b2, _ = src.const_int("ETC1A4_BLOCK_SIZE")
    return [Table("ETC_OFFSETS", "Etc1", LN, offs, w1,
                  "bit offsets: indiv R1 G1 B1, diff R1 G1 B1, R2 G2 B2, table1, table2, differential bit, orientation bit"),
            Table("ETC_BLOCK_SIZES", "Etc1", LN, [b1, b2], w1, "ETC1_BLOCK_SIZE, ETC1A4_BLOCK_SIZE")]


# ============================================================================ group Pixel: src/pixel_encodings.rs
PE = "src/pixel_encodings.rs"


@extractor("Pixel", ["COLORFORMAT_NAMES", "COLORFORMAT_BPP", "COLORFORMAT_INDEXED"])
def x_colorformat(repo):
    src = Src(repo, PE)
    variants = [v for v, _ in src.enum_variants("ColorFormat")]
    impl = src.impl_body("ColorFormat")
    arms, p1 = src.match_after(r"self", src.fn_body("bytes_per_pixel", impl))
    bpp = expand_enum_match(arms, variants, "ColorFormat::bytes_per_pixel")
    arms, p2 = src.match_after(r"self", src.fn_body("is_indexed_format", impl))
    idx = expand_enum_match(arms, variants, "ColorFormat::is_indexed_format")

    def boolean(t):
        if t.strip() not in ("true", "false"):
            src.fail("is_indexed_format: arm value %r is not a boolean literal" % t)
        return t.strip() == "true"
    return [Table("COLORFORMAT_NAMES", "Pixel", ("list", STR), [ascii_name(v) for v in variants], src.where(impl[0]),
                  "enum ColorFormat: variant names in declaration order"),
            Table("COLORFORMAT_BPP", "Pixel", LN, [const_eval(bpp[v]) for v in variants], src.where(p1),
                  "ColorFormat::bytes_per_pixel per variant"),
            Table("COLORFORMAT_INDEXED", "Pixel", ("list", "bool"), [boolean(idx[v]) for v in variants], src.where(p2),
                  "ColorFormat::is_indexed_format per variant")]


@extractor("Pixel", ["RGB5A3"])
def x_rgb5a3(repo):
    src = Src(repo, PE)
    body = src.fn_body("decode_rgb5a3_pixel")
    m = src.search(r"\bif\s+value\s*&\s*([0-9A-Za-z_x]+)\s*==\s*0\s*\{", body, what="if value & <bit> == 0")
    sel = const_eval(m.group(1))
    b1 = src.balanced(m.end() - 1)
    me = src.search(r"\belse\s*\{", (b1[1], body[1]), what="else branch of decode_rgb5a3_pixel")
    b2 = src.balanced(me.end() - 1)

    def chan(span, c):
        mm = re.search(r"\blet\s+%s\s*=\s*([^;]+);" % c, src.text[span[0]:span[1]])
        if not mm:
            src.fail("decode_rgb5a3_pixel: no `let %s = ...;`" % c)
        e = mm.group(1).strip()
        k = re.fullmatch(r"([0-9A-Za-z_x]+)\s*\*\s*\(\s*\(\s*value\s*>>\s*([0-9A-Za-z_x]+)\s*\)\s*&\s*([0-9A-Za-z_x]+)\s*\)", e)
        if k:
            return (const_eval(k.group(1)), const_eval(k.group(2)), const_eval(k.group(3)), 0)
        k = re.fullmatch(r"([0-9A-Za-z_x]+)\s*\*\s*\(\s*value\s*&\s*([0-9A-Za-z_x]+)\s*\)", e)
        if k:
            return (const_eval(k.group(1)), 0, const_eval(k.group(2)), 0)
        k = re.fullmatch(r"[0-9A-Za-z_x]+", e)
        if k:     # constant channel
            return (0, 0, 0, const_eval(e))
        src.fail("decode_rgb5a3_pixel: cannot read `let %s = %s`" % (c, e))
    rows = [chan(b1, c) for c in "rgba"] + [chan(b2, c) for c in "rgba"]
    for span in (b1, b2):
        if not re.search(r"vec!\s*\[\s*r\s+as\s+u8\s*,\s*g\s+as\s+u8\s*,\s*b\s+as\s+u8\s*,\s*a\s+as\s+u8\s*,?\s*\]", src.text[span[0]:span[1]]):
            src.fail("decode_rgb5a3_pixel: result is not vec![r as u8, g as u8, b as u8, a as u8]")
    return [Table("RGB5A3", "Pixel", ("prod", "N", ("list", ("prod", "N", "N", "N", "N"))), (sel, rows), src.where(body[0]),
                  "decode_rgb5a3_pixel: selector bit; channel = m * ((value >> s) & k) + c as (m, s, k, c) for r g b a "
                  "when the bit is clear, then when it is set")]


# ============================================================================ group Localize: src/localization.rs, src/language.rs
LOC = "src/localization.rs"
LOCALIZER_GAMES = ["FE9", "FE10", "FE13", "FE14", "FE15"]


def _languages(repo):
    src = Src(repo, "src/language.rs")
    return [v for v, _ in src.enum_variants("Language")], src


def _marker_of(src, expr, what):
    """the string an arm pushes: push_str("..") / push('c') -> scalar values; Err(UnsupportedLanguage) -> None"""
    e = expr
    if re.search(r"\breturn\s+Err\s*\(\s*LocalizationError::UnsupportedLanguage\s*\)", e) or \
            re.fullmatch(r"\{?\s*Err\s*\(\s*LocalizationError::UnsupportedLanguage\s*\)\s*\}?", e.strip()):
        if re.search(r"\bpush", e):
            src.fail("%s: arm both pushes and fails" % what)
        return None
    pushes = re.findall(r"\bresult\s*\.\s*push(_str)?\s*\(\s*(\"(?:[^\"\\]|\\.)*\"|'(?:[^'\\]|\\.)+')\s*\)", e)
    if not pushes or re.search(r"\breturn\b", e):
        src.fail("%s: arm %r neither pushes a literal nor returns UnsupportedLanguage" % (what, e))
    # everything else in the arm must be these pushes
    rest = re.sub(r"\bresult\s*\.\s*push(_str)?\s*\(\s*(\"(?:[^\"\\]|\\.)*\"|'(?:[^'\\]|\\.)+')\s*\)", "", e)
    if re.sub(r"[\s{};]", "", rest):
        src.fail("%s: arm %r does more than push literals" % (what, e))
    out = []
    for _, lit in pushes:
        out += parse_str_lit(lit)
    return out


@extractor("Localize", ["LANGUAGE_NAMES", "LOCALIZER_NAMES", "LOCALIZE_MARKERS"])
def x_localize(repo):
    langs, lsrc = _languages(repo)
    src = Src(repo, LOC)
    pl = [v for v, _ in src.enum_variants("PathLocalizer")]
    rows = []
    first = None
    for g in LOCALIZER_GAMES:
        impl = src.impl_body("%sPathLocalizer" % g)
        body = src.fn_body("localize", impl)
        arms, p = src.match_after(r"language", body, what="match language in %sPathLocalizer::localize" % g)
        first = first or p
        tbl = expand_enum_match(arms, langs, "%sPathLocalizer::localize" % g)
        rows.append([_marker_of(src, tbl[l], "%sPathLocalizer::localize/%s" % (g, l)) for l in langs])
    return [Table("LANGUAGE_NAMES", "Localize", ("list", STR), [ascii_name(l) for l in langs], "src/language.rs:1",
                  "enum Language: variant names in declaration order"),
            Table("LOCALIZER_NAMES", "Localize", ("list", STR), [ascii_name(v) for v in pl], src.where(impl[0]),
                  "enum PathLocalizer: variant names in declaration order"),
            Table("LOCALIZE_MARKERS", "Localize", ("list", ("list", ("option", STR))), rows, src.where(first),
                  "FE9, FE10, FE13, FE14, FE15 PathLocalizer::localize: per language (declaration order) the string pushed "
                  "between directory and file name; None = Err(UnsupportedLanguage)")]


# ============================================================================ group FsConfig: src/layered_filesystem.rs (+ game.rs, lz10.rs, lz13.rs)
LFS = "src/layered_filesystem.rs"


@extractor("FsConfig", ["GAME_NAMES", "FS_CONFIG"])
def x_fsconfig(repo):
    gsrc = Src(repo, "src/game.rs")
    games = [v for v, _ in gsrc.enum_variants("Game")]
    loc = Src(repo, LOC)
    pl = [v for v, _ in loc.enum_variants("PathLocalizer")]
    src = Src(repo, LFS)
    impl = src.impl_body("LayeredFilesystem")
    body = src.fn_body("new", impl)

    def let_match(var):
        m = src.search(r"\blet\s+%s\b[^=;]*=\s*match\s+game\s*\{" % var, body, what="let %s = match game" % var)
        s, e = src.balanced(m.end() - 1)
        return expand_enum_match(src.match_arms(s, e), games, "LayeredFilesystem::new/%s" % var), m.start()

    comp, p0 = let_match("compression_format")
    locz, _ = let_match("path_localizer")
    endi, _ = let_match("endian")
    text, _ = let_match("text_archive_format")

    def unsupported(e):
        return re.search(r"\breturn\s+Err\s*\(\s*LayeredFilesystemError::UnsupportedGame\s*\)", e) is not None

    def pick(e, prefix, names, what):
        m = re.fullmatch(r"\{?\s*%s::([A-Za-z0-9_]+)\s*(?:\(.*\))?\s*\}?" % prefix, e.strip(), flags=re.S)
        if not m or m.group(1) not in names:
            src.fail("LayeredFilesystem::new: cannot read %s arm %r" % (what, e))
        return names.index(m.group(1))
    rows = []
    for g in games:
        c = None if unsupported(comp[g]) else pick(comp[g], "CompressionFormat", ["LZ10", "LZ13"], "compression")
        l = None if unsupported(locz[g]) else pick(locz[g], "PathLocalizer", pl, "localizer")
        en = pick(endi[g], "Endian", ["Big", "Little"], "endian")
        tx = pick(text[g], "TextArchiveFormat", ["ShiftJIS", "Unicode"], "text format")
        rows.append((c, l, en, tx))
    return [Table("GAME_NAMES", "FsConfig", ("list", STR), [ascii_name(g) for g in games], "src/game.rs:1",
                  "enum Game: variant names in declaration order"),
            Table("FS_CONFIG", "FsConfig", ("list", ("prod", ("option", "N"), ("option", "N"), "N", "N")), rows, src.where(p0),
                  "LayeredFilesystem::new per Game: compression (0 LZ10, 1 LZ13, None UnsupportedGame), localizer "
                  "(index into PathLocalizer, None UnsupportedGame), endian (0 Big, 1 Little), text format (0 ShiftJIS, 1 Unicode)")]


def _suffixes(repo, rel, ty):
    src = Src(repo, rel)
    impl = src.impl_body(ty)
    body = src.fn_body("is_compressed_filename", impl)
    t = src.text[body[0]:body[1]].strip()
    parts = [x.strip() for x in t.split("||")]
    out = []
    for x in parts:
        m = re.fullmatch(r"filename\s*\.\s*ends_with\s*\(\s*(\"(?:[^\"\\]|\\.)*\")\s*\)", x)
        if not m:
            src.fail("%s::is_compressed_filename: %r is not filename.ends_with(\"..\")" % (ty, x))
        out.append(parse_str_lit(m.group(1)))
    return out, src.where(body[0])


@extractor("FsConfig", ["LZ10_SUFFIXES", "LZ13_SUFFIXES"])
def x_suffixes(repo):
    a, w1 = _suffixes(repo, "src/lz10.rs", "LZ10CompressionFormat")
    b, w2 = _suffixes(repo, "src/lz13.rs", "LZ13CompressionFormat")
    return [Table("LZ10_SUFFIXES", "FsConfig", ("list", STR), a, w1, "LZ10CompressionFormat::is_compressed_filename: accepted suffixes"),
            Table("LZ13_SUFFIXES", "FsConfig", ("list", STR), b, w2, "LZ13CompressionFormat::is_compressed_filename: accepted suffixes")]


# ============================================================================ group LZ: src/lz10.rs, src/lz13.rs
EXPR = r"([^,;(){}]+?)"          # a constant expression without brackets


def _grab(src, span, pattern, what, n=1, env=None):
    """Exactly n matches of pattern inside span, all with the same value of group 1 (a constant expression)."""
    ms = src.finditer(pattern, span)
    if len(ms) != n:
        src.fail("%s: expected %d occurrence(s) of /%s/, found %d" % (what, n, pattern, len(ms)))
    vals = set(const_eval(m.group(1), env) for m in ms)
    if len(vals) != 1:
        src.fail("%s: occurrences disagree: %s" % (what, sorted(vals)))
    return vals.pop(), ms[0].start()


@extractor("LZ", ["LZ10_CONSTS"])
def x_lz10(repo):
    src = Src(repo, "src/lz10.rs")
    impl = src.impl_body("LZ10CompressionFormat")
    body = src.fn_body("compress", impl)
    ty, p = _grab(src, body, r"\bbuf\s*\.\s*push\s*\(\s*" + r"(0x[0-9A-Fa-f]+|[0-9]+)" + r"\s*\)", "lz10 type byte: buf.push(<literal>)")
    window, _ = _grab(src, body, r"\bmin\s*\(\s*read_bytes\s*,\s*" + EXPR + r"\s*\)", "lz10 window: min(read_bytes, W)")
    look, _ = _grab(src, body, r"\bmin\s*\(\s*bytes\s*\.\s*len\s*\(\s*\)\s*-\s*read_bytes\s*,\s*" + EXPR + r"\s*\)", "lz10 look-ahead")
    minm, _ = _grab(src, body, r"\bif\s+length\s*<\s*" + EXPR + r"\s*\{", "lz10 minimum match: if length < M")
    bias, _ = _grab(src, body, r"\(\s*length\s*-\s*" + EXPR + r"\s*\)", "lz10 length bias: (length - B)")
    blocks, _ = _grab(src, body, r"\bbuffered_blocks\s*==\s*" + EXPR + r"\s*\{", "lz10 blocks per flag byte")
    return [Table("LZ10_CONSTS", "LZ", LN, [ty, window, look, minm, bias, blocks], src.where(p),
                  "LZ10 compress: type byte, window, look-ahead, minimum match, length bias, tokens per flag byte")]


@extractor("LZ", ["LZ13_CONSTS"])
def x_lz13(repo):
    src = Src(repo, "src/lz13.rs")
    impl = src.impl_body("LZ13CompressionFormat")
    body = src.fn_body("compress", impl)
    pushes = src.finditer(r"\bresult\s*\.\s*push\s*\(\s*(0x[0-9A-Fa-f]+|[0-9]+)\s*\)", body)
    if len(pushes) != 2:
        src.fail("lz13 compress: expected two result.push(<literal>) (wrapper byte, LZ11 type byte), found %d" % len(pushes))
    wrap, ty = const_eval(pushes[0].group(1)), const_eval(pushes[1].group(1))
    window, _ = _grab(src, body, r"\bmin\s*\(\s*read_bytes\s*,\s*" + EXPR + r"\s*\)", "lz13 window")
    look, _ = _grab(src, body, r"\bmin\s*\(\s*bytes\s*\.\s*len\s*\(\s*\)\s*-\s*read_bytes\s*,\s*" + EXPR + r"\s*,?\s*\)", "lz13 look-ahead")
    minm, _ = _grab(src, body, r"\bif\s+length\s*<\s*" + EXPR + r"\s*\{", "lz13 minimum match")
    bounds = [const_eval(m.group(1)) for m in src.finditer(r"\bif\s+length\s*>\s*" + EXPR + r"\s*\{", body)]
    if len(bounds) != 2:
        src.fail("lz13 compress: expected `if length > A {` and `else if length > B {`, found %d" % len(bounds))
    biases = sorted(set(const_eval(m.group(1)) for m in src.finditer(r"\(\s*length\s*-\s*" + EXPR + r"\s*\)", body)))
    if len(biases) != 2:
        src.fail("lz13 compress: expected two distinct biases (length - B), found %s" % biases)
    blocks, _ = _grab(src, body, r"\bbuffered_blocks\s*==\s*" + EXPR + r"\s*\{", "lz13 blocks per flag byte")
    ext, _ = _grab(src, body, r"\|\|\s*length\s*>\s*" + EXPR + r"\s*\{", "lz13 24-bit size limit: `|| length > 0xFFFFFF {`")
    return [Table("LZ13_CONSTS", "LZ", LN, [wrap, ty, window, look, minm, bounds[0], bounds[1], biases[1], biases[0], blocks, ext],
                  src.where(pushes[0].start()),
                  "LZ13 compress: wrapper byte, LZ11 type byte, window, look-ahead, minimum match, 4-byte-form boundary, "
                  "3-byte-form boundary, long bias, short bias, tokens per flag byte, largest 24-bit size")]


@extractor("LZ", ["LZ_DECODE_CONSTS"])
def x_lzdec(repo):
    src = Src(repo, "src/lz13.rs")
    body = src.fn_body("decompress_lz")
    arms, p = src.match_after(r"input\s*\.\s*next\s*\(\s*\)\s*\?", body, what="match input.next()? (type byte)")
    tbl, default = expand_int_match(arms)
    if default is None or not re.search(r"\breturn\s+None\b", default):
        src.fail("decompress_lz: unknown type byte is not `return None`")
    t10 = [k for k, v in tbl.items() if v.strip() == "false"]
    t11 = [k for k, v in tbl.items() if v.strip() == "true"]
    if len(t10) != 1 or len(t11) != 1 or len(tbl) != 2:
        src.fail("decompress_lz: type byte match is not {a => false, b => true, _ => return None}")
    adds = [const_eval(m.group(1)) for m in src.finditer(r"\)\s*\+\s*(0x[0-9A-Fa-f]+|[0-9]+)\s*,", body)]
    if len(adds) != 4:
        src.fail("decompress_lz: expected four `(...) + <bias>,` length forms, found %d" % len(adds))
    impl = src.impl_body("LZ13CompressionFormat")
    dbody = src.fn_body("decompress", impl)
    minlen, _ = _grab(src, dbody, r"\bbytes\s*\.\s*len\s*\(\s*\)\s*<\s*" + EXPR + r"\s*\{", "lz13 decompress: bytes.len() < 4")
    wrap, _ = _grab(src, dbody, r"\bbytes\s*\[\s*0\s*\]\s*==\s*(0x[0-9A-Fa-f]+|[1-9][0-9]*)\b", "lz13 decompress: bytes[0] == 0x13")
    skip, _ = _grab(src, dbody, r"&\s*bytes\s*\[\s*" + EXPR + r"\s*\.\.\s*\]", "lz13 decompress: &bytes[4..]", n=2)
    return [Table("LZ_DECODE_CONSTS", "LZ", LN, [t10[0], t11[0]] + adds + [minlen, wrap, skip], src.where(p),
                  "decompress_lz: LZ10 type byte, LZ11 type byte, length bias of the LZ10 form and of the three LZ11 forms; "
                  "LZ13 decompress: minimum length, wrapper byte, wrapper size")]


@extractor("LZ", ["LZ13_HEADER_CONSTS"])
def x_lz13hdr(repo):
    src = Src(repo, "src/lz13.rs")
    body = src.fn_body("calculate_lz13_header")
    init, p = _grab(src, body, r"\bbuffer_length\s*=\s*Wrapping\s*\(\s*([0-9A-Fa-fx_]+?)(?:i32)?\s*\)", "initial buffer_length")
    window, _ = _grab(src, body, r"\bsp\s*\.\s*0\s*\.\s*min\s*\(\s*" + EXPR + r"\s*\)", "sp.0.min(4096)")
    minx, _ = _grab(src, body, r"\bwhile\s+x\s*\.\s*0\s*>=\s*" + EXPR + r"\s*\{", "while x.0 >= 2")
    minm, _ = _grab(src, body, r"\by\s*\.\s*0\s*>=\s*" + EXPR + r"\s*&&", "y.0 >= 3")
    les = [const_eval(m.group(1)) for m in src.finditer(r"\blength\s*\.\s*0\s*<=\s*" + EXPR + r"\s*\{", body)]
    if len(les) != 3:
        src.fail("calculate_lz13_header: expected three `length.0 <= K {`, found %d" % len(les))
    fc, _ = _grab(src, body, r"\bfc\s*\.\s*0\s*==\s*" + EXPR + r"\s*\{", "fc.0 == 8")
    return [Table("LZ13_HEADER_CONSTS", "LZ", LN, [init, window, minx, minm] + les + [fc], src.where(p),
                  "calculate_lz13_header: initial buffer_length, window, smallest distance, minimum match, the three "
                  "`length <= K` boundaries, tokens per flag byte")]


# ============================================================================ group AssetBin: src/asset_binary.rs
AB = "src/asset_binary.rs"
KIND = {"read_color": 0, "read_f32": 1, "read_u32": 2, "write_color": 0, "write_f32": 1, "write_u32": 2}


def _asset_fields(src):
    """struct AssetSpec -> (strs, typed): names of the Option<String> fields after `name`, and of the value fields
    that have a `use_<field>` companion, both in declaration order."""
    fields = src.struct_fields("AssetSpec")
    names = [f for f, _ in fields]
    if not fields or fields[0] != ("name", "Option<String>"):
        src.fail("struct AssetSpec: first field is not `name: Option<String>`")
    strs = [f for f, t in fields[1:] if t == "Option<String>"]
    typed = [f for f, t in fields if t != "Option<String>" and not f.startswith("use_")]
    for f in typed:
        if "use_" + f not in names:
            src.fail("struct AssetSpec: field %s has no use_%s companion" % (f, f))
    uses = [f[4:] for f, t in fields if f.startswith("use_")]
    if uses != typed:
        src.fail("struct AssetSpec: use_* flags are not declared in the order of their fields")
    kinds = {}
    for f, t in fields:
        if f in typed:
            kinds[f] = t
    return strs, typed, kinds


def _bitmask(expr):
    v = const_eval(expr)
    return v


@extractor("AssetBin", ["ASSET_FIELDS", "ASSET_R_BASE", "ASSET_R_EXT"])
def x_asset_reader(repo):
    src = Src(repo, AB)
    strs, typed, kinds = _asset_fields(src)
    impl = src.impl_body("AssetSpec")
    body = src.fn_body("from_stream", impl)
    m = src.search(r"\bif\s+flag_count\s*>\s*3\s*\{", body, what="if flag_count > 3 {")
    ext = src.balanced(m.end() - 1)
    base = (body[0], m.start())

    def strs_in(span):
        out = []
        for mm in src.finditer(r"\bspec\s*\.\s*([a-z0-9_]+)\s*=\s*read_flag_str\s*\(\s*reader\s*,\s*&flags\s*,\s*([^)]+?)\s*\)\s*\?\s*;", span):
            if mm.group(1) not in strs:
                src.fail("from_stream: read_flag_str into unknown field %s" % mm.group(1))
            out.append((mm.start(), ("s", strs.index(mm.group(1)), const_eval(mm.group(2)))))
        return out

    def typed_in(span):
        out = []
        for mm in src.finditer(r"\bif\s*\(\s*flags\s*\[\s*([^\]]+?)\s*\]\s*&\s*([^)]+?)\s*\)\s*!=\s*0\s*\{", span):
            blk = src.balanced(mm.end() - 1)
            t = src.text[blk[0]:blk[1]]
            mu = re.findall(r"\bspec\s*\.\s*use_([a-z0-9_]+)\s*=\s*true\s*;", t)
            mv = re.findall(r"\bspec\s*\.\s*([a-z0-9_]+)\s*=\s*(?:reader\s*\.\s*)?(read_color|read_f32|read_u32)\s*\(\s*(?:reader)?\s*\)\s*\?\s*;", t)
            if len(mu) != 1 or len(mv) != 1 or mu[0] not in typed or mv[0][0] not in typed:
                src.fail("from_stream: cannot read the typed-field block at line %d" % src.line(mm.start()))
            out.append((mm.start(), ("t", const_eval(mm.group(1)), _bitmask(mm.group(2)), typed.index(mu[0]), typed.index(mv[0][0]), KIND[mv[0][1]])))
        return out
    rb = [x for _, x in sorted(strs_in(base))]
    if typed_in(base):
        src.fail("from_stream: typed field outside `if flag_count > 3`")
    re_ = [x for _, x in sorted(strs_in(ext) + typed_in(ext))]
    # count the statements so that nothing is silently skipped
    n_stmt = len(src.finditer(r"\bspec\s*\.\s*[a-z0-9_]+\s*=", (base[0], ext[1])))
    expect = 1 + len(rb) + sum(1 if x[0] == "s" else 2 for x in re_)
    if n_stmt != expect:
        src.fail("from_stream: %d assignments to spec.*, %d understood" % (n_stmt, expect))
    T_R = ("list", ("prod", "N", "N", "N", "N", "N", "N"))

    def enc(x):
        return (0, x[1], x[2], 0, 0, 0) if x[0] == "s" else (1, x[1], x[2], x[3], x[4], x[5])
    kind_rows = []
    for f in typed:
        t = kinds[f]
        kind_rows.append({"[u8;4]": 0, "f32": 1, "u32": 2}.get(t, 9))
    return [Table("ASSET_FIELDS", "AssetBin", ("prod", "N", "N", LN), (len(strs), len(typed), kind_rows), src.where(impl[0]),
                  "struct AssetSpec: number of flagged Option<String> fields, number of typed fields with a use_ flag, "
                  "declared type of each typed field (0 [u8;4], 1 f32, 2 u32)"),
            Table("ASSET_R_BASE", "AssetBin", T_R, [enc(x) for x in rb], src.where(base[0]),
                  "from_stream before `if flag_count > 3`: (0, string field, flag index, 0,0,0) per read_flag_str, fields "
                  "numbered by their position among the flagged strings of the struct"),
            Table("ASSET_R_EXT", "AssetBin", T_R, [enc(x) for x in re_], src.where(ext[0]),
                  "from_stream inside `if flag_count > 3`: strings as above; (1, flags byte, mask, use_ field, value field, "
                  "reader 0 read_color / 1 read_f32 / 2 read_u32) per typed block")]


@extractor("AssetBin", ["ASSET_F_SCHEMA"])
def x_asset_flags(repo):
    src = Src(repo, AB)
    strs, typed, _ = _asset_fields(src)
    impl = src.impl_body("AssetSpec")
    body = src.fn_body("compute_flags", impl)
    rows = []
    pat = (r"\bflags\s*\[\s*([^\]]+?)\s*\]\s*\|=\s*if\s+(!?)\s*self\s*\.\s*([a-z0-9_]+)\s*(\.\s*is_none\s*\(\s*\))?\s*"
           r"\{\s*([^{}]+?)\s*\}\s*else\s*\{\s*([^{}]+?)\s*\}\s*;")
    for mm in src.finditer(pat, body):
        byte, neg, field, isnone, a, b = mm.groups()
        if const_eval(a) != 0:
            src.fail("compute_flags: the `absent` value of %s is not 0" % field)
        if isnone and not neg and field in strs:
            rows.append((const_eval(byte), const_eval(b), 0, strs.index(field)))
        elif neg and not isnone and field.startswith("use_") and field[4:] in typed:
            rows.append((const_eval(byte), const_eval(b), 1, typed.index(field[4:])))
        else:
            src.fail("compute_flags: cannot read the condition on self.%s" % field)
    n = len(src.finditer(r"\bflags\s*\[[^\]]+\]\s*\|=", body))
    extra = len(src.finditer(r"\bflags\s*\[\s*0\s*\]\s*\|=\s*1\s*;", body))
    if n - extra != len(rows):
        src.fail("compute_flags: %d `flags[..] |=` statements, %d understood" % (n - extra, len(rows)))
    return [Table("ASSET_F_SCHEMA", "AssetBin", ("list", ("prod", "N", "N", "N", "N")), rows, src.where(body[0]),
                  "compute_flags: (flags byte, mask, 0 string is_some / 1 use_ flag, field) per `flags[b] |= ...` line")]


@extractor("AssetBin", ["ASSET_W_BASE", "ASSET_W_EXT"])
def x_asset_writer(repo):
    src = Src(repo, AB)
    strs, typed, _ = _asset_fields(src)
    impl = src.impl_body("AssetSpec")
    body = src.fn_body("append", impl)
    m = src.search(r"\bif\s+flags\s*\.\s*len\s*\(\s*\)\s*>\s*4\s*\{", body, what="if flags.len() > 4 {")
    ext = src.balanced(m.end() - 1)
    base = (body[0], m.start())

    def strs_in(span):
        out = []
        for mm in src.finditer(r"\bwrite_flag_str\s*\(\s*&mut\s+writer\s*,\s*&self\s*\.\s*([a-z0-9_]+)\s*\)\s*\?\s*;", span):
            if mm.group(1) not in strs:
                src.fail("append: write_flag_str of unknown field %s" % mm.group(1))
            out.append((mm.start(), (0, strs.index(mm.group(1)), 0, 0)))
        return out

    def typed_in(span):
        out = []
        for mm in src.finditer(r"\bif\s+self\s*\.\s*use_([a-z0-9_]+)\s*\{", span):
            blk = src.balanced(mm.end() - 1)
            t = src.text[blk[0]:blk[1]].strip()
            k = re.fullmatch(r"write_color\s*\(\s*&self\s*\.\s*([a-z0-9_]+)\s*,\s*&mut\s+writer\s*\)\s*\?\s*;", t)
            kind = "write_color"
            if not k:
                k = re.fullmatch(r"writer\s*\.\s*(write_f32|write_u32)\s*\(\s*self\s*\.\s*([a-z0-9_]+)\s*\)\s*\?\s*;", t)
                if not k:
                    src.fail("append: cannot read the block of `if self.use_%s`" % mm.group(1))
                kind, val = k.group(1), k.group(2)
            else:
                val = k.group(1)
            if mm.group(1) not in typed or val not in typed:
                src.fail("append: unknown field in `if self.use_%s`" % mm.group(1))
            out.append((mm.start(), (1, typed.index(mm.group(1)), typed.index(val), KIND[kind])))
        return out
    wb = [x for _, x in sorted(strs_in(base))]
    if typed_in(base):
        src.fail("append: typed field outside `if flags.len() > 4`")
    we = [x for _, x in sorted(strs_in(ext) + typed_in(ext))]
    n = len(src.finditer(r"\bwrite_flag_str\s*\(|\bwrite_color\s*\(|\.\s*write_f32\s*\(|\.\s*write_u32\s*\(", body))
    if n != len(wb) + len(we):
        src.fail("append: %d field writes, %d understood" % (n, len(wb) + len(we)))
    T_W = ("list", ("prod", "N", "N", "N", "N"))
    return [Table("ASSET_W_BASE", "AssetBin", T_W, wb, src.where(base[0]),
                  "append before `if flags.len() > 4`: (0, string field, 0, 0) per write_flag_str"),
            Table("ASSET_W_EXT", "AssetBin", T_W, we, src.where(ext[0]),
                  "append inside `if flags.len() > 4`: strings as above; (1, use_ field, value field, writer 0 write_color / "
                  "1 write_f32 / 2 write_u32) per typed block")]


# ============================================================================ group ASet: src/aset.rs
@extractor("ASet", ["ASET_CONSTS", "ASET_LABEL"])
def x_aset(repo):
    src = Src(repo, "src/aset.rs")
    impl = src.impl_body("ASetFile")
    rd = src.fn_body("from_archive", impl)
    wr = src.fn_body("serialize", impl)
    table_len, p = _grab(src, rd, r"\bfor\s+_\s+in\s+0\s*\.\.\s*" + EXPR + r"\s*\{\s*aset\s*\.\s*anim_clip_table", "for _ in 0..257 { aset.anim_clip_table.push")
    groups_r, _ = _grab(src, rd, r"\bfor\s+i\s+in\s+0\s*\.\.\s*" + EXPR + r"\s*\{", "reader: for i in 0..8")
    bits_r, _ = _grab(src, rd, r"\bfor\s+(?:bit|_)\s+in\s+0\s*\.\.\s*" + EXPR + r"\s*\{\s*(?:if|set)", "reader: for bit in 0..32 / for _ in 0..32", n=2)
    skip, _ = _grab(src, rd, r"\breader\s*\.\s*skip\s*\(\s*" + EXPR + r"\s*\)", "reader.skip(4)")
    groups_w, _ = _grab(src, wr, r"\bfor\s+flag_set\s+in\s+0\s*\.\.\s*" + EXPR + r"\s*\{", "writer: for flag_set in 0..8")
    take_w, _ = _grab(src, wr, r"\.\s*take\s*\(\s*" + EXPR + r"\s*\)", "writer: .take(8)")
    bits_w, _ = _grab(src, wr, r"\bfor\s+(?:bit|j)\s+in\s+0\s*\.\.\s*" + EXPR + r"\s*\{", "writer: for bit in 0..32 / for j in 0..32", n=2)
    stride, _ = _grab(src, wr, r"\b(?:flag_set|i)\s*\*\s*" + EXPR + r"\s*\+\s*(?:bit|j)\s*\+\s*1\b", "writer: index = g * 32 + bit + 1", n=2)
    hdr, _ = _grab(src, wr, r"\barchive\s*\.\s*allocate_at_end\s*\(\s*([0-9A-Fa-fx_]+)\s*\)", "archive.allocate_at_end(12)")
    w0 = src.search(r"\barchive\s*\.\s*write_u32\s*\(\s*0\s*,\s*" + EXPR + r"\s*\)", wr, what="archive.write_u32(0, 4)")
    w8 = src.search(r"\barchive\s*\.\s*write_u32\s*\(\s*8\s*,\s*" + EXPR + r"\s*\)", wr, what="archive.write_u32(8, 0x100)")
    ws = src.search(r"\barchive\s*\.\s*write_string\s*\(\s*" + EXPR + r"\s*,\s*self\s*\.\s*meta", wr, what="archive.write_string(4, self.meta..)")
    wpos = src.search(r"\bBinArchiveWriter::new\s*\(\s*&mut\s+archive\s*,\s*" + EXPR + r"\s*\)", wr, what="BinArchiveWriter::new(&mut archive, 12)")
    cell = src.search(r"\bself\s*\.\s*anim_clip_table\s*\.\s*len\s*\(\s*\)\s*\*\s*" + EXPR + r"\s*\)", wr, what="anim_clip_table.len() * 4")
    l1 = src.search(r"\bfind_label_address\s*\(\s*(\"(?:[^\"\\]|\\.)*\")\s*\)", rd, in_text=True, what="find_label_address(\"..\")")
    l2 = src.search(r"\bwrite_label\s*\(\s*(\"(?:[^\"\\]|\\.)*\")\s*\)", wr, in_text=True, what="write_label(\"..\")")
    if parse_str_lit(l1.group(1)) != parse_str_lit(l2.group(1)):
        src.fail("reader looks for label %s, writer writes %s" % (l1.group(1), l2.group(1)))
    vals = [table_len, groups_r, bits_r, skip, groups_w, take_w, bits_w, stride, hdr,
            const_eval(w0.group(1)), const_eval(w8.group(1)), const_eval(ws.group(1)), const_eval(wpos.group(1)), const_eval(cell.group(1))]
    return [Table("ASET_CONSTS", "ASet", LN, vals, src.where(p),
                  "aset reader: clip-table length, groups, slots per group, header skip; writer: groups, take(), slots, "
                  "index stride, header size, word 0, word 8, meta cell address, writer start, bytes per table cell"),
            Table("ASET_LABEL", "ASet", STR, parse_str_lit(l1.group(1)), src.where(l1.start()),
                  "the label of the clip-name table (same literal in reader and writer)")]


# ============================================================================ group Arc: src/arc.rs, src/fe9_arc.rs, src/bin_archive.rs
@extractor("Arc", ["ARC_LABELS", "ARC_HEADER_PAD"])
def x_arc(repo):
    src = Src(repo, "src/arc.rs")
    body = src.fn_body("from_bytes")
    ls = src.finditer(r"\bfind_label_address\s*\(\s*(\"(?:[^\"\\]|\\.)*\")\s*\)", body, in_text=True)
    if len(ls) != 2:
        src.fail("arc::from_bytes: expected two find_label_address(\"..\") calls, found %d" % len(ls))
    m = src.search(r"\blet\s+header_padding\s*=\s*if\s+archive\s*\.\s*read_u32\s*\(\s*0\s*\)\s*\?\s*==\s*0\s*\{\s*" + EXPR + r"\s*\}\s*else\s*\{\s*" + EXPR + r"\s*\}",
                   body, what="let header_padding = if archive.read_u32(0)? == 0 { A } else { B }")
    return [Table("ARC_LABELS", "Arc", ("list", STR), [parse_str_lit(x.group(1)) for x in ls], src.where(ls[0].start()),
                  "arc::from_bytes: the count label and the info label"),
            Table("ARC_HEADER_PAD", "Arc", LN, [const_eval(m.group(1)), const_eval(m.group(2))], src.where(m.start()),
                  "arc::from_bytes: header padding when word 0 is zero / otherwise")]


@extractor("Arc", ["PACK_CONSTS"])
def x_pack(repo):
    src = Src(repo, "src/fe9_arc.rs")
    env = {}
    vals = []
    w = None
    for n in ("MAGIC", "BASE_HEADER_SIZE", "PADDING_BOUNDARY", "METADATA_SIZE"):
        v, ww = src.const_int(n, env)
        env[n] = v
        vals.append(v)
        w = w or ww
    body = src.fn_body("parse")
    pos, _ = _grab(src, body, r"\bcursor\s*\.\s*set_position\s*\(\s*([0-9A-Fa-fx_A-Z]+)\s*\)", "parse: cursor.set_position(0x8)", env=env)
    vals.append(pos)
    rd = src.fn_body("read", src.impl_body("EntryMetadata"))
    nread = len(src.finditer(r"\bread_u32\s*::\s*<\s*BigEndian\s*>", rd))
    vals.append(4 * nread)
    return [Table("PACK_CONSTS", "Arc", LN, vals, w,
                  "fe9_arc: MAGIC, BASE_HEADER_SIZE, PADDING_BOUNDARY, METADATA_SIZE, position of the first entry in parse, "
                  "bytes EntryMetadata::read consumes")]


@extractor("Arc", ["BIN_HEADER"])
def x_binheader(repo):
    src = Src(repo, "src/bin_archive.rs")
    impl = src.impl_body("BinArchive")
    fb = src.fn_body("from_bytes", impl)
    se = src.fn_body("serialize", impl)
    a, p = _grab(src, fb, r"\bbytes\s*\.\s*len\s*\(\s*\)\s*<\s*" + EXPR + r"\s*\{", "from_bytes: bytes.len() < 0x20")
    b, _ = _grab(src, fb, r"\btext_start\s*\+\s*" + EXPR + r"\s*>\s*bytes", "from_bytes: text_start + 0x20 > bytes.len()")
    c, _ = _grab(src, fb, r"\bSeekFrom::Start\s*\(\s*(0x[0-9A-Fa-f]+|[0-9]+)\s*\)", "from_bytes: seek(Start(0x20))")
    d, _ = _grab(src, fb, r"\bpointer_value\s*\+\s*" + EXPR + r"\s*\)", "from_bytes: pointer_value + 0x20")
    e, _ = _grab(src, fb, r"\btext_start\s*\+\s*offset\s*\+\s*" + EXPR + r"\s*;", "from_bytes: text_start + offset + 0x20")
    pw, _ = _grab(src, fb, r"\bpointer_count\s+as\s+u64\s*\*\s*" + EXPR + r"\s*\)", "from_bytes: pointer_count * 4")
    lw, _ = _grab(src, fb, r"\blabel_count\s+as\s+u64\s*\*\s*" + EXPR + r"\s*\)", "from_bytes: label_count * 8")
    hp, _ = _grab(src, fb, r"\bcursor\s*\.\s*set_position\s*\(\s*" + EXPR + r"\s*\)", "from_bytes: cursor.set_position(4)")
    f, _ = _grab(src, se, r"\+\s*raw_text\s*\.\s*len\s*\(\s*\)\s*\+\s*" + EXPR + r"\s*;", "serialize: file_size = ... + 0x20")
    g, _ = _grab(src, se, r"\bSeekFrom::Start\s*\(\s*(0x[0-9A-Fa-f]+|[0-9]+)\s*\)", "serialize: seek(Start(0x20))")
    al, _ = _grab(src, se, r"\braw_cstrings\s*\.\s*len\s*\(\s*\)\s*%\s*" + EXPR + r"\s*!=\s*0", "serialize: raw_cstrings.len() % 4")
    # the 32-bit guard (fix 524d15f, F25): `if file_size > u32::MAX as usize { return Err(..) }` before bytes.resize
    gm = src.finditer(r"\bif\s+file_size\s*>\s*" + EXPR + r"\s*\{\s*return\s+Err\b", se)
    if len(gm) != 1:
        src.fail("serialize: expected exactly one `if file_size > <limit> { return Err(..` guard, found %d" % len(gm))
    lim = const_eval(re.sub(r"\bu32\s*::\s*MAX\b", str((1 << 32) - 1), gm[0].group(1)))
    rz = src.finditer(r"\bbytes\s*\.\s*resize\s*\(", se)
    if len(rz) != 1 or rz[0].start() < gm[0].start():
        src.fail("serialize: the size guard must precede the single bytes.resize(..)")
    return [Table("BIN_HEADER", "Arc", LN, [a, b, c, d, e, pw, lw, hp, f, g, al, lim], src.where(p),
                  "bin_archive from_bytes: the five uses of the header size, bytes per pointer entry, bytes per label entry, "
                  "position of data_size; serialize: the two uses of the header size, c-string pool alignment, the largest "
                  "file size the guard before bytes.resize accepts")]


# ============================================================================ group Tex20: tpl.rs, bch.rs, cgfx.rs
@extractor("Tex20", ["TPL_MAGIC", "TPL_IMAGE_FORMATS", "TPL_PALETTE_FORMATS"])
def x_tpl(repo):
    src = Src(repo, "src/tpl.rs")
    m = src.search(r"#\s*\[\s*br\s*\(\s*magic\s*=\s*(0x[0-9A-Fa-f_]+|[0-9_]+)(?:u32)?\s*\)\s*\]\s*pub\s+struct\s+Tpl\b", what="#[br(magic = ..)] pub struct Tpl")
    magic = const_eval(m.group(1))
    fmts = src.enum_variants("TplImageFormat")
    pals = src.enum_variants("TplPaletteFormat")
    if any(v is None for _, v in fmts + pals):
        src.fail("TplImageFormat/TplPaletteFormat: a variant has no explicit discriminant")
    names = [n for n, _ in fmts]
    impl = src.impl_body("TplImageFormat")
    arms, p = src.match_after(r"self", src.fn_body("block_dimensions", impl))
    dims = expand_enum_match(arms, names, "TplImageFormat::block_dimensions")
    arms, _ = src.match_after(r"self", src.fn_body("byte_size_of_image", impl))
    size = expand_enum_match(arms, names, "TplImageFormat::byte_size_of_image")
    cf = Src(repo, PE)
    cfv = [v for v, _ in cf.enum_variants("ColorFormat")]
    arms, _ = src.match_after(r"format", src.impl_for_body(r"From\s*<\s*TplImageFormat\s*>", "ColorFormat"))
    to_cf = expand_enum_match(arms, names, "From<TplImageFormat> for ColorFormat")
    pnames = [n for n, _ in pals]
    arms, _ = src.match_after(r"format", src.impl_for_body(r"From\s*<\s*TplPaletteFormat\s*>", "ColorFormat"))
    pal_cf = expand_enum_match(arms, pnames, "From<TplPaletteFormat> for ColorFormat")
    arms, _ = src.match_after(r"self", src.fn_body("byte_size_of_palette", src.impl_body("TplPaletteFormat")))
    pal_sz = expand_enum_match(arms, pnames, "TplPaletteFormat::byte_size_of_palette")

    def cf_index(e):
        mm = re.fullmatch(r"ColorFormat::([A-Za-z0-9_]+)", e.strip())
        if not mm or mm.group(1) not in cfv:
            src.fail("From<..> for ColorFormat: cannot read %r" % e)
        return cfv.index(mm.group(1))

    def muldiv(e, var):
        e = e.strip()
        if e == var:
            return (1, 1)
        mm = re.fullmatch(r"%s\s*([*/])\s*([0-9A-Fa-fx_]+)" % var, e)
        if not mm:
            src.fail("cannot read size expression %r" % e)
        k = const_eval(mm.group(2))
        return (k, 1) if mm.group(1) == "*" else (1, k)
    rows = []
    for n, v in fmts:
        mm = re.fullmatch(r"\(\s*([0-9A-Fa-fx_]+)\s*,\s*([0-9A-Fa-fx_]+)\s*\)", dims[n].strip())
        if not mm:
            src.fail("block_dimensions: cannot read %r" % dims[n])
        mul, div = muldiv(size[n], "base_num_bytes")
        rows.append((v, const_eval(mm.group(1)), const_eval(mm.group(2)), mul, div, cf_index(to_cf[n])))
    prow = []
    for n, v in pals:
        mul, div = muldiv(pal_sz[n], "num_entries")
        prow.append((v, mul, div, cf_index(pal_cf[n])))
    return [Table("TPL_MAGIC", "Tex20", "N", magic, src.where(m.start()), "#[br(magic = ..)] of struct Tpl"),
            Table("TPL_IMAGE_FORMATS", "Tex20", ("list", ("prod", "N", "N", "N", "N", "N", "N")), rows, src.where(p),
                  "TplImageFormat: (discriminant, block width, block height, size multiplier, size divisor, ColorFormat variant index)"),
            Table("TPL_PALETTE_FORMATS", "Tex20", ("list", ("prod", "N", "N", "N", "N")), prow, src.where(p),
                  "TplPaletteFormat: (discriminant, bytes per entry multiplier, divisor, ColorFormat variant index)")]


@extractor("Tex20", ["BCH_CONSTS", "CGFX_MAGIC"])
def x_bch_cgfx(repo):
    b = Src(repo, "src/bch.rs")
    magic, p = _grab(b, None, r"\bif\s+magic_id\s*!=\s*" + EXPR + r"\s*\{", "bch: if magic_id != 0x484342")
    ext, _ = _grab(b, None, r"\bbackward_compatibility\s*>\s*" + EXPR + r"\s*\{", "bch: backward_compatibility > 20", n=2)
    off, _ = _grab(b, None, r"\bcontents_address\s*\+\s*" + EXPR + r"\s*\)", "bch: contents_address + 0x24")
    c = Src(repo, "src/cgfx.rs")
    cm, pc = _grab(c, None, r"\bif\s+magic_id\s*!=\s*" + EXPR + r"\s*\{", "cgfx: if magic_id != 0x58464743")
    return [Table("BCH_CONSTS", "Tex20", LN, [magic, ext, off], b.where(p),
                  "bch: magic, backward-compatibility threshold of the extended header, offset of the texture table pointer"),
            Table("CGFX_MAGIC", "Tex20", "N", cm, c.where(pc), "cgfx: header magic")]


# ----------------------------------------------------------------------------- driver
HEADER = """(* GENERATED by gen/srctables.py from the Rust sources of the repository under verification -- do not edit.
   Regenerated at the start of every ./check run and of ./check setup; definitions only.
   The agreement of each table with the hand-written models is proved in Proofs/SrcAgree_<Group>.v. *)
From Coq Require Import List NArith ZArith Bool.
Import ListNotations.
Local Open Scope N_scope.

"""


def groups():
    g = {}
    for grp, names, _ in EXTRACTORS:
        g.setdefault(grp, []).extend(names)
    return g


def group_of(name):
    for grp, names, _ in EXTRACTORS:
        if name in names:
            return grp
    return None


def extract_all(repo):
    """(tables, failures): failures = {table name: message} for extractors whose anchors were not found."""
    tables, failures = [], {}
    for grp, names, f in EXTRACTORS:
        try:
            got = f(repo)
            text = [t.coq() for t in got]      # printing may fail too (negative number, ...)
            if sorted(t.name for t in got) != sorted(names):
                raise AnchorError("internal: extractor produced %s, declared %s" % ([t.name for t in got], names))
            tables += got
        except AnchorError as e:
            for n in names:
                failures[n] = str(e)
        except Exception as e:          # a bug in the translator is reported like a missing anchor, never hidden
            for n in names:
                failures[n] = "translator error: %r" % (e,)
    return tables, failures


def render(tables, failures, module_comment=""):
    out = [HEADER]
    for t in tables:
        out.append(t.coq())
        out.append("\n")
    for n in sorted(failures):
        out.append("(* src_%s NOT GENERATED: %s *)\n" % (n, failures[n].replace("*)", "* )").replace("(*", "( *")))
    return "".join(out)


def write_if_changed(path, content):
    os.makedirs(os.path.dirname(path), exist_ok=True)
    if os.path.exists(path) and open(path, encoding="utf-8").read() == content:
        return False
    tmp = path + ".tmp%d" % os.getpid()
    with open(tmp, "w", encoding="utf-8") as f:
        f.write(content)
    os.replace(tmp, path)
    return True


def regenerate(repo, out_path):
    tables, failures = extract_all(repo)
    changed = write_if_changed(out_path, render(tables, failures))
    return tables, failures, changed


def main():
    import common
    if "--list" in sys.argv:
        tables, failures = extract_all(common.REPO)
        for t in tables:
            print("%-10s %-22s %s" % (t.group, t.name, t.origin))
        for n, msg in failures.items():
            print("FAILED     %-22s %s" % (n, msg))
        return 1 if failures else 0
    before = None
    st0 = common.scratch_dir() + "/SourceTables.v" if common.scratch_mode() else os.path.join(common.COQ, "Generated", "SourceTables.v")
    if os.path.exists(st0):
        before = open(st0, encoding="utf-8").read()
    st = common.regenerate_source_tables()
    tables, failures, out = st["tables"], st["failures"], st["path"]
    changed = before != open(out, encoding="utf-8").read()
    print("%s: %d tables, %d failed, %s" % (out, len(tables), len(failures), "rewritten" if changed else "unchanged"))
    for n, msg in failures.items():
        print("FAILED %s: %s" % (n, msg))
    return 1 if failures else 0


if __name__ == "__main__":
    sys.exit(main())
