# C09: LZ13 compression emits a valid wrapped LZ11 stream that expands to the input; never panics/aborts.
from lzcommon import (LZCheckMixin, PropertyCheck, Case, Bad, compress_inputs, parse_compress_out, parse_hex, hexb,
                      strict_parse, expand, shrink_bytes)

HDR_MODEL_MAX = 1200      # the wrapper length (calculate_lz13_header) is computed by the model up to this input size


class C09(LZCheckMixin, PropertyCheck):
    pid = "C09"
    source_tables = ["LZ13_CONSTS", "LZ13_HEADER_CONSTS", "LZ_DECODE_CONSTS"]   # tables / constants regenerated from /repo's source (gen/srctables.py)
    release_too = True
    rule = ("streams: as C08 through LZ13CompressionFormat (all strings over 2 and 3 letters up to a bound, every run length 0..300/700 "
            "- covering the length forms <=16, 17..272, >272 -, long runs around 4096, structured random inputs <= 6 KiB against the model, "
            "larger ones oracle only), the empty input, both build profiles. The three wrapper length bytes are compared with the model for "
            "inputs <= %d bytes and masked above. Non-trivial = the stream contains a back-reference; distinct = distinct input." % HDR_MODEL_MAX)
    assumptions = ["A-std: Vec, slices and integer casts behave as documented",
                   "calculate_lz13_header is modelled for inputs shorter than 2^31 bytes (Wrapping<i32> positions do not wrap)",
                   "an allocation failure of the reservation (runtime) is outside the model; the harness observes it as ABORT"]

    def generate(self, rng, tier):
        return compress_inputs(rng, tier, "lz13c", lambda n: "2" if n <= HDR_MODEL_MAX else "1")

    def nontrivial(self, case, impl_out):
        cat, c, _ = parse_compress_out(impl_out)
        if cat != "ok" or len(c) < 8:
            return False
        try:
            _, _, toks = strict_parse(c[4:], 11)
        except Bad:
            return False
        return any(not isinstance(t, int) for t in toks)

    def oracle(self, case, impl_out, profile):
        data = parse_hex(case.line.split(" ")[2])
        cat, c, rt = parse_compress_out(impl_out)
        if cat not in ("ok", "err"):
            return "LZ13 compression neither returned Ok nor Err: %s" % impl_out[:80]
        if len(data) == 0 or len(data) >= 1 << 24:
            return None
        if cat != "ok":
            return "LZ13 compression failed on a non-empty input"
        if len(c) < 4 or c[0] != 0x13:
            return "no 4-byte 0x13 wrapper"
        try:
            ver, size, toks = strict_parse(c[4:], 11)
        except Bad as e:
            return "the wrapped stream is not a well-formed LZ11 stream: %s" % e
        if size != len(data):
            return "LZ11 header announces %d bytes for an input of %d" % (size, len(data))
        if expand(toks) != data:
            return "independent decoder: the stream does not expand to the input"
        if rt != "rt:same":
            return "the library's own decompressor does not return the input: %s" % (rt or "")[:80]
        return None

    def shrink_candidates(self, case):
        parts = case.line.split(" ")
        for d in shrink_bytes(parse_hex(parts[2])):
            flag = parts[1] if len(d) > 6000 else ("2" if len(d) <= HDR_MODEL_MAX else "1")
            yield Case("%s %s %s" % (parts[0], flag, hexb(d)), case.stream)


TB = ("Trusted: Coq 8.16.1 kernel (vm_compute, no native_compute), no axioms (Print Assumptions audited on every run), "
      "ExtrOcamlBasic extraction + hand-written OCaml driver, the Rust harness and Python generators/oracles. ")

MANIFEST = dict(
    text="(filled in below)",
    note=TB,
    technique="Coq proof + extracted-model differential check (debug and release builds) + independent Python stream parser as oracle",
    ref="DESIGN.md section 4 (C09)")
