# C09: LZ13 compression emits a valid wrapped LZ11 stream that expands to the input; never panics/aborts.
from lzcommon import (LZCheckMixin, PropertyCheck, Case, Bad, compress_inputs, parse_compress_out, parse_hex, hexb,
                      strict_parse, expand, shrink_bytes, shrink_ptok, case_data_token)

HDR_MODEL_MAX = 1200      # the wrapper length (calculate_lz13_header) is computed by the model up to this input size


class C09(LZCheckMixin, PropertyCheck):
    pid = "C09"
    source_tables = ["LZ13_CONSTS", "LZ13_HEADER_CONSTS", "LZ_DECODE_CONSTS"]   # tables / constants regenerated from /repo's source (gen/srctables.py)
    release_too = True
    rule = ("streams: as C08 through LZ13CompressionFormat (all strings over 2 and 3 letters up to a bound, every run length 0..299/699 "
            "- covering the length forms <=16, 17..272, >272 -, long runs around 4096, structured random inputs <= 6 KiB against the model, "
            "larger ones oracle only), repeats that continue beyond 65808 bytes (runs and short periods of 65536..140000 bytes, blank regions), "
            "an incompressible prefix > 64 KiB followed by a run longer than two maximal matches, zeros + a literal tail just below 16 MiB, "
            "a slice of the family through the enum CompressionFormat, the 16 MiB boundary (2^24-2, 2^24-1 with the 24-bit size; 2^24, 2^24+1: Ok must use the "
            "extended size form and round-trip, Err accepted), the empty input, both build profiles. The three wrapper length bytes are compared with the model for "
            "inputs <= %d bytes and masked above. Non-trivial = the stream contains a back-reference; distinct = distinct input." % HDR_MODEL_MAX)
    assumptions = ["A-std: Vec, slices and integer casts behave as documented",
                   "calculate_lz13_header: the extracted list-position model is faithful below 2^31 bytes; the machine-level model (wrapping i32 positions, "
                   "any length) is proved equal to it there and total everywhere, but above 2^31 it is tied to the source by reading only (such inputs cannot be run)",
                   "an allocation failure of the reservation (runtime) is outside the model; the harness observes it as ABORT"]

    def generate(self, rng, tier):
        return compress_inputs(rng, tier, "lz13c", lambda n: "2" if n <= HDR_MODEL_MAX else "1")

    def nontrivial(self, case, impl_out):
        cat, c, _ = parse_compress_out(impl_out)
        if cat != "ok" or len(c) < 8:
            return False
        try:
            _, _, toks = strict_parse(c[4:], 11)
        except Bad:
            return False
        return any(not isinstance(t, int) for t in toks)

    def oracle(self, case, impl_out, profile):
        data = parse_hex(case_data_token(case.line))
        cat, c, rt = parse_compress_out(impl_out)
        if cat not in ("ok", "err"):
            return "LZ13 compression neither returned Ok nor Err: %s" % impl_out[:80]
        if len(data) == 0:
            return None
        if len(data) >= 1 << 24:
            # beyond the property's first sentence: Err is acceptable; an Ok result is held against theorem
            # C09_round_trip_below_4GiB (0x13 wrapper, LZ11 stream in the EXTENDED size form announcing the input
            # length, expanding to the input, read back by the library)
            if cat != "ok":
                return None
            if c[4:8] != b"\x11\x00\x00\x00":
                return "input of %d bytes (>= 16 MiB): Ok without the extended LZ11 size form" % len(data)
        if cat != "ok":
            return "LZ13 compression failed on a non-empty input"
        if len(c) < 4 or c[0] != 0x13:
            return "no 4-byte 0x13 wrapper"
        try:
            ver, size, toks = strict_parse(c[4:], 11)
        except Bad as e:
            return "the wrapped stream is not a well-formed LZ11 stream: %s" % e
        if size != len(data):
            return "LZ11 header announces %d bytes for an input of %d" % (size, len(data))
        if expand(toks) != data:
            return "independent decoder: the stream does not expand to the input"
        if rt != "rt:same":
            return "the library's own decompressor does not return the input: %s" % (rt or "")[:80]
        return None

    def shrink_candidates(self, case):
        parts = case.line.split(" ")
        if len(parts) > 3:
            return                  # prelude + input (collision siblings): the pair is the case, not shrunk
        if parts[2][0] == "P" or "+" in parts[2]:
            for t in shrink_ptok(parts[2]):
                yield Case("%s 0 %s" % (parts[0], t), case.stream)
            return
        for d in shrink_bytes(parse_hex(parts[2])):
            flag = parts[1] if len(d) > 6000 else ("2" if len(d) <= HDR_MODEL_MAX else "1")
            yield Case("%s %s %s" % (parts[0], flag, hexb(d)), case.stream)


TB = ("Trusted: Coq 8.16.1 kernel (vm_compute, no native_compute), no axioms (Print Assumptions audited on every run), "
      "ExtrOcamlBasic extraction + hand-written OCaml driver, the Rust harness and Python generators/oracles. ")

MANIFEST = dict(
    text="Theorems (Coq 8.16, closed under the global context) about executable Gallina models of LZ13CompressionFormat::compress (shared match search and greedy loop with look-ahead 0x1000, the three LZ11 length forms in i32 arithmetic, the 0x13 wrapper, calculate_lz13_header, the reservation, after the repair of F12) and of the library's decoder: for EVERY non-empty byte string shorter than 2^24 and either arithmetic profile the result is Ok(0x13, three bytes, s) where a strict LZ11 parser written from the format description accepts s completely with the input length (either header form, flag groups, every reference in one of the three length forms with displacement 1-4096 reaching only into produced data, nothing left over) and its tokens expand to the input; LZ13CompressionFormat::decompress returns the input (any profile combination), also through the enum CompressionFormat; the empty input compresses and decompresses to itself. TOTALITY at full strength: a second, machine-level model of compress (the size guard of F21 `length as u64 > 0xFFFF_FFFF`, calculate_lz13_header with seven wrapping i32 variables, `as usize` sign extension and checked slice indexing, the reservation as an observable, the main loop with get_occurrence_length with checked indexing and usize arithmetic in a profile) is proved equal to the first model below 2^31 bytes and proved, for EVERY input and either profile, to return Ok below 2^32 bytes - the empty input included - and Err(InputTooLarge) from 2^32 bytes on: never a panic. 'Never aborts' is a theorem about the allocation request: result.reserve asks for exactly 12+n+(n+7)/8 bytes in both profiles (at most 2n+13; the expression before the repair of F12 is refuted at n = 0), out_buffer.reserve_exact for 33. The round trip is proved below 4 GiB for the list model and for the machine-level model (the decoder ignores the three wrapper length bytes, the only place where the two could differ above 2^31). The models are tied to /repo on every run as for C08 (both build profiles; the three wrapper length bytes - which the property does not constrain - are compared for inputs <= 1200 bytes and a difference is COUNTED in the evidence (`wrapper_diffs`), not treated as a failure; masked above; 2^24-2 .. 2^24+1 bytes implementation + oracle only); an independent Python strict parser/expander judges every implementation output.",
    note=TB + 'Modelled, not verified (A-std): Vec, slices, casts, Wrapping<i32>, 64-bit usize. Inputs of 2 GiB and more cannot be run: above 2^31 the machine-level model is tied to src/lz13.rs:93-160 by reading only. An allocation failure of the reservation aborts the process and is outside the model (the harness would record ABORT). The value of the wrapper length bytes has no theorem (the property does not constrain it). notes/lz.md lists 8 mutations of /repo and the seeded change C09-1, all reported by the quick check.',
    technique='Coq proof (as C08; machine-level refinement of the i32 header computation; totality by invariant) + extracted-model differential check (debug and release builds) + independent Python stream parser as oracle',
    ref='DESIGN.md section 4 (C09); notes/lz.md')
