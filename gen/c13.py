# C13: layered filesystem listings are the sorted, de-duplicated union of the layers.
from common import PropertyCheck, Case
import fsgen


class C13(PropertyCheck):
    pid = "C13"
    rule = ("streams: corpus (F16: a layer containing a copy of its own absolute path; F18: glob metacharacters in directory names); "
            "histories dominated by list (default pattern, '**/*', '*', '*.<ext>', '**/*.<ext>', '<name>/*') and subdirectories, localized and not, "
            "interleaved with writes and create_dir, on 1-4 real temp-directory layers with nested and empty directories, the same path in "
            "several layers, hidden names, names with glob metacharacters, listings of the root, of files and of missing directories; every "
            "listed path is put to the filesystem's own exists.  Non-trivial = a listing call returned at least one entry; distinct = distinct case line.")
    assumptions = ["A-fs: glob 0.3 with default MatchOptions on the pattern family above ('*' also matches names with a leading dot, '**/' matches "
                   "zero or more directories, directories are results like files), std::fs, Path::join and normpath::normalize behave like the tree "
                   "model on relative paths of plain components in existing, symlink-free layer directories; observed only through the correspondence",
                   "Rust's String order is the byte-wise order of the UTF-8 encoding, which is the lexicographic order of the scalar values the model compares"]

    def corpus(self):
        return [Case(fsgen.expand_corpus_line(c.line), "corpus") for c in PropertyCheck.corpus(self)]

    def generate(self, rng, tier):
        n = 3000 if tier == "quick" else 15000
        return fsgen.gen_cases(rng, tier, "c13", n, "listing-histories")

    def nontrivial(self, case, impl_out):
        return fsgen.nontrivial(case, impl_out, ("L", "S"))

    def oracle(self, case, impl_out, profile):
        _, c = fsgen.parse_case(case.line)
        return fsgen.check_history(c, impl_out)

    def agree(self, case, impl_out, model_out, profile):
        return fsgen.agree(impl_out, model_out)

    def shrink_candidates(self, case):
        return fsgen.shrink_case(case)

    def extra_checks(self, ctx):
        return [], {"scratch_directories_swept": fsgen.sweep_leftovers()}


TB = ("Trusted: Coq 8.16.1 kernel (vm_compute, no native_compute), no axioms (Print Assumptions audited on every run), "
      "ExtrOcamlBasic extraction + hand-written OCaml driver, the Rust harness and Python generators/oracles. ")

MANIFEST = dict(
    text="placeholder",
    note=TB,
    technique="Coq proof + extracted-model differential check on real temp directories",
    ref="DESIGN.md section 5 (C13)")
