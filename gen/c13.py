# C13: layered filesystem listings are the sorted, de-duplicated union of the layers.
from common import PropertyCheck, Case
import fsgen


class C13(PropertyCheck):
    pid = "C13"
    source_tables = ["FsConfig"]   # tables / constants regenerated from /repo's source (gen/srctables.py)
    rule = ("streams: corpus (F16: a layer containing a copy of its own absolute path; F18: glob metacharacters in directory names); "
            "every history up to length 2 (thorough 3) over a 13-call alphabet on three colliding paths from five two-layer states; "
            "random histories dominated by list (default pattern, '**/*', '*', '*.<ext>', '**/*.<ext>', '<name>/*'; <ext> and <name> drawn from pools that satisfy the "
            "model's predicate plain_pattern_arg - no * ? [ ] { } \\ / - asserted by the generator, including arguments with '!', '-', '.', spaces and non-ASCII characters) "
            "and subdirectories, localized and not, "
            "interleaved with writes and create_dir, on 1-4 real temp-directory layers with nested and empty directories, the same path in "
            "several layers, hidden names, DIRECTORY and FILE names with glob metacharacters (a[b], q?, st*r, [!a], c{d}, a], b[1].txt, {x}.txt, *.txt, ?.bin), listings of the root, of files and of missing directories; every "
            "listed path is put to the filesystem's own exists; stream letter-case (seeded change C13-6: glob's derived Default is case-INsensitive): trees whose "
            "names come in case variants (notes.txt / NOTES.TXT / Notes.Txt, map.bin / Map.BIN, Subdir / subdir / SUBDIR) listed with '*.<ext>', '**/*.<ext>', "
            "'<name>/*' whose letters come in every case.  Non-trivial = a listing call returned at least one entry; distinct = distinct case line.")
    assumptions = ["A-fs: glob 0.3 with default MatchOptions on the pattern family above with glob-literal arguments (the caller's pattern is interpreted by glob: an <ext> / <name> "
                   "containing * ? [ or '/' - and, excluded for safety, ] { } \\ - is outside the model, fs_list answers EUnmodelled there) ('*' also matches names with a leading dot, '**/' matches "
                   "zero or more directories, directories are results like files), std::fs, Path::join and normpath::normalize behave like the tree "
                   "model on relative paths of plain components in existing, symlink-free layer directories; observed only through the correspondence",
                   "Rust's String order is the byte-wise order of the UTF-8 encoding, which is the lexicographic order of the scalar values the model compares"]

    def corpus(self):
        return [Case(fsgen.expand_corpus_line(c.line), "corpus") for c in PropertyCheck.corpus(self)]

    def generate(self, rng, tier):
        n = 3000 if tier == "quick" else 15000
        return (fsgen.exhaustive_cases(tier) + fsgen.gen_cases(rng, tier, "c13", n, "listing-histories")
                + fsgen.case_variant_cases(rng, tier) + fsgen.hard_link_cases(rng, tier))

    def nontrivial(self, case, impl_out):
        return fsgen.nontrivial(case, impl_out, ("L", "S"))

    def oracle(self, case, impl_out, profile):
        _, c = fsgen.parse_case(case.line)
        return fsgen.check_history(c, impl_out)

    def agree(self, case, impl_out, model_out, profile):
        return fsgen.agree(impl_out, model_out)

    def shrink_candidates(self, case):
        return fsgen.shrink_case(case)

    def extra_checks(self, ctx):
        return [], {"scratch_directories_swept": fsgen.sweep_leftovers()}


TB = ("Trusted: Coq 8.16.1 kernel (vm_compute, no native_compute), no axioms (Print Assumptions audited on every run), "
      "ExtrOcamlBasic extraction + hand-written OCaml driver, the Rust harness and Python generators/oracles. ")

MANIFEST = dict(
    text="Theorems (Coq 8.16, closed under the global context) about the listing functions of the executable LayeredFilesystem model: a listing contains exactly the rendered entries of the union of the per-layer listings; one well-formed layer contributes exactly the entries (files and directories) present strictly under the directory that the pattern selects, for the family '**/*' (default), '*', '*.<ext>', '**/*.<ext>', '<name>/*' (specification predicate written from glob's documentation) WITH <ext> AND <name> FREE OF GLOB METACHARACTERS AND OF THE SEPARATOR: the code hands the caller's pattern to glob, which interprets it, while the model reads the arguments literally, so the family is modelled only for wf_pattern pat = true (C13_pattern_domain: <ext> / <name> contain none of * ? [ ] { } \\ /, <name> a plain component); outside, the model's fs_list answers EUnmodelled (C13_list_ok_pattern, C13_list_outside_domain) and nothing is claimed - e.g. the code's list(d, '*.[t]') returns d/b.t where the literal reading would give d/c.[t] (C13_example_literal); names of directories and files in the layers, and the listed directory itself, may contain any of these characters; the result is StronglySorted in the strict byte-wise order of the rendered paths, hence duplicate-free; subdirectories = exactly the immediate children that are directories in some layer, sorted; every listed path satisfies the filesystem's own exists (directory_exists for subdirectories) and the query of its kind - file_exists for a listed file, directory_exists for a listed directory (C13_listed_exist_kind); subdirectories as one union statement without duplicates (C13_subdirs_union, C13_subdirs_nodup); a directory present in no layer lists as empty; a localized listing equals the unlocalized listing of the localized directory; layer well-formedness, the hypothesis of these theorems, is an invariant of every history of operations and its executable check is sound. Also proved here: C14_fs_consistent (every localized operation addresses localize p; read/write pick the codec by the caller's name, which for dir/name paths is the same choice). The model - which describes the repaired code (F16, F18) - is tied to /repo on every run by listing-dominated histories on 1-4 real temp-directory layers (nested/empty directories, same path in several layers, hidden names, glob metacharacters in names, root, files, missing directories, after writes), results compared as lists with the extracted model and with an independent Python union/sort/de-duplicate over the walked directories; every listed path is also put to the real exists.",
    note=TB + "Modelled, not verified (A-fs): glob 0.3 with default MatchOptions on the pattern family ('*' also matches names with a leading dot, '**/' matches zero or more directories, directories are results like files - established by experiment and pinned by the correspondence), std::fs, Path::join, normpath::normalize on relative paths of plain components in existing symlink-free layer directories; Rust's String order = byte-wise order of UTF-8 = lexicographic order of scalar values. Patterns outside the family - in particular pattern ARGUMENTS containing glob metacharacters (* ? [ are interpreted by glob 0.3; ] { } \\ are excluded as well) or '/' - and Windows separators are out of scope; the generator's pattern arguments are asserted to satisfy the model's predicate (fsgen.wf_pattern = LayeredFS.wf_pattern, the character list is read back from Model/LayeredFS.v at import).",
    technique='Coq proof (insertion-sort/de-duplication invariants, filter/flat_map membership, well-formedness invariant) + extracted-model differential check on real temp directories + independent oracle',
    ref='DESIGN.md section 5 (C13); notes/fs.md')
