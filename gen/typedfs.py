# C12, typed helpers END TO END (kind `typedfs`; harness/src/k_typedfs.rs, coq/Extract/drv/d_typedfs.ml).
#
# A case is a history of byte-level and typed LayeredFilesystem calls on real temp directories.  Both sides print
# every RESULT VALUE canonically and the walk of every layer after every call.  On the model side NOTHING is fed in
# as data: Model/FsTyped.v instantiates the layered file system with the extracted LZ10/LZ13 codecs, the
# BinArchive / TextArchive parsers and serializers, arc, fe9_arc and the four texture readers, so
#   - a typed read is compared with "decode the top-most file with the game's codec, apply the real parser model
#     with the game's endianness / text format" as a VALUE (data, strings, pointers, labels / title, keys in order,
#     messages / files / textures with their pixels),
#   - a typed write is compared through the walk: the stored bytes must equal model serializer + model compressor.
#
# The oracle below does not use the Coq model.  It re-states the end-to-end property on the implementation's own
# output: the value a typed reader returns is what independent Python reference readers (gen/txtfile.py bin_read /
# text_read, gen/packlib.py ref_read) find in the stored file after decoding it with the Python LZ decoders of
# gen/fsgen.py, or - for images built by the Python reference writers (bin, text, pack, arc, CTPK/BCH/CGFX/TPL) - the
# content the image was built from (pixels checked with gen/texref.py); what a typed writer stored decodes and parses
# back to the content of the archive that was written.
#
# Hook for gen/c12.py (two lines):   import typedfs      and      @typedfs.hook   above   class C12(PropertyCheck):
import random
import re
import struct

import common
from common import Case
import fsgen
import txtfile
import packlib
import texcont
import texref
import batotal

STREAM = "typed-e2e"
B, unB, L, unL = fsgen.B, fsgen.unB, fsgen.L, fsgen.unL

SJIS_NAMES = [s.encode("cp932") for s in ["a", "tex0", "MID_A", "Tex_Body.001", "ﾃｸｽﾁｬ", "テクスチャ", "表示", "あいう", "ソ", "lab", "x" * 20,
                                         "αβ", "亜", "一", "ー"]]   # the last four: Shift-JIS byte order differs from String order (big-endian label tables)
UTF8_NAMES = [s.encode("utf-8") for s in ["a", "tex0", "Tex_Body.001", "été", "日本語テクスチャ", "body", "αβ"]]
FMT3DS = [0, 2, 3, 4, 5, 7, 8, 12, 13]
TR_KINDS = {"arc": 0, "pack": 1, "tpl": 2, "bch": 3, "ctpk": 4, "cgfx": 5}
KIND_OF_TR = {v: k for k, v in TR_KINDS.items()}


def S(b):
    return "S" + bytes(b).hex()


# ----------------------------------------------------------------------------- the pool of images (deterministic)
class Img:
    __slots__ = ("kind", "data", "endian", "fmt", "expect")

    def __init__(self, kind, data, endian=None, fmt=None, expect=None):
        self.kind, self.data, self.endian, self.fmt, self.expect = kind, bytes(data), endian, fmt, expect


def _rand_bin(rng, endian):
    n = 4 * rng.randrange(3, 12) + rng.choice([0, 0, 0, 2])     # data length, sometimes unaligned
    data = bytearray(rng.randrange(256) for _ in range(n))
    cells = list(range(0, n - 3, 4))
    rng.shuffle(cells)
    ns = rng.randrange(0, min(4, len(cells)))
    np_ = rng.randrange(0, min(3, len(cells) - ns) + 1)
    strings = {c: rng.choice(SJIS_NAMES) for c in cells[:ns]}
    pointers = {c: rng.randrange(0, n + 1) for c in cells[ns:ns + np_]}
    labels = []
    for a in rng.sample(range(0, n + 1), min(rng.randrange(0, 4), n + 1)):
        for nm in rng.sample(SJIS_NAMES, rng.randrange(1, 3)):
            labels.append((a, nm))
    # raw cells must not look like annotated ones: nothing to do, the pointer table decides
    img = txtfile.bin_write(endian, bytes(data), strings, pointers, labels, rng=rng,
                            shuffle_tables=rng.random() < 0.5, junk_text=rng.random() < 0.3, dup_strings=rng.random() < 0.3)
    return Img("bin", img, endian=endian)


def text_file(fmt, endian, title, entries, rng=None):
    """a text archive FILE written from the format description: title cell (Unicode format only), one cell per message,
    the key as the label of the message's offset"""
    data = bytearray()
    if fmt == "U":
        data += txtfile.text_cell("S", title)
    labels = []
    for (k, m) in entries:
        labels.append((len(data), k))
        data += txtfile.text_cell(fmt, m)
    return txtfile.bin_write(endian, bytes(data), labels=labels, rng=rng, shuffle_tables=bool(rng) and rng.random() < 0.5)


def _rand_text(rng, fmt, endian):
    title = rng.choice([b"", b"title", "表示".encode("cp932")])
    keys = rng.sample([b"MID_A", b"MID_B", b"MID_H_\x83\x5c", b"k", b"", b"MID_LONGER_KEY"], rng.randrange(0, 5))
    entries = []
    for k in keys:
        if fmt == "U":
            m = rng.choice([[], [0x41], [0xFEFF, 0x61], [0x0001, 0x0100], [0xD83D, 0xDE00, 0x21], [0x3042, 0x3044], [0xFFFE],
                            [rng.randrange(0x20, 0xD7FF) for _ in range(rng.randrange(1, 9))]])
        else:
            m = list(rng.choice([b"", b"first", b"second\nline", "表示ソ".encode("cp932"), "あいう".encode("cp932"), b"\x83\x5c"]))
        entries.append((k, m))
    return Img("text", text_file(fmt, endian, title, entries, rng), endian=endian, fmt=fmt, expect=(title, entries))


def _rand_pack(rng):
    names = rng.sample(SJIS_NAMES + [b"f1.bin", b"dir/02.bin", b""], rng.randrange(0, 5))
    files = [(n, packlib.rand_body(rng, rng.choice([0, 1, 5, 31, 32, 33, 40]))) for n in names]
    img = packlib.ref_write(files, rng, names_after=rng.random() < 0.4, permute=rng.random() < 0.5, gaps=rng.random() < 0.4,
                            overlap=rng.random() < 0.3, share_names=rng.random() < 0.3, junk_fields=rng.random() < 0.5)
    return Img("pack", img, expect=files)


def _rand_arc(rng):
    names = rng.sample(SJIS_NAMES + [b"f1.bin", b"dir/02.bin"], rng.randrange(0, 5))
    files = [(n, packlib.rand_body(rng, rng.choice([0, 1, 5, 16, 33]))) for n in names]
    img, exp = txtfile.arc_write(files, rng, padded=rng.random() < 0.5, permute_bodies=rng.random() < 0.6, unaligned=rng.random() < 0.3,
                                 gaps=rng.random() < 0.3, count_first=rng.random() < 0.5, shuffle_tables=rng.random() < 0.5)
    assert exp == "ok"
    return Img("arc", img, expect=files)


def _rand_tex(rng, kind):
    n = rng.choice([0, 1, 1, 2, 3])
    texs = []
    for _ in range(n):
        if kind == "tpl":
            w, h = rng.choice([1, 2, 4, 8]), rng.choice([1, 3, 4, 8])
            ncol = rng.choice([1, 2, 16, 256])
            texs.append(dict(name=b"", w=w, h=h, fmt=9, data=bytes(rng.randrange(ncol) for _ in range(texref.ci8_data_size(w, h))),
                             pal=bytes(rng.randrange(256) for _ in range(2 * ncol))))
        else:
            fmt = rng.choice(FMT3DS)
            w, h = rng.choice([(8, 8), (8, 8), (16, 8), (8, 16)])
            nm = rng.choice(SJIS_NAMES if kind == "ctpk" else UTF8_NAMES)
            texs.append(dict(name=nm, w=w, h=h, fmt=fmt, data=bytes(rng.randrange(256) for _ in range(texref.payload_size(fmt, w, h))), pal=b""))
    if n >= 2 and kind != "tpl" and rng.random() < 0.4:
        texs[-1] = dict(texs[-1], name=texs[0]["name"])        # two textures of one name: the map keeps the later one
    knobs = dict(permute=rng.random() < 0.6, gaps=rng.random() < 0.5, share=rng.random() < 0.4, tail=rng.random() < 0.4,
                 names_last=rng.random() < 0.3, junk_fields=rng.random() < 0.6, align=rng.choice([1, 1, 4, 16]),
                 base=rng.choice(["min", "zero", "rand"]), two_names=rng.random() < 0.5)
    if kind == "bch":
        knobs["bc"] = rng.choice([0x07, 0x21, 0x22, 0x42])
    img, _ext = texcont.WRITERS[kind](texs, rng, **knobs)
    return Img(kind, img, expect=texs)


_POOL = None


def pool():
    """the image pool: built once from a FIXED seed, so that the oracle finds the intended content of an image again
    when a case is replayed in another process"""
    global _POOL
    if _POOL is None:
        rng = random.Random(0xE2E12)
        items = []
        for e in ("B", "L"):
            items += [_rand_bin(rng, e) for _ in range(8)]
            for f in ("S", "U"):
                items += [_rand_text(rng, f, e) for _ in range(5)]
        # big-endian images whose label names sort differently as Shift-JIS bytes and as Strings (the library orders the
        # label table by the decoded names: 83 BF = U+03B1 before 82 A0 = U+3042, 88 EA = U+4E00 before 88 9F = U+4E9C)
        a_, al_, k1_, k2_, pr_ = (bytes.fromhex(x) for x in ("82a0", "83bf", "889f", "88ea", "815b"))
        items.append(Img("bin", txtfile.bin_write("B", bytes(12), {}, {}, [(0, a_), (4, al_), (8, k1_), (8, k2_), (12, pr_)]), endian="B"))
        items.append(Img("bin", txtfile.bin_write("B", bytes(range(8)), {}, {4: 0}, [(8, k1_), (0, k2_)]), endian="B"))
        for f in ("S", "U"):
            ents = [(a_, [0x41] if f == "U" else [0x41]), (al_, []), (k1_, [0x42]), (k2_, [0x43, 0x44])]
            items.append(Img("text", text_file(f, "B", b"t", ents, None), endian="B", fmt=f, expect=(b"t", ents)))
        items += [_rand_pack(rng) for _ in range(8)]
        items += [_rand_arc(rng) for _ in range(8)]
        for k in ("ctpk", "bch", "cgfx", "tpl"):
            items += [_rand_tex(rng, k) for _ in range(7)]
        good = list(items)
        for it in rng.sample(good, 10):                                      # truncated images
            items.append(Img("junk", it.data[:rng.randrange(0, len(it.data))]))
        for n in (0, 1, 3, 4, 31, 32, 33, 64):                               # plain junk
            items.append(Img("junk", bytes(rng.randrange(256) for _ in range(n))))
        for it in rng.sample(good, 8):                                       # one flipped byte (keeps most of the structure)
            d = bytearray(it.data)
            if d:
                d[rng.randrange(len(d))] ^= 1 << rng.randrange(8)
                items.append(Img("junk", d))
        by = {}
        for it in items:
            by.setdefault(it.data, it)
        _POOL = (items, by)
    return _POOL


# ----------------------------------------------------------------------------- cases
class TCase:
    """game, lang: indices; layers: list of list of (path, bytes); ops: tuples"""

    def __init__(self, game, lang, layers, ops):
        self.game, self.lang, self.layers, self.ops = game, lang, layers, ops


def render(c, base):
    toks = ["typedfs", base, str(c.game), str(c.lang), str(len(c.layers))]
    for lay in c.layers:
        toks.append(str(len(lay)))
        for (p, content) in lay:
            toks += [L(p), "D" if content is None else B(content)]
    toks.append("0")
    for o in c.ops:
        k = o[0]
        if k == "W":
            toks += ["W", str(o[1]), L(o[2]), B(o[3])]
        elif k == "TR":
            toks += ["TR", str(o[1]), L(o[2]), str(o[3])]
        elif k == "WA":
            toks += ["WA", str(o[1]), L(o[2]), o[3], B(o[4])]
        elif k == "WT":
            toks += ["WT", str(o[1]), L(o[2]), o[3], o[4], B(o[5])]
        else:
            toks += [k, str(o[1]), L(o[2])]
    return " ".join(toks)


def parse(line):
    import namekeys
    t = namekeys.strip_toks(line.split())
    assert t[0] == "typedfs"
    base, game, lang, nl = t[1], int(t[2]), int(t[3]), int(t[4])
    i = 5
    layers = []
    for _ in range(nl):
        k = int(t[i])
        i += 1
        lay = []
        for _ in range(k):
            lay.append((unL(t[i]), None if t[i + 1] == "D" else unB(t[i + 1])))
            i += 2
        layers.append(lay)
    i += 1 + 3 * int(t[i])
    ops = []
    while i < len(t):
        k = t[i]
        if k == "W":
            ops.append(("W", int(t[i + 1]), unL(t[i + 2]), unB(t[i + 3])))
            i += 4
        elif k == "TR":
            ops.append(("TR", int(t[i + 1]), unL(t[i + 2]), int(t[i + 3])))
            i += 4
        elif k == "WA":
            ops.append(("WA", int(t[i + 1]), unL(t[i + 2]), t[i + 3], unB(t[i + 4])))
            i += 5
        elif k == "WT":
            ops.append(("WT", int(t[i + 1]), unL(t[i + 2]), t[i + 3], t[i + 4], unB(t[i + 5])))
            i += 6
        else:
            ops.append((k, int(t[i + 1]), unL(t[i + 2])))
            i += 3
    return base, TCase(game, lang, layers, ops)


def _typed_read_for(img, rng):
    """the read op kind (and selector) that matches an image"""
    if img.kind == "bin":
        return ("TA",)
    if img.kind == "text":
        return ("TT",) if rng.random() < 0.8 else ("TA",)
    if img.kind in TR_KINDS:
        return ("TR", TR_KINDS[img.kind])
    return rng.choice([("TA",), ("TT",), ("TR", rng.randrange(6))])


def gen_case(rng, game, lang):
    g = fsgen.GAMES[game]
    fmt, sufs, endian, text = fsgen.SPEC_CFG[g]
    ge = "B" if endian == "big" else "L"
    gf = "S" if text == "shiftjis" else "U"
    items, _ = pool()
    suf = rng.choice(sufs)
    paths = ["a.bin", "d/t.bin", "d/x" + suf, "m/y.bin" + suf, "p" + suf, "tex", "d/deep/z" + rng.choice(sufs), "e_q.bin", "m/w.txt"]
    rng.shuffle(paths)
    paths = paths[:rng.randrange(3, 7)]

    def pick(prefer_game=True):
        it = rng.choice(items)
        # most of the time an image the game's typed readers can parse (endianness / text format of the game)
        for _ in range(6):
            if not prefer_game or it.kind not in ("bin", "text") or (it.endian == ge and (it.kind == "bin" or it.fmt == gf)):
                break
            it = rng.choice(items)
        return it

    nl = rng.choice([1, 2, 2, 3])
    layers = []
    for _ in range(nl):
        lay = []
        for p in paths:
            if rng.random() < 0.35:
                it = pick()
                content = it.data
                if fsgen.is_compressed_name(g, p) and rng.random() < 0.85:
                    r = fsgen.CODEC.get(fmt, "c", content)
                    if isinstance(r, bytes):
                        content = r
                lay.append((p, content))
        layers.append(lay)
    ops = []
    nops = rng.randrange(3, 9)
    last = None
    while len(ops) < nops:
        p = rng.choice(paths)
        loc = 1 if rng.random() < 0.3 else 0
        r = rng.random()
        if last is not None and r < 0.55:
            (lp, lloc, img) = last
            rd = _typed_read_for(img, rng)
            ops.append((rd[0], lloc, lp) + tuple(rd[1:]))
            last = None
            continue
        if r < 0.35:
            it = pick()
            ops.append(("W", loc, p, it.data))
            last = (p, loc, it)
        elif r < 0.5:
            it = rng.choice([x for x in items if x.kind in ("bin", "text", "arc")])
            e = it.endian or "L"
            if rng.random() < 0.8:                                    # an archive the game can read back
                cands = [x for x in items if x.kind == "bin" and x.endian == ge]
                it, e = rng.choice(cands), ge
            ops.append(("WA", loc, p, "be" if e == "B" else "le", it.data))
            last = (p, loc, Img("bin", it.data, endian=e))
        elif r < 0.65:
            cands = [x for x in items if x.kind == "text"]
            if rng.random() < 0.8:
                cands = [x for x in cands if x.endian == ge and x.fmt == gf]
            it = rng.choice(cands)
            ops.append(("WT", loc, p, "sjis" if it.fmt == "S" else "utf16", "be" if it.endian == "B" else "le", it.data))
            last = (p, loc, it)
        elif r < 0.75:
            ops.append(("R", loc, p))
        elif r < 0.85:
            ops.append(("TA", loc, p))
        elif r < 0.92:
            ops.append(("TT", loc, p))
        else:
            ops.append(("TR", loc, p, rng.randrange(6)))
    return TCase(game, lang, layers, ops)


def gen_cases(rng, tier):
    n = 1000 if tier == "quick" else 12000      # quick trimmed from 1500 (wall time of ./check C12 under load)
    out = []
    combos = [(g, l) for g in fsgen.SUPPORTED for l in range(8)]
    for i in range(n):
        g, l = combos[i % len(combos)]
        out.append(Case(render(gen_case(rng, g, l), fsgen.fresh_base()), STREAM))
    return out


# ----------------------------------------------------------------------------- expected values (Python reference readers)
def show_archive_ref(endian, f):
    """what read_archive must print for a well-formed bin-archive file, by the reference reader"""
    data, strings, pointers, labels, _ = txtfile.bin_read(endian, f)
    n = len(data)
    t = ",".join("%d:%s" % (c, S(strings[c])) for c in sorted(strings) if c + 4 <= n)
    p = ",".join("%d:%d" % (c, pointers[c]) for c in sorted(pointers) if c + 4 <= n)
    at = {}
    for (a, nm) in labels:
        at.setdefault(a, []).append(nm)
    l = ",".join("%d:%s" % (a, "|".join(S(x) for x in at[a])) for a in sorted(at))
    return "ok sz=%d d=%s t=[%s] p=[%s] l=[%s]" % (n, B(data), t, p, l)


def show_text_ref(fmt, title, entries):
    es = " ".join("%s=%s" % (S(k), ("L" + ",".join(str(u) for u in m)) if fmt == "U" else S(bytes(m))) for (k, m) in entries)
    return "ok d0 T=%s [%s]" % (S(title if fmt == "U" else b""), es)


def show_files_ref(files, sort):
    d = {}
    for (n, b) in files:
        d[bytes(n)] = b                       # a later entry of the same name replaces the earlier one, keeping its place
    es = ["%s=%s" % (S(n), B(b)) for n, b in d.items()]
    if sort:
        es.sort()
    return "ok [%s]" % " ".join(es)


def check_textures(kind, texs, ret):
    """ret = 'ok n [S<name>,w,h,B<px> ...]' against the packed textures (pixels through gen/texref.py)"""
    m = re.match(r"ok (\d+) \[(.*)\]$", ret)
    if not m:
        return "a conforming %s container is not read: %s" % (kind, ret[:80])
    got = m.group(2).split(" ") if m.group(2) else []
    import c20
    if kind == "tpl":
        want = list(texs)
    else:
        d = {}
        for t in texs:
            d[t["name"]] = t
        want = sorted(d.values(), key=lambda t: S(t["name"]))
        # entries are sorted as whole strings: ties on the name cannot occur (names are distinct keys)
    if int(m.group(1)) != len(want) or len(got) != len(want):
        return "%s: %d textures returned, %d expected" % (kind, len(got), len(want))
    for t, o in zip(want, got):
        nm, w, h, px = o.split(",")
        if nm != S(b"" if kind == "tpl" else t["name"]):
            return "%s: texture named %s, stored name %s" % (kind, nm, S(t["name"]))
        if int(w) != t["w"] or int(h) != t["h"]:
            return "%s: texture %s is %sx%s, stored %dx%d" % (kind, nm, w, h, t["w"], t["h"])
        why = c20.check_pixels(kind, t, unB(px))
        if why:
            return "%s: texture %s: %s" % (kind, nm, why)
    return None


def bin_content(endian, f):
    """content of a bin-archive file as the round trip must preserve it: data outside string cells, strings, pointers,
    labels per address in order"""
    data, strings, pointers, labels, _ = txtfile.bin_read(endian, f)
    d = bytearray(data)
    for c in strings:
        d[c:c + 4] = b"\0\0\0\0"
    at = {}
    for (a, nm) in labels:
        at.setdefault(a, []).append(nm)
    return bytes(d), strings, pointers, at


# ----------------------------------------------------------------------------- the oracle
STATS = {}      # how often the oracle compared a VALUE (reported as coverage by the hook)


def _count(k):
    STATS[k] = STATS.get(k, 0) + 1


def oracle(case, impl_out):
    base, c = parse(case.line)
    game, lang = fsgen.GAMES[c.game], fsgen.LANGS[c.lang]
    if impl_out in ("PANIC", "ABORT", "TIMEOUT", "MISSING-OUTPUT") or impl_out.startswith(("BASE-ERROR", "BAD-BASE", "SETUP-ERROR", "REFUSED", "UNKNOWN-KIND")):
        return "the history did not run: %s" % impl_out
    fmt, sufs, endian, text = fsgen.SPEC_CFG[game]
    ge = "B" if endian == "big" else "L"
    gf = "S" if text == "shiftjis" else "U"
    segs = impl_out.split(" ; ")
    head, _, w0 = segs[0].partition(" @ ")
    init = fsgen.initial_snapshot(c)
    if fsgen.parse_walk(w0) != init:
        return "initial directories differ from the case: %s" % w0[:200]
    if head != "new:ok":
        return "LayeredFilesystem::new failed: %s" % head
    if len(segs) != 1 + len(c.ops):
        return "expected %d results, got %d" % (1 + len(c.ops), len(segs))
    _, by = pool()
    snap = init
    top = len(snap) - 1
    written = {}          # image bytes -> ("bin", endian) | ("text", fmt, endian): what the typed writers of this history stored
    for n, (o, seg) in enumerate(zip(c.ops, segs[1:])):
        ret, _, w = seg.partition(" @ ")
        new = snap if w == "=" else fsgen.parse_walk(w)
        kind, loc, path = o[0], o[1], o[2]
        where = "op %d %s(%r%s)" % (n, kind, path, ", localized" if loc else "")
        if ret == "panic":
            return where + ": panicked"
        if len(new) != len(snap):
            return where + ": number of layers changed"
        for i in range(top):
            if new[i] != snap[i]:
                return where + ": layer %d (not the top layer) was modified" % i
        if kind in ("R", "TA", "TT", "TR") and new[top] != snap[top]:
            return where + ": a read modified the top layer"
        actual = path
        if loc:
            lz = fsgen.py_localize(game, lang, path)
            if lz is None:
                snap = new
                continue
            if lz[0] == "err":
                if not ret.startswith("err:loc-"):
                    return where + ": localisation must fail here, got %s" % ret[:80]
                if new != snap:
                    return where + ": failed call changed the directories"
                continue
            actual = lz[1]
        st = fsgen.structured(actual)
        if st is None:
            snap = new
            continue
        comps, tr = st
        key = "/".join(comps)
        comp_name = fsgen.is_compressed_name(game, path)
        if kind in ("R", "TA", "TT", "TR"):
            holder = None
            for i in range(top, -1, -1):
                if fsgen.l_is_file(snap[i], comps, tr):
                    holder = i
                    break
            if holder is None:
                if ret != "err:notfound":
                    return where + ": no layer holds the file, expected not-found, got %s" % ret[:80]
                snap = new
                continue
            raw = snap[holder][key]
            img = raw
            if comp_name:
                img = fsgen.decode_for(fmt, raw)
                if img is None:
                    # the reference decoder of this oracle does not decode it; whether the library does is settled by the
                    # correspondence with the model (complete decoder) - no claim here (a first version demanded an error and
                    # raised a false alarm on the STORED FORM of the LZ13 entry, first byte 0, which it did not know)
                    snap = new
                    continue
            if kind == "R":
                if ret != "ok:" + img.hex():
                    return where + ": read differs from the (decoded) file of layer %d" % holder
                snap = new
                continue
            if ret.startswith("err:") and not ret.startswith("err:parse"):
                return where + ": layer %d holds the file and it decodes, the typed reader failed with %s" % (holder, ret)
            known = by.get(img)
            wr = written.get(img)
            want = None
            if kind == "TA":
                if (known is not None and known.kind in ("bin", "text") and known.endian == ge) or (known is not None and known.kind == "arc" and ge == "L") \
                        or (wr is not None and wr[-1] == ge):
                    want = show_archive_ref(ge, img)
            elif kind == "TT":
                if known is not None and known.kind == "text" and known.endian == ge and known.fmt == gf:
                    want = show_text_ref(gf, *known.expect)
                elif wr is not None and wr[0] == "text" and wr[1] == gf and wr[2] == ge:
                    title, entries, problems = txtfile.text_read(gf, ge, img)
                    if problems:
                        return where + ": the file write_text_archive stored is not a well-formed text archive: %s" % "; ".join(problems)[:200]
                    want = show_text_ref(gf, title, entries)
            elif kind == "TR":
                k = KIND_OF_TR[o[3]]
                if known is not None and known.kind == k:
                    if k in ("arc", "pack"):
                        want = show_files_ref(known.expect, sort=(k == "arc"))
                        if k == "pack":
                            try:
                                ref, _recs = packlib.ref_read(img)
                            except packlib.NotConforming as ex:
                                return where + ": generator error, the pack image does not conform: %s" % ex
                            if show_files_ref(ref, False) != want:
                                return where + ": generator error, reference reader and intended content differ"
                    else:
                        import c20
                        if all(c20.is_supported(k, t) for t in known.expect):
                            why = check_textures(k, known.expect, ret)
                            _count("TR-" + k)
                            if why:
                                return where + ": " + why
            if want is not None:
                _count(kind if kind != "TR" else "TR-" + KIND_OF_TR[o[3]])
            if want is not None and ret != want:
                return where + ": the typed reader's value differs from the reference reading of the stored file: want %s got %s" % (want[:300], ret[:300])
        else:   # W, WA, WT
            t = snap[top]
            anc = ["/".join(comps[:k]) for k in range(1, len(comps))]
            blocked = any(t.get(a, None) is not None for a in anc)
            can = (not blocked) and (not tr) and len(comps) > 0 and fsgen.node(t, comps) != "dir"
            if ret == "BAD-ARCHIVE":
                if new != snap:
                    return where + ": nothing was called, the directories changed"
                continue
            if ret == "ok":
                if not can:
                    return where + ": write reported success although the target cannot be a file"
                for k2 in set(t) | set(new[top]):
                    if k2 == key or k2 in anc:
                        continue
                    if t.get(k2, "absent") != new[top].get(k2, "absent"):
                        return where + ": write changed %r, which is neither the target nor an ancestor" % k2
                if key not in new[top] or new[top][key] is None:
                    return where + ": target is not a file after the write"
                stored = new[top][key]
                img = stored
                if comp_name:
                    img = fsgen.decode_for(fmt, stored)
                    if img is None:
                        return where + ": stored file is not a valid LZ%s stream: %s" % (fmt, stored.hex()[:80])
                if kind == "W":
                    if img != bytes(o[3]):
                        return where + ": stored file does not hold the payload"
                elif kind == "WA":
                    e = "B" if o[3] == "be" else "L"
                    try:
                        src = bin_content(e, bytes(o[4]))
                    except (txtfile.Malformed, struct.error):
                        src = None
                    if src is not None:
                        try:
                            got = bin_content(e, img)
                        except (txtfile.Malformed, struct.error) as ex:
                            return where + ": what write_archive stored is not a bin archive: %s" % ex
                        _count("WA")
                        if got != src:
                            return where + ": what write_archive stored does not hold the archive's content (data outside string cells, strings, pointers, labels)"
                        written[img] = ("bin", e)
                else:
                    f_, e = ("S" if o[3] == "sjis" else "U"), ("B" if o[4] == "be" else "L")
                    known = by.get(bytes(o[5]))
                    if known is not None and known.kind == "text" and known.fmt == f_ and known.endian == e:
                        try:
                            title, entries, problems = txtfile.text_read(f_, e, img)
                        except (txtfile.Malformed, struct.error) as ex:
                            return where + ": what write_text_archive stored is not a text archive: %s" % ex
                        if problems:
                            return where + ": what write_text_archive stored is not well-formed: %s" % "; ".join(problems)[:200]
                        wt, we = known.expect
                        _count("WT")
                        if (title if f_ == "U" else b"") != (wt if f_ == "U" else b"") or [(k, list(m)) for k, m in entries] != [(k, list(m)) for k, m in we]:
                            return where + ": what write_text_archive stored does not hold the archive's title / keys in order / messages"
                        written[img] = ("text", f_, e)
            else:
                if can and not ret.startswith("err:parse"):
                    return where + ": write failed (%s) although nothing is in the way" % ret
                for k2 in set(t) | set(new[top]):
                    if t.get(k2, "absent") != new[top].get(k2, "absent"):
                        if not (tr and not blocked and k2 in anc and k2 not in t and new[top][k2] is None):
                            return where + ": failed write changed %r" % k2
        snap = new
    return None


# ----------------------------------------------------------------------------- correspondence
def _norm_model_seg(seg):
    """map the model's raw string tokens S<hex> to what the harness prints for the decoded string"""
    toks = re.findall(r"S[0-9a-f]*", seg)
    if not toks:
        return seg
    normed = batotal.normalise_strings(["B" + t[1:] for t in toks])
    it = iter(normed)
    return re.sub(r"S[0-9a-f]*", lambda _: "S" + next(it)[1:], seg)


def _seg_agree(i, m, sorted_kind):
    if i == m:
        return True
    if "S" not in m:
        return False
    # strings that do not survive the codec (foreign files read with the wrong reader): compare through the library's
    # own decoder; `S?` of the harness (not representable) matches any string
    m2 = _norm_model_seg(m)
    if sorted_kind:
        mi = re.match(r"^(ok(?: \d+)? \[)(.*)(\])$", i)
        mm = re.match(r"^(ok(?: \d+)? \[)(.*)(\])$", m2)
        if not (mi and mm and mi.group(1) == mm.group(1)):
            return False
        ie = mi.group(2).split(" ") if mi.group(2) else []
        me = sorted(mm.group(2).split(" ")) if mm.group(2) else []      # the map was sorted by the RAW names on the model side
        if len(ie) != len(me):
            return False
        pats = [re.compile("^" + re.escape(x).replace(r"S\?", "S[0-9a-f]*") + "$") for x in ie]
        return all(p.match(y) for p, y in zip(pats, me))
    pat = re.compile("^" + re.escape(i).replace(r"S\?", "S[0-9a-f]*") + "$")
    return bool(pat.match(m2))


def agree(case, impl_out, model_out, profile):
    if " || " in model_out:
        cm, wm = model_out.split(" || ", 1)
        model_out = cm if profile == "debug" else wm
    if impl_out == model_out:
        return True
    a, b = impl_out.split(" ; "), model_out.split(" ; ")
    if len(a) != len(b):
        return False
    _, c = parse(case.line)
    if len(a) != 1 + len(c.ops):
        return False
    for n, (x, y) in enumerate(zip(a, b)):
        xr, _, xw = x.partition(" @ ")
        yr, _, yw = y.partition(" @ ")
        sk = n > 0 and c.ops[n - 1][0] == "TR" and c.ops[n - 1][3] in (0, 3, 4, 5)
        if xw != yw or not _seg_agree(xr, yr, sk):
            return False
    return True


def nontrivial(case, impl_out):
    """a typed call returned a value or stored a file"""
    segs = impl_out.split(" ; ")[1:]
    _, c = parse(case.line)
    return any(o[0] in ("TA", "TT", "TR", "WA", "WT") and s.startswith("ok") for o, s in zip(c.ops, segs))


def shrink_case(case):
    base, c = parse(case.line)
    for i in range(len(c.ops)):
        yield Case(render(TCase(c.game, c.lang, c.layers, c.ops[:i] + c.ops[i + 1:]), fsgen.fresh_base()), case.stream)
    for li in range(len(c.layers)):
        for j in range(len(c.layers[li])):
            layers = [list(x) for x in c.layers]
            del layers[li][j]
            yield Case(render(TCase(c.game, c.lang, layers, c.ops), fsgen.fresh_base()), case.stream)
    if len(c.layers) > 1:
        yield Case(render(TCase(c.game, c.lang, c.layers[1:], c.ops), fsgen.fresh_base()), case.stream)


def release_leg(wd):
    """run the typed-e2e cases of this run (wd/cases.txt) on the release build; compare with the model outputs (wd/model.txt)"""
    import os
    try:
        lines = open(os.path.join(wd, "cases.txt")).read().split("\n")
        model = open(os.path.join(wd, "model.txt")).read().split("\n")
    except OSError:
        return [], {"skipped": "no model outputs"}
    pairs = [(l, m) for l, m in zip(lines, model) if l.startswith("typedfs ")]
    if not pairs:
        return [], {"cases": 0}
    ok, out = common.build_harness(True)
    if not ok:
        return [("typed-e2e release build", "the release harness does not build: " + out[-300:])], {"cases": 0}
    # fresh scratch names: the debug run has removed its directories, but a replay must not depend on that
    relines = []
    for l, _ in pairs:
        t = l.split(" ")
        t[1] = fsgen.fresh_base()
        relines.append(" ".join(t))
    outs = common.run_tool(common.harness_bin(True), relines, wd, "impl-release-typed")
    viol = []
    nd = nf = 0
    for l, (_, m), o in zip(relines, pairs, outs):
        c = Case(l, STREAM)
        f = oracle(c, o)
        if f:
            nf += 1
            if len(viol) < 3:
                viol.append(("release build: " + l[:4000], f))
        elif not agree(c, o, m, "release"):
            nd += 1
            if len(viol) < 3:
                viol.append(("release build: " + l[:4000], "typed result differs from the model run in wrapping arithmetic"))
    return viol, {"cases": len(pairs), "oracle_failures": nf, "differences_with_model": nd}


# ----------------------------------------------------------------------------- the hook for gen/c12.py
RULE = (" + stream typed-e2e (kind typedfs): histories of write / read and ALL typed helpers on 1-3 real temp-directory layers, 5 games x 8 "
        "languages, localized or not, names with and without the compressed suffix, images from independent Python reference writers "
        "(bin archives with strings / pointers / labels and permuted tables, Shift-JIS and UTF-16 text archives, pack, arc, CTPK / BCH / "
        "CGFX / TPL containers, truncated / bit-flipped / junk files); every typed result compared AS A VALUE with the extracted model in "
        "which codec, parsers and serializers are the real models (Model/FsTyped.v), stored bytes of the typed writers compared "
        "byte-exactly through the walk")


def hook(cls):
    """class decorator for gen/c12.py's C12: adds the typed-e2e stream and routes its cases to this module"""
    g0, o0, a0, n0, s0, x0 = cls.generate, cls.oracle, cls.agree, cls.nontrivial, cls.shrink_candidates, cls.extra_checks

    def is_typed(case):
        return case.line.startswith("typedfs ")

    def generate(self, rng, tier):
        cases = g0(self, rng, tier)
        return cases + gen_cases(random.Random(rng.random()), tier)

    def oracle_(self, case, impl_out, profile):
        return oracle(case, impl_out) if is_typed(case) else o0(self, case, impl_out, profile)

    def agree_(self, case, impl_out, model_out, profile):
        return agree(case, impl_out, model_out, profile) if is_typed(case) else a0(self, case, impl_out, model_out, profile)

    def nontrivial_(self, case, impl_out):
        return nontrivial(case, impl_out) if is_typed(case) else n0(self, case, impl_out)

    def shrink_(self, case):
        return shrink_case(case) if is_typed(case) else s0(self, case)

    def extra_(self, ctx):
        viol, cov = x0(self, ctx)
        viol, cov = list(viol), dict(cov)
        cov["typed_e2e_values_checked_by_oracle"] = dict(sorted(STATS.items()))
        # the theorems quantify over both arithmetic profiles: the same histories on the RELEASE build of the harness, compared
        # with the model's wrapping-arithmetic run (the property's own profile list stays debug-only)
        rv, rc = release_leg(ctx["wd"])
        cov["typed_e2e_release_build"] = rc
        return viol + rv, cov

    cls.generate, cls.oracle, cls.agree, cls.nontrivial, cls.shrink_candidates = generate, oracle_, agree_, nontrivial_, shrink_
    cls.extra_checks = extra_
    cls.rule = cls.rule + RULE
    # the end-to-end theorems are compiled (and, once pasted into Properties/C12.v, audited) with the property
    cls.coq_targets = ["Properties/%s.vo" % cls.pid, "Proofs/LayeredFSTyped.vo"] + common.extraction_targets()
    return cls
