# C18: asset-binary round trip preserves every field of every spec.
import os
import struct
from common import PropertyCheck, Case, REPO
import recsfmt as R

NAN_PATTERNS = [0x7FA00001, 0xFFC12345, 0x7FC00000, 0xFFC00000, 0x7F800001, 0xFF800001, 0x7FFFFFFF, 0x7FA00000, 0x7F800000, 0xFF800000,
                0x00000000, 0x80000000, 0x00000001, 0x3F800000, 0xDEADBEEF, 0x00FF0000, 0x000000FF, 0x01020304]
NFIELDS = R.N_STRS + R.N_TYPED


def rand_val(rng):
    r = rng.random()
    if r < 0.35:
        return rng.choice(NAN_PATTERNS)
    if r < 0.45:
        return rng.choice([0, 1, 0xFFFFFFFF, 0x80000000, 0x7FFFFFFF])
    return rng.getrandbits(32)


def make_spec(rng, present, name=True, distinct_vals=True):
    """present: set of field indices (0..32 strings, 33..50 typed).  Every present field gets its own recognisable value so
    that a field read into the wrong place, or two fields swapped, changes the value."""
    sp = R.empty_spec()
    if name:
        sp["name"] = b"n" + bytes(rng.choice(b"abcdefgh") for _ in range(rng.randint(0, 3)))
    for i in present:
        if i < R.N_STRS:
            sp["strs"][i] = (b"s%d_" % i) + R.rand_string(rng) if distinct_vals else R.rand_string(rng)
        else:
            j = i - R.N_STRS
            v = rand_val(rng)
            if distinct_vals and rng.random() < 0.5:
                v = 0x10203040 + j * 0x01010101        # four different channel bytes
            sp["typed"][j] = (True, v)
    return sp


class C18(PropertyCheck):
    pid = "C18"
    release_too = True       # both build profiles (review 2: the both-modes theorems must be tied to a release build too)
    source_tables = ["AssetBin", "BIN_HEADER"]   # tables / constants regenerated from /repo's source (gen/srctables.py)
    rule = ("every spec family of the property is enumerated through the public API: each of the 51 flagged fields present alone "
            "(with and without a name), every adjacent pair, all-absent, all-present, every subset of the fields of one flag byte "
            "(bytes 0, 4, 5, 6), random subsets with random values (NaN payloads, boundary words, 4 distinct colour channels), "
            "0-5 specs per file, header flags incl. 0 and 0xFFFFFFFF, non-normal-form values (absent field holding a value), "
            "the game file, and hand-built images with the long form forced / unused flag bits set.  Non-trivial = the case has at "
            "least one present flagged field; distinct = distinct case line.")
    assumptions = ["A-codec: strings are given in Shift-JIS encoded form; encoding_rs decodes/encodes the generated alphabet losslessly",
                   "f32 fields are transported as bit patterns (from_bits/to_bits) on both sides",
                   "normal form: the value of a typed field whose use_* flag is false is not stored; it reads back as the default 0",
                   "image (data + strings + 35) below 2^32 (asset_fits)"]

    # ------------------------------------------------------------------ generation
    def generate(self, rng, tier):
        cases = []

        def add(flags, specs, stream):
            cases.append(Case(R.asset_case(flags, specs), stream))

        for name in (True, False):
            add(0, [make_spec(rng, [], name)], "none")
            add(0x03E81111, [make_spec(rng, range(NFIELDS), name)], "all")
            for i in range(NFIELDS):
                add(7, [make_spec(rng, [i], name)], "single")
        for i in range(NFIELDS - 1):
            add(1, [make_spec(rng, [i, i + 1])], "pairs")
            # the same pair followed by another record, so that a wrong width of the pair shows up
            add(1, [make_spec(rng, [i, i + 1]), make_spec(rng, [0])], "pairs")
        # every subset of the fields of one flag byte
        for byte in (0, 4, 5, 6):
            members = [i for i, (b, _) in enumerate(R.FIELD_BITS) if b == byte]
            for mask in range(1 << len(members)):
                pres = [m for k, m in enumerate(members) if (mask >> k) & 1]
                add(2, [make_spec(rng, pres, name=(mask & 1) == 0)], "byte-subsets")
        # codec edge strings (seeds C17-8, C18-8): as name and as string fields of the short and of the long form
        for k, w in enumerate(R.CODEC_WORDS):
            sp = make_spec(rng, [k % R.N_STRS, (k + 7) % R.N_STRS, 31, 32] if k % 2 else [k % 31], name=True)
            sp["name"] = w
            sp["strs"] = [(w if v is not None else None) for v in sp["strs"]]
            add(3, [sp], "codec-edge")
        # different strings with equal FxHash (seed C18-10): both members in one record, in two records of one file, with a common
        # suffix, as names and as string fields
        for k, (x, y) in enumerate(R.FX_PAIRS):
            for suf in (b"", b"_cl0n"):
                a, b = x + suf, y + suf
                sp = make_spec(rng, [], name=True)
                sp["name"] = a
                sp["strs"][k % R.N_STRS] = b
                sp["strs"][32] = a
                add(1, [sp], "fx-collision")
                s1 = make_spec(rng, [], name=True); s1["name"] = b"n1"; s1["strs"][(k + 3) % 31] = a
                s2 = make_spec(rng, [], name=True); s2["name"] = b; s2["strs"][(k + 3) % 31] = b
                s3 = make_spec(rng, [], name=True); s3["name"] = a
                add(1, [s1, s2, s3], "fx-collision")
        add(0, [], "empty-file")
        add(0xFFFFFFFF, [], "empty-file")
        n_rand = 500 if tier == "quick" else 30000
        for _ in range(n_rand):
            flags = rng.choice([0, 1, 0xFFFFFFFF, rng.getrandbits(32)])
            specs = []
            for _ in range(rng.choice([0, 1, 1, 1, 2, 3, 5])):
                dens = rng.choice([0.0, 0.05, 0.3, 0.6, 0.95, 1.0])
                pres = [i for i in range(NFIELDS) if rng.random() < dens]
                if rng.random() < 0.3:
                    pres = [i for i in pres if i < R.EXT_FIRST]      # short form
                specs.append(make_spec(rng, pres, name=rng.random() < 0.8, distinct_vals=rng.random() < 0.5))
            add(flags, specs, "random")
        for _ in range(60 if tier == "quick" else 1500):
            sp = make_spec(rng, [i for i in range(NFIELDS) if rng.random() < 0.4])
            sp["typed"] = [(u, v if u else rand_val(rng) | 1) for (u, v) in sp["typed"]]
            add(5, [sp, make_spec(rng, [3])], "non-normal")
        # the game file, and images the library did not write itself
        game = open(os.path.join(REPO, "resources", "test", "AssetBinary_Test.bin"), "rb").read()
        cases.append(Case("asset p " + R.B(game), "gamefile"))
        for _ in range(40 if tier == "quick" else 800):
            specs = [make_spec(rng, [i for i in range(NFIELDS) if rng.random() < rng.choice([0.1, 0.5])])
                     for _ in range(rng.randint(0, 3))]
            img = R.encode_asset_image(rng.getrandbits(32), specs, force_long=rng.random() < 0.5,
                                       junk_bits=rng.choice([0, 0, rng.getrandbits(12)]))
            cases.append(Case("asset p " + R.B(img), "foreign-image", {"specs": len(specs)}))
        return cases

    # ------------------------------------------------------------------ oracle
    def nontrivial(self, case, impl_out):
        toks = case.line.split()
        if toks[1] == "p":
            return "re=ok" in impl_out
        _, specs, _ = R.parse_asset_value(toks[2:])
        return any(any(s is not None for s in sp["strs"]) or any(u for (u, _) in sp["typed"]) for sp in specs)

    def oracle(self, case, impl_out, profile):
        if impl_out in ("PANIC", "ABORT", "TIMEOUT", "MISSING-OUTPUT") or impl_out.startswith("UNKNOWN"):
            return "implementation %s" % impl_out
        toks = case.line.split()
        parts = dict(p.split("=", 1) for p in impl_out.split(" | "))
        if toks[1] == "p":
            if case.stream == "gamefile":
                if not parts.get("re", "").startswith("ok:"):
                    return "game file rejected"
                if parts.get("ser2") != toks[2]:
                    return "game file: re-serialized bytes differ from the file"
                dec = R.decode_asset_image(R.unB(toks[2]))
                if isinstance(dec, str):
                    return "game file: independent decoder: " + dec
                fl, specs, _ = R.parse_asset_value(parts["re"][3:].split())
                if (fl, specs) != (dec[0], dec[1]):
                    return "game file: value read differs from the independent decoder's"
            elif parts.get("re", "").startswith("ok:") and parts.get("ser2", "err") == "err":
                return "accepted image cannot be re-serialized"
            return None
        flags, specs, _ = R.parse_asset_value(toks[2:])
        want = [R.normal_form(sp) for sp in specs]
        ser = parts.get("ser")
        if ser is None or ser == "err":
            return "serialize failed"
        re_ = parts.get("re", "")
        if not re_.startswith("ok:"):
            return "the serialized image is rejected by the reader (%s)" % re_
        fl2, specs2, _ = R.parse_asset_value(re_[3:].split())
        if fl2 != flags:
            return "header flags %d read back as %d" % (flags, fl2)
        if len(specs2) != len(want):
            return "%d specs written, %d read back" % (len(want), len(specs2))
        for k, (a, b) in enumerate(zip(want, specs2)):
            if a["name"] != b["name"]:
                return "spec %d: name %r read back as %r" % (k, a["name"], b["name"])
            for i in range(R.N_STRS):
                if a["strs"][i] != b["strs"][i]:
                    return "spec %d: string field %d %r read back as %r" % (k, i, a["strs"][i], b["strs"][i])
            for j in range(R.N_TYPED):
                if a["typed"][j] != b["typed"][j]:
                    return "spec %d: typed field %d %r read back as %r" % (k, j, a["typed"][j], b["typed"][j])
        if parts.get("ser2") != ser:
            return "re-serializing the re-read value gives different bytes"
        # record layout, decoded independently of the library's reader
        dec = R.decode_asset_image(R.unB(ser))
        if isinstance(dec, str):
            return "record layout: " + dec
        hdr, dspecs, recs = dec
        if hdr != flags or dspecs != want:
            return "independent decoder reads a different value from the image"
        for k, (sp, (off, fb, size)) in enumerate(zip(want, recs)):
            ext = any(s is not None for s in sp["strs"][R.EXT_FIRST:]) or any(u for (u, _) in sp["typed"])
            if (len(fb) == 4) != (not ext):
                return "spec %d: %d flag bytes written but extended fields present = %s" % (k, len(fb), ext)
            npres = sum(1 for s in sp["strs"] if s is not None) + sum(1 for (u, _) in sp["typed"] if u)
            if size != len(fb) + 4 + 4 * npres:
                return "spec %d: record occupies %d bytes, %d fields present" % (k, size, npres)
        return None

    def agree(self, case, impl_out, model_out, profile):
        return impl_out == model_out

    def shrink_candidates(self, case):
        toks = case.line.split()
        if toks[1] != "v":
            return
        flags, specs, _ = R.parse_asset_value(toks[2:])
        for k in range(len(specs)):
            yield Case(R.asset_case(flags, specs[:k] + specs[k + 1:]), case.stream)
        for k, sp in enumerate(specs):
            for i in range(R.N_STRS):
                if sp["strs"][i] is not None:
                    s2 = dict(sp, strs=sp["strs"][:i] + [None] + sp["strs"][i + 1:])
                    yield Case(R.asset_case(flags, specs[:k] + [s2] + specs[k + 1:]), case.stream)
            for j in range(R.N_TYPED):
                if sp["typed"][j][0]:
                    s2 = dict(sp, typed=sp["typed"][:j] + [(False, 0)] + sp["typed"][j + 1:])
                    yield Case(R.asset_case(flags, specs[:k] + [s2] + specs[k + 1:]), case.stream)
        if flags:
            yield Case(R.asset_case(0, specs), case.stream)


TB = ("Trusted: Coq 8.16.1 kernel (vm_compute, no native_compute), no axioms (Print Assumptions audited on every run), "
      "ExtrOcamlBasic extraction + hand-written OCaml driver, the Rust harness and Python generators/oracles. ")

MANIFEST = dict(
    text="Theorems about an executable Gallina model of AssetSpec::from_stream / compute_flags / append and AssetBinary::from_archive / "
         "serialize: the reader, the flag computation and the writer are transcribed as three INDEPENDENT tables of the 51 flagged fields "
         "(each is hand-unrolled in the source); a generic theorem proves that for any common well-formed schema (distinct bits, marker "
         "bit free, extended fields behind flag byte >= 4) the reader inverts the writer (C18_agreement_implies_round_trip) and the "
         "agreement of the three concrete tables with one well-formed schema is computed (C18_schemas_agree). Round trip for ALL specs "
         "(C18_round_trip_normalises; hypotheses: the representation invariants of the Rust struct - 33 strings, 18 typed fields, 32-bit "
         "patterns, NaN payloads included - NUL-free strings, image < 2^32; both arithmetic modes; premise-free, proved from the "
         "bin-archive round trip C01 via Proofs/RecsBinBridge.v): serialize succeeds and parse(bytes) returns the NORMALISED value - the "
         "same header flags and per spec the same name, the same 33 optional strings, the same 18 presence flags and the same value of "
         "every PRESENT typed field (C18_normalise_keeps). SCOPE REMARK: a value held by an ABSENT typed field (use flag false) is not "
         "preserved - the format does not store it, it reads back as the default 0; the literal reading 'arbitrary field values read back "
         "exactly' is stated as C18_round_trip_full and REFUTED (C18_round_trip_full_refuted: unk3 = 5 with use_unk3 = false; the real "
         "crate behaves the same), equality holds exactly on the normal form (C18_round_trip_equal_iff_normal_form, "
         "C18_round_trip_normal_form). Further: the writer builds exactly the cell list flags word ++ records ++ trailing zero word and the "
         "reader returns the value on every archive showing that layout (C18_round_trip_archive, C18_reader_inverts_layout), 4 flag bytes "
         "are used iff no extended field is present (C18_short_form), a record occupies |flags| + 4 + 4 * #present fields = the announced "
         "size and #present = popcount(flags) - marker (C18_record_size), the data-size field of the file is 4 + the announced sizes + 4 "
         "(C18_data_size), whatever the reader returns from any archive / byte string is in normal form and a fixed point of write -> read "
         "(C18_reader_output_round_trips), the read loop stops at the trailing zero word (C18_read_loop_stops). Model tied to /repo on every "
         "run: value -> serialize -> parse -> re-serialize compared line by line with the extracted model (every field toggled alone, "
         "adjacent pairs, all-absent, all-present, random subsets, non-normal-form values), plus an independent Python decoder of the "
         "image as oracle.",
    note=TB + "Strings are Shift-JIS encoded byte lists (A-codec). ASSUMPTION (A-f32): an f32 field IS its 32-bit pattern in the model; on "
              "the Rust side 'bit-for-bit, NaN payloads included' rests on f32::from_bits / to_bits and byteorder's read_f32 / write_f32 "
              "being the identity on every pattern, signalling NaNs included (true on x86-64 / SSE2, exercised by planted patterns "
              "0x7FA00001, 0xFFC12345, -0.0 in the generator; not provable inside Coq). The conjunct 're-serializing whatever is re-read "
              "gives the same bytes' follows from the other two in the deterministic model; that two runs of the real serializer (fresh "
              "hash state) agree is C02's statement, observed here by the harness (ser2 = ser).",
    technique="Coq proof (three transcribed tables = projections of one computed-well-formed schema; cell-list simulation of the writer, layout "
              "inversion by the reader; normalisation lemma: the writer ignores absent values; byte level from the bin-archive round trip C01) "
              "+ extracted-model differential check + independent decoder oracle",
    ref="DESIGN.md section 6 (C18)")
