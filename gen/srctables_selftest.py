#!/usr/bin/env python3
# Self-test of gen/srctables.py:  python3 gen/srctables_selftest.py <scratch worktree of the repository>
#  1. harmless rewrites (reformatting, hex/decimal/binary literals, trailing commas, comments inside tables,
#     arm order, `|` vs ranges, constant expressions) must leave the generated file unchanged;
#  2. each listed mutation must change exactly the named table;  3. a removed anchor must be reported as a failure.
# The worktree is modified and restored with `git checkout -- .`.
import os
import re
import subprocess
import sys

sys.path.insert(0, os.path.dirname(os.path.abspath(__file__)))
import srctables  # noqa: E402


def edit(wt, rel, fn):
    p = os.path.join(wt, rel)
    s = open(p, encoding="utf-8").read()
    t = fn(s)
    if t == s:
        raise SystemExit("selftest: edit of %s did not change anything" % rel)
    open(p, "w", encoding="utf-8").write(t)


def sub(pat, rep, count=1, flags=0):
    def f(s):
        t, n = re.subn(pat, rep, s, count=count, flags=flags)
        if n == 0:
            raise SystemExit("selftest: pattern %r not found" % pat)
        return t
    return f


def chain(*fs):
    def f(s):
        for g in fs:
            s = g(s)
        return s
    return f


HARMLESS = [
    ("src/texture_decoder.rs", chain(
        sub(r"static TILE_ORDER: &\[u8\] = &\[\s*0, 1, 8, 9,", "static TILE_ORDER: &[u8] = &[\n    // first row\n    0x0,1 , 0b1000, /* nine */ 9u8,\n"),
        sub(r"54, 55, 62, 63,\n\];", "54, 55, 62,\n    63\n];"),
        sub(r"0x00, 0x08, 0x10, 0x18,", "0, 8, 16, 0x1_8,"),
        sub(r"0x2\.\.=0x5 => 2\.0,", "2 | 3 | 4 => 2.0f32,\n        // five\n        5 => 2.,"),
        sub(r"0xA \| 0xC => 0\.5,", "10 => 0.5, 12 => 0.5,"),
        sub(r"0\.\.=11 => \{", "0..=0xB => {"),
        sub(r"12 \| 13 => etc1::decode\(data, width, height, format == 13\),", "0xC | 0xD => etc1::decode(data, width, height, format == 0xD),"),
        sub(r"2\.\.=5 => \{", "2 | 3 | 4 | 5 => {"),
    )),
    ("src/etc1.rs", chain(
        sub(r"vec!\[2, 8\],", "vec![ 0x2 , 8, ], // first"),
        sub(r"const ETC_INDIV_RED1_OFFSET: usize = 60;", "const ETC_INDIV_RED1_OFFSET: usize = 0x3C;"),
        sub(r"const ETC1A4_BLOCK_SIZE: usize = 16;", "const ETC1A4_BLOCK_SIZE: usize = 2 * 8;"),
    )),
    ("src/pixel_encodings.rs", chain(
        sub(r"let a = 0x20 \* \(\(value >> 12\) & 0x7\);", "let a = 32 * ((value >> 0xC) & 7);"),
        sub(r"ColorFormat::RGB5A3 => 2,", "ColorFormat::RGB5A3 => 0x2,"),
    )),
    ("src/localization.rs", chain(
        # reorder two arms of FE13, a comment with a misleading string, char vs str literal
        sub(r'Language::EnglishNA => result\.push_str\("/E/"\),\n\s*Language::EnglishEU => result\.push_str\("/U/"\),',
            'Language::EnglishEU => result.push_str("/U/"), // not "/X/"\n            Language::EnglishNA => result.push_str("/E/"),'),
        sub(r"Language::Japanese => result\.push\('/'\),", 'Language::Japanese => result.push_str("/"),'),
        sub(r'Language::Dutch => result\.push_str\("/@NOE_DU/"\),', 'Language::Dutch => { result.push_str("/@NOE_DU/"); }'),
    )),
    ("src/layered_filesystem.rs", chain(
        sub(r"Game::FE9 => CompressionFormat::LZ10\(LZ10CompressionFormat \{\}\),\n\s*Game::FE10 => CompressionFormat::LZ10\(LZ10CompressionFormat \{\}\),",
            "Game::FE9 | Game::FE10 => CompressionFormat::LZ10(LZ10CompressionFormat {}),"),
        sub(r"Game::FE9 \| Game::FE10 => Endian::Big,\n\s*_ => Endian::Little,", "Game::FE10 => Endian::Big,\n            Game::FE9 => Endian::Big,\n            _ => Endian::Little,"),
    )),
    ("src/lz10.rs", chain(
        sub(r"min\(read_bytes, 0x1000\)", "min(read_bytes, 4096)"),
        sub(r"min\(bytes\.len\(\) - read_bytes, 0x12\)", "min(bytes.len() - read_bytes, 16 + 2)"),
        sub(r"buf\.push\(0x10\);", "buf.push(16);"),
    )),
    ("src/lz13.rs", chain(
        sub(r"if length > 0x110 \{", "if length > 272 {"),
        sub(r"sp\.0\.min\(4096\)", "sp.0.min(0x1000)"),
        sub(r"0x10 => false,\n\s*0x11 => true,", "17 => true,\n        16 => false,"),
    )),
    ("src/asset_binary.rs", chain(
        sub(r"if \(flags\[4\] & 0b100\) != 0 \{", "if (flags[4] & 4) != 0 {"),
        sub(r"flags\[0\] \|= if self\.conditional1\.is_none\(\) \{ 0 \} else \{ 0b10 \};", "flags[0] |= if self.conditional1.is_none() {\n            0\n        } else {\n            1 << 1\n        };"),
        sub(r"spec\.conditional2 = read_flag_str\(reader, &flags, 2\)\?;", "spec.conditional2 = read_flag_str(reader, &flags, 0x2)?; // second"),
    )),
    ("src/aset.rs", chain(
        sub(r"for _ in 0\.\.257 \{", "for _ in 0..0x101 {"),
        sub(r"archive\.write_u32\(8, 0x100\)\?;", "archive.write_u32(8, 256)?;"),
    )),
    ("src/fe9_arc.rs", chain(
        sub(r"const METADATA_SIZE: usize = 0x10;", "const METADATA_SIZE: usize = 16;"),
        sub(r"const MAGIC: u32 = 0x7061636B;", "const MAGIC: u32 = 0x7061_636B; // \"pack\""),
    )),
    ("src/bin_archive.rs", sub(r"if bytes\.len\(\) < 0x20 \{", "if bytes.len() < 32 {")),
    ("src/tpl.rs", chain(
        sub(r"#\[br\(magic = 0x0020AF30\)\]", "#[br(magic = 0x0020_AF30u32)]"),
        sub(r"CI8 = 9,", "CI8 = 0x9,"),
    )),
]

# (file, edit, tables that must change)
MUTATIONS = [
    ("src/texture_decoder.rs", sub(r"54, 55, 62, 63,", "54, 55, 63, 62,"), ["TILE_ORDER"]),
    ("src/texture_decoder.rs", sub(r"0xBD, 0xC5,", "0xBC, 0xC5,"), ["CONVERT_5_TO_8"]),
    ("src/texture_decoder.rs", sub(r"0x6 \| 0x7 \| 0x8 \| 0x9 \| 0xB \| 0xD => 1\.0,", "0x6 | 0x7 | 0x8 | 0x9 | 0xD => 1.0,"), ["BPP2"]),
    ("src/texture_decoder.rs", sub(r"0\.\.=11 => \{", "0..=10 => {"), ["DECODE_DISPATCH"]),
    ("src/texture_decoder.rs", sub(r"6\.\.=9 => decode_color\(cursor\.read_u8", "6..=8 => decode_color(cursor.read_u8"), ["READ_WIDTH"]),
    ("src/etc1.rs", sub(r"vec!\[13, 42\]", "vec![13, 41]"), ["ETC_MODIFIERS"]),
    ("src/etc1.rs", sub(r"const ETC_TABLE2_OFFSET: usize = 34;", "const ETC_TABLE2_OFFSET: usize = 35;"), ["ETC_OFFSETS"]),
    ("src/pixel_encodings.rs", sub(r"let g = 0x8 \* \(\(value >> 5\) & 0x1F\);", "let g = 0x8 * ((value >> 5) & 0x3F);"), ["RGB5A3"]),
    ("src/pixel_encodings.rs", sub(r"ColorFormat::CI8 => true,", "ColorFormat::CI8 => false,"), ["COLORFORMAT_INDEXED"]),
    ("src/localization.rs", sub(r'"/@S/"', '"/@s/"'), ["LOCALIZE_MARKERS"]),
    ("src/localization.rs", sub(r"Language::Japanese \| Language::EnglishNA \| Language::EnglishEU => result\.push\('/'\),", "Language::Japanese | Language::EnglishNA => result.push('/'),"), ["LOCALIZE_MARKERS"]),
    ("src/layered_filesystem.rs", sub(r"Game::FE9 \| Game::FE10 => TextArchiveFormat::ShiftJIS,", "Game::FE9 => TextArchiveFormat::ShiftJIS,"), ["FS_CONFIG"]),
    ("src/lz13.rs", sub(r'filename\.ends_with\("\.lz"\)', 'filename.ends_with(".lz") || filename.ends_with(".lz13")'), ["LZ13_SUFFIXES"]),
    ("src/lz10.rs", sub(r"min\(read_bytes, 0x1000\)", "min(read_bytes, 0x0FFF)"), ["LZ10_CONSTS"]),
    ("src/lz13.rs", sub(r"if length > 0x110 \{", "if length > 0x10F {"), ["LZ13_CONSTS"]),
    ("src/lz13.rs", sub(r"\+ 0x111, \(b2 & 15\)", "+ 0x110, (b2 & 15)"), ["LZ_DECODE_CONSTS"]),
    ("src/lz13.rs", sub(r"sp\.0\.min\(4096\)", "sp.0.min(4095)"), ["LZ13_HEADER_CONSTS"]),
    ("src/asset_binary.rs", sub(r"spec\.head_model = read_flag_str\(reader, &flags, 5\)\?;\n\s*spec\.head_texture = read_flag_str\(reader, &flags, 6\)\?;",
                                 "spec.head_texture = read_flag_str(reader, &flags, 6)?;\n        spec.head_model = read_flag_str(reader, &flags, 5)?;"), ["ASSET_R_BASE"]),
    ("src/asset_binary.rs", sub(r"flags\[5\] \|= if !self\.use_unk7 \{ 0 \} else \{ 0b100000 \};", "flags[5] |= if !self.use_unk7 { 0 } else { 0b1000000 };"), ["ASSET_F_SCHEMA"]),
    ("src/asset_binary.rs", sub(r"writer\.write_u32\(self\.unk12\)\?;", "writer.write_u32(self.unk13)?;"), ["ASSET_W_EXT"]),
    ("src/aset.rs", sub(r"for _ in 0\.\.257 \{", "for _ in 0..256 {"), ["ASET_CONSTS"]),
    ("src/arc.rs", sub(r"\{ 0x60 \} else \{ 0 \}", "{ 0x40 } else { 0 }"), ["ARC_HEADER_PAD"]),
    ("src/fe9_arc.rs", sub(r"const PADDING_BOUNDARY: usize = 32;", "const PADDING_BOUNDARY: usize = 16;"), ["PACK_CONSTS"]),
    ("src/bin_archive.rs", sub(r"pointer_value \+ 0x20\)", "pointer_value + 0x1C)"), ["BIN_HEADER"]),
    ("src/bin_archive.rs", sub(r"if file_size > u32::MAX as usize \{", "if file_size > u32::MAX as usize + 1 {"), ["BIN_HEADER"]),
    ("src/tpl.rs", sub(r"TplImageFormat::CI8 => \(8, 4\),", "TplImageFormat::CI8 => (4, 8),"), ["TPL_IMAGE_FORMATS"]),
    ("src/bch.rs", sub(r"backward_compatibility > 20 \{", "backward_compatibility > 0x20 {", count=2), ["BCH_CONSTS"]),
]

ANCHOR_LOSS = [
    ("src/texture_decoder.rs", sub(r"static TILE_ORDER", "static TILE_ORDER_V2"), ["TILE_ORDER", "CONVERT_5_TO_8"]),
    ("src/localization.rs", sub(r"impl FE14PathLocalizer", "impl FE14PathLocalizerX"), ["LANGUAGE_NAMES", "LOCALIZER_NAMES", "LOCALIZE_MARKERS"]),
]


def snapshot(wt):
    tables, failures = srctables.extract_all(wt)
    return {t.name: srctables.coq_val(t.value, t.typ) for t in tables}, failures


def main():
    wt = sys.argv[1]
    if os.path.realpath(wt) == "/repo":
        raise SystemExit("selftest: refuses to edit /repo; give a scratch worktree")
    restore = lambda: subprocess.run(["git", "checkout", "-q", "--", "."], cwd=wt, check=True)  # noqa: E731
    restore()
    base, fail0 = snapshot(wt)
    bad = 0
    if fail0:
        print("FAIL: translator fails on the unchanged tree:", fail0)
        bad += 1
    for rel, f in HARMLESS:
        edit(wt, rel, f)
    got, fails = snapshot(wt)
    after = srctables.render(*srctables.extract_all(wt))
    restore()
    render_same = after == srctables.render(*srctables.extract_all(wt))
    if fails or got != base or not render_same:
        bad += 1
        print("FAIL: harmless rewrites changed the tables:", fails, [k for k in base if got.get(k) != base[k]])
    else:
        print("ok   %d harmless rewrites in %d files: generated file byte-identical" % (sum(1 for _ in HARMLESS), len(HARMLESS)))
    for rel, f, expect in MUTATIONS + ANCHOR_LOSS:
        restore()
        edit(wt, rel, f)
        got, fails = snapshot(wt)
        changed = sorted([k for k in base if k in got and got[k] != base[k]] + [k for k in base if k not in got])
        if (rel, f, expect) in ANCHOR_LOSS:
            okk = sorted(fails) == sorted(expect)
        else:
            okk = changed == sorted(expect) and not fails
        print("%s %-26s -> changed %s%s" % ("ok  " if okk else "FAIL", rel, changed, (" failures %s" % sorted(fails)) if fails else ""))
        bad += 0 if okk else 1
    restore()
    print("selftest: %s" % ("all good" if not bad else "%d problems" % bad))
    return 1 if bad else 0


if __name__ == "__main__":
    sys.exit(main())
