# Python front end of the verified format checker conformsb (coq/Model/BinConformsB.v, sound by
# coq/Proofs/BinConformsBSound.v: conformsb e f c = true -> conforms e f c).  Model-only: runs the extracted driver
# directly (kind `conformsb`, token format documented in coq/Extract/drv/d_conformsb.ml).
#
#   verdicts = conformsb.check_files([(endian, file_bytes, content), ...])      -> list of bool
#       endian  : "L" | "B"
#       content : dict with keys  "ptr"  {cell: dest}, "text" {cell: bytes}, "lab" {addr: [bytes, ...]}  (missing = empty)
#                 and optionally "data": bytes - the expected data region (pointer / string cells as stored in the file);
#                 without it the file's own data region is used and only the annotations are checked against it.
#                 An object with attributes .ptr/.text/.lab (barandom.Content) is accepted too.
import subprocess

import common


def _get(content, key):
    if isinstance(content, dict):
        return content.get(key)
    return getattr(content, key, None)


def case_line(endian, file_bytes, content):
    ptr = _get(content, "ptr") or {}
    text = _get(content, "text") or {}
    lab = _get(content, "lab") or {}
    data = _get(content, "data") if isinstance(content, dict) else None
    toks = ["conformsb", "L" if endian in ("L", "le", "LE", "<") else "B", "B" + bytes(file_bytes).hex()]
    toks.append("P" + ",".join("%d:%d" % (c, d) for c, d in ptr.items()))
    toks.append("T" + ",".join("%d:B%s" % (c, bytes(s).hex()) for c, s in text.items()))
    toks.append("A" + ",".join("%d:%s" % (a, "|".join("B" + bytes(n).hex() for n in names)) for a, names in lab.items()))
    if data is not None:
        toks.append("D" + bytes(data).hex())
    return " ".join(toks)


def ensure_driver():
    ok, out = common.build_coq(common.extraction_targets())
    if not ok:
        raise RuntimeError("coq build failed: " + out[-800:])
    ok, out = common.build_driver()
    if not ok:
        raise RuntimeError("driver build failed: " + out[-800:])


def check_files(items, build=False):
    """items: list of (endian, file_bytes, content); returns the list of verdicts (bool), same order"""
    if build:
        ensure_driver()
    lines = [case_line(e, f, c) for (e, f, c) in items]
    if not lines:
        return []
    p = subprocess.run([common.driver_bin()], input=("\n".join(lines) + "\n").encode(), stdout=subprocess.PIPE,
                       stderr=subprocess.PIPE, env=common.ENV)
    out = p.stdout.decode().split("\n")
    if out and out[-1] == "":
        out.pop()
    if p.returncode != 0 or len(out) != len(lines):
        raise RuntimeError("conformsb driver failed: rc=%s, %d lines for %d cases: %s" % (p.returncode, len(out), len(lines), p.stderr.decode()[-400:]))
    bad = [o for o in out if o not in ("true", "false")]
    if bad:
        raise RuntimeError("conformsb driver: unexpected output %r" % bad[:3])
    return [o == "true" for o in out]
