# Reference statements of the texture formats for the C19/C20 oracles -- written from the published
# format descriptions (3DS PICA200 tiled textures, Khronos ETC1, GameCube/Wii RGB5A3 + CI8 blocks, and the
# CTPK / BCH / CGFX / TPL container layouts), independently of the Coq model and of mila's source.
import struct

# ---------------------------------------------------------------- 3DS tile layout
def morton(x, y):
    """position of texel (x, y), 0 <= x, y < 8, inside an 8x8 tile: bits of x and y interleaved, x lowest"""
    p = 0
    for b in range(3):
        p |= ((x >> b) & 1) << (2 * b)
        p |= ((y >> b) & 1) << (2 * b + 1)
    return p


def tiled_index(w, X, Y):
    """index of the source element of pixel (X, Y) in a w-wide texture stored as 8x8 Z-order tiles"""
    return ((Y // 8) * (w // 8) + X // 8) * 64 + morton(X % 8, Y % 8)


# format id -> (bytes per element, [(channel, shift, bits)...], luminance?)   channels: 0 r 1 g 2 b 3 a
# (the PICA200 colour formats the property lists; values are little-endian)
FORMATS = {
    0: ("RGBA8", 4, [(0, 24, 8), (1, 16, 8), (2, 8, 8), (3, 0, 8)]),
    2: ("RGBA5551", 2, [(0, 11, 5), (1, 6, 5), (2, 1, 5), (3, 0, 1)]),
    3: ("RGB565", 2, [(0, 11, 5), (1, 5, 6), (2, 0, 5)]),
    4: ("RGBA4", 2, [(0, 12, 4), (1, 8, 4), (2, 4, 4), (3, 0, 4)]),
    5: ("LA8", 2, [("l", 8, 8), (3, 0, 8)]),
    7: ("L8", 1, [("l", 0, 8)]),
    8: ("A8", 1, [(3, 0, 8)]),
}
PAYLOAD_BPP2 = {0: 8, 2: 4, 3: 4, 4: 4, 5: 4, 7: 2, 8: 2, 12: 1, 13: 2}   # twice the bytes per pixel


def payload_size(fmt, w, h):
    return PAYLOAD_BPP2[fmt] * w * h // 2


def within_one_step(d, v, n):
    """decoded 8-bit channel d of an n-bit field v: within one quantisation step of the linear expansion
    255*v/(2^n-1); exact for 8-, 4- and 1-bit fields"""
    mx = (1 << n) - 1
    if n in (8, 4, 1):
        return d * mx == 255 * v
    return abs(d * mx - 255 * v) < (1 << (8 - n)) * mx


def check_color(fmt, value, px):
    """None or a description of why px (r,g,b,a) is not a decoding of `value` in format fmt"""
    name, _, fields = FORMATS[fmt]
    has_alpha = False
    for (ch, shift, bits) in fields:
        v = (value >> shift) & ((1 << bits) - 1)
        if ch == "l":
            for c in (0, 1, 2):
                if not within_one_step(px[c], v, bits):
                    return "%s value %#x: luminance channel %d = %d, field %d" % (name, value, c, px[c], v)
        else:
            if ch == 3:
                has_alpha = True
            if not within_one_step(px[ch], v, bits):
                return "%s value %#x: channel %d = %d is not within one step of the %d-bit field %d" % (name, value, ch, px[ch], bits, v)
    if not has_alpha and px[3] != 255:
        return "%s value %#x: format has no alpha but alpha = %d" % (name, value, px[3])
    return None


def check_tiled_image(fmt, w, h, payload, out):
    """out = w*h*4 RGBA bytes claimed to be the decoding of payload"""
    if len(out) != 4 * w * h:
        return "output has %d bytes, want %d" % (len(out), 4 * w * h)
    bpe = FORMATS[fmt][1]
    for Y in range(h):
        for X in range(w):
            i = tiled_index(w, X, Y)
            value = int.from_bytes(payload[i * bpe:(i + 1) * bpe], "little")
            o = 4 * (Y * w + X)
            why = check_color(fmt, value, out[o:o + 4])
            if why:
                return "pixel (%d,%d) <- element %d: %s" % (X, Y, i, why)
    return None


# ---------------------------------------------------------------- ETC1 (Khronos OES_compressed_ETC1_RGB8_texture)
ETC1_TABLE = [(2, 8), (5, 17), (9, 29), (13, 42), (18, 60), (24, 80), (33, 106), (47, 183)]


def etc1_block(word, alpha_word=None):
    """4x4 texels [y][x] = (r,g,b,a) of the 64-bit block `word` (bit 63 = first bit of the big-endian block);
    texels of a sub-block whose differential base colour leaves 0..31 are None (undefined by the rules)."""
    diff = (word >> 33) & 1
    flip = (word >> 32) & 1
    cw = [(word >> 37) & 7, (word >> 34) & 7]
    base = [None, None]
    if diff:
        c1, c2, ok = [], [], True
        for top in (63, 55, 47):
            b5 = (word >> (top - 4)) & 31
            d3 = (word >> (top - 7)) & 7
            d = d3 - 8 if d3 >= 4 else d3
            s = b5 + d
            c1.append((b5 << 3) | (b5 >> 2))
            if 0 <= s <= 31:
                c2.append((s << 3) | (s >> 2))
            else:
                ok = False
        base[0] = c1
        base[1] = c2 if ok else None
    else:
        base[0] = [((word >> (top - 3)) & 15) * 17 for top in (63, 55, 47)]
        base[1] = [((word >> (top - 7)) & 15) * 17 for top in (63, 55, 47)]
    out = [[None] * 4 for _ in range(4)]
    for x in range(4):
        for y in range(4):
            k = 4 * x + y
            sub = (0 if y < 2 else 1) if flip else (0 if x < 2 else 1)
            if base[sub] is None:
                continue
            msb = (word >> (16 + k)) & 1
            lsb = (word >> k) & 1
            small, large = ETC1_TABLE[cw[sub]]
            mod = large if lsb else small
            if msb:
                mod = -mod
            rgb = [min(255, max(0, c + mod)) for c in base[sub]]
            a = 255 if alpha_word is None else ((alpha_word >> (4 * k)) & 15) * 17
            out[y][x] = (rgb[0], rgb[1], rgb[2], a)
    return out


def check_etc1_image(alpha, w, h, payload, out):
    if len(out) != 4 * w * h:
        return "output has %d bytes, want %d" % (len(out), 4 * w * h)
    bs = 16 if alpha else 8
    cache = {}
    for Y in range(h):
        for X in range(w):
            bi = ((Y // 8) * (w // 8) + X // 8) * 4 + 2 * ((Y // 4) % 2) + (X // 4) % 2
            if bi not in cache:
                blk = payload[bi * bs:(bi + 1) * bs]
                if alpha:
                    aw, word = struct.unpack("<QQ", blk)
                else:
                    aw, word = None, struct.unpack("<Q", blk)[0]
                cache[bi] = etc1_block(word, aw)
            want = cache[bi][Y % 4][X % 4]
            o = 4 * (Y * w + X)
            got = tuple(out[o:o + 4])
            if want is not None and got != want:
                return "pixel (%d,%d) <- block %d texel (%d,%d): got %r, ETC1 rules give %r" % (X, Y, bi, X % 4, Y % 4, got, want)
    return None


def decode_3ds_reference(fmt, w, h, payload):
    """for formats whose decoding the rules fix exactly (ETC1, and the exact 8/4-bit formats): the expected bytes, else None"""
    return None


# ---------------------------------------------------------------- GameCube / Wii
def check_rgb5a3(value, px):
    if value & 0x8000:
        fields = [(0, 10, 5), (1, 5, 5), (2, 0, 5)]
        if px[3] != 255:
            return "RGB5A3 %#06x: opaque form but alpha = %d" % (value, px[3])
    else:
        fields = [(3, 12, 3), (0, 8, 4), (1, 4, 4), (2, 0, 4)]
    for (ch, shift, bits) in fields:
        v = (value >> shift) & ((1 << bits) - 1)
        if not within_one_step(px[ch], v, bits):
            return "RGB5A3 %#06x: channel %d = %d is not within one step of the %d-bit field %d" % (value, ch, px[ch], bits, v)
    return None


def ci8_index(w, x, y):
    """index into the block data of pixel (x, y) of a CI8 image of width w (8x4 blocks)"""
    aw = (w + 7) // 8 * 8
    return ((y // 4) * (aw // 8) + x // 8) * 32 + (y % 4) * 8 + x % 8


def ci8_data_size(w, h):
    return ((w + 7) // 8 * 8) * ((h + 3) // 4 * 4)
