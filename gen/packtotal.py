# Pack-archive part of C05 (parsers are total on arbitrary bytes): case generator, oracle and
# correspondence relation for the kind `packparse`.  Importable by gen/c05.py:
#     cases  = packtotal.total_cases(rng, tier)            -> list of common.Case (stream names "pack-...")
#     fail   = packtotal.total_oracle(case, impl_out, profile)          -> None | text
#     same   = packtotal.total_agree(case, impl_out, model_out, profile) -> bool
#     packtotal.total_nontrivial(case, impl_out)
# The check using them must set release_too = True (both arithmetic profiles).
import atexit
import os
import struct
import subprocess

import common
from common import Case
import packlib
from packlib import B, unB, MAGIC

ALLOC_FACTOR = 8      # the result map itself: IndexMap keeps ~56 bytes per entry (16 bytes of input each) and grows by doubling
ALLOC_SLACK = 4096


def boundary32(size):
    vals = {0, 1, max(size - 1, 0), size, size + 1, 0x7FFFFFFF, 0x80000000}
    vals.update(range(0xFFFFFFF0, 0x100000000))
    return sorted(vals)


def boundary16(n):
    vals = {0, 1, max(n - 1, 0), n, n + 1, 0x7FFF, 0x8000}
    vals.update(range(0xFFF0, 0x10000))
    return sorted(v for v in vals if v < 0x10000)


def seeds(rng, tier):
    """valid images to mutate: builder-like layouts and knobbed layouts, 0-8 files, small bodies"""
    out = []
    names = packlib.safe_names()
    short = [n for n in names if len(n) <= 16]
    k = 8 if tier == "quick" else 48
    for j in range(k):
        n = [0, 1, 2, 3, 5, 8][j % 6]
        pool = list(short)
        rng.shuffle(pool)
        files = [(pool[i], packlib.rand_body(rng, rng.choice([0, 1, 5, 31, 32, 33, 40]))) for i in range(n)]
        knobs = dict(names_after=(j % 2 == 1), permute=(j % 3 == 2), gaps=(j % 4 == 3), overlap=(j % 5 == 4),
                     share_names=(j % 3 == 1), align=rng.choice([1, 4, 32]), junk_fields=(j % 2 == 0))
        out.append(packlib.ref_write(files, rng, **knobs))
    return out


def total_cases(rng, tier, repo=None):
    cases = []

    def add(b, stream):
        cases.append(Case("packparse " + B(b), stream))

    # (0) the recorded findings and hand-made edge cases (also in corpus/C15)
    add(bytes(8), "pack-wrong-magic")                                        # F7
    add(struct.pack(">IHHIIII", MAGIC, 1, 0, 0, 0x18, 0x20, 0xFFFFFFFF) + b"a\0" + bytes(10), "pack-fields")   # F8
    # (0b) well-formed images with more than 4096 entries: entry-table offsets (8 + 16*i) need more than 16 bits although the
    # count is a u16 (seeded change C05-8 computed `i * 0x10` in u16 and panicked / wrapped from entry 4096 on)
    import random as _random
    for n in ((4097, 5000) if tier == "quick" else (4096, 4097, 8192, 20000, 65535)):
        files = [(b"f%d" % i, bytes([i % 251]) if i % 7 == 0 else b"") for i in range(n)]
        img = packlib.ref_write(files, _random.Random(n), names_after=False, permute=False, gaps=False, overlap=False,
                                share_names=False, align=1, junk_fields=False)
        cases.append(Case("packparsebig " + B(img), "pack-many-entries"))     # implementation + reference reader only (no model run)
    # (a) random bytes, length 0-256; half of them behind a valid magic so that the parser gets going
    nrand = 2000 if tier == "quick" else 60000
    for i in range(nrand):
        n = rng.randrange(0, 257)
        b = bytes(rng.randrange(256) for _ in range(n))
        if i % 2 == 1:
            cnt = rng.choice([0, 1, 2, 3, rng.randrange(65536)])
            b = struct.pack(">IH", MAGIC, cnt) + b
            b = b[:max(n, rng.randrange(0, 12))]
        add(b, "pack-random")
    # (b) wrong magic: every single-bit change of the magic of a valid image, and a few values
    sds = seeds(rng, tier)
    gf = os.path.join(repo or common.REPO, "resources", "test", "FE9Arc.bin")
    if os.path.exists(gf):
        sds.append(open(gf, "rb").read())
    img = sds[2] if len(sds) > 2 else sds[0]
    for bit in range(32):
        add(struct.pack(">I", MAGIC ^ (1 << bit)) + img[4:], "pack-wrong-magic")
    for v in (0, 1, 0x6B636170, 0x7061636A, 0x7061636C, 0xFFFFFFFF):
        add(struct.pack(">I", v) + img[4:], "pack-wrong-magic")
    for img in sds:
        size = len(img)
        (count,) = struct.unpack_from(">H", img, 4)
        # (c) every truncation
        for cut in range(size):
            add(img[:cut], "pack-truncation")
        # (d) boundary values in every header / entry field
        for v in boundary16(count):
            add(img[:4] + struct.pack(">H", v) + img[6:], "pack-fields")
        for v in (0xFFFF, 0x0100):
            add(img[:6] + struct.pack(">H", v) + img[8:], "pack-fields")
        for i in range(count):
            _, na, fa, sz = packlib.fields(img, i)
            for fld in range(4):
                off = 8 + 16 * i + 4 * fld
                vals = set(boundary32(size))
                if fld == 2:   # address such that address + size is just inside / outside
                    vals.update(v for v in (size - sz, size - sz + 1, size - sz - 1) if 0 <= v < 1 << 32)
                if fld == 3:
                    vals.update(v for v in (size - fa, size - fa + 1, size - fa - 1) if 0 <= v < 1 << 32)
                for v in sorted(vals):
                    add(img[:off] + struct.pack(">I", v) + img[off + 4:], "pack-fields")
            # pairs whose 32-bit sum wraps to something small
            off = 8 + 16 * i + 8
            for (a, s) in ((0xFFFFFFF0, 0x20), (0x80000000, 0x80000000), (0xFFFFFFFF, 1), (fa, (1 << 32) - fa if fa else 0),
                           (0xFFFFFFFF, 0xFFFFFFFF), ((1 << 32) - sz if sz else 0, sz), (size, 0), (size + 1, 0)):
                add(img[:off] + struct.pack(">II", a & 0xFFFFFFFF, s & 0xFFFFFFFF) + img[off + 8:], "pack-fields")
        # (e) duplicate names: two entries pointing at the same name (the second replaces the first in place)
        if count >= 2:
            _, na0, _, _ = packlib.fields(img, 0)
            off = 8 + 16 * (count - 1) + 4
            add(img[:off] + struct.pack(">I", na0) + img[off + 4:], "pack-duplicate")
        # (f) byte flips
        nflip = 60 if tier == "quick" else 600
        for _ in range(nflip):
            if size == 0:
                break
            p = rng.randrange(size)
            add(img[:p] + bytes([img[p] ^ (1 << rng.randrange(8))]) + img[p + 1:], "pack-flip")
        # the image itself
        add(img, "pack-valid")
    return cases


# ----------------------------------------------------------------------------- oracle (independent of the model)
def split_out(out):
    """('ok'|'err'|'PANIC'|..., entries tokens, reser, maxalloc)"""
    toks = out.split()
    if not toks:
        return ("EMPTY", [], None, None)
    cat = toks[0]
    reser = None
    mx = None
    ents = []
    for t in toks[1:]:
        if t.startswith("reser="):
            reser = t[6:]
        elif t.startswith("maxalloc="):
            mx = int(t[9:])
        else:
            ents.append(t)
    return (cat, ents, reser, mx)


def total_oracle(case, impl_out, profile):
    raw = unB(case.line.split()[1])
    cat, ents, reser, mx = split_out(impl_out)
    if cat not in ("ok", "err"):
        return "fe9_arc::parse did not return on %d bytes (%s build): %s" % (len(raw), profile, impl_out[:60])
    if mx is None:
        return "no allocation measurement in %r" % impl_out[:80]
    if mx > ALLOC_FACTOR * len(raw) + ALLOC_SLACK:
        return "largest single allocation request %d bytes for an input of %d bytes (bound %d*len+%d)" % (
            mx, len(raw), ALLOC_FACTOR, ALLOC_SLACK)
    # an entry that declares more file bytes than the buffer holds is rejected
    if len(raw) >= 6 and struct.unpack_from(">I", raw, 0)[0] == MAGIC:
        (count,) = struct.unpack_from(">H", raw, 4)
        if 8 + 16 * count <= len(raw):
            for i in range(count):
                _, na, fa, sz = packlib.fields(raw, i)
                if fa + sz > len(raw) and cat != "err":
                    return "entry %d declares address 0x%x + size 0x%x beyond the %d-byte input and is accepted" % (i, fa, sz, len(raw))
    elif cat != "err":
        return "input without the pack magic accepted"
    if cat == "ok" and reser is None:
        return "accepted input was not re-serialized"
    if case.line.startswith("packparsebig "):
        # a conforming image (reference writer): the parser must return exactly the content the reference reader finds
        files, _ = packlib.ref_read(raw)
        got = [(t.split(",")[0], t.split(",")[2]) for t in ents]
        want = [(n.hex(), b.hex()) for n, b in files]
        if cat != "ok" or got != want:
            k = next((i for i, (g, w) in enumerate(zip(got, want)) if g != w), min(len(got), len(want)))
            return "well-formed pack with %d entries: parse %s, first difference at entry %d (got %s, want %s)" % (
                len(files), cat, k, got[k:k + 1], want[k:k + 1])
    return None


# ----------------------------------------------------------------------------- correspondence (leg K)
class SjisService:
    """what mila makes of a raw name: the harness' `sjis` kind (encoding_rs, the same calls mila makes),
    so that the codec stays on the trusted side when the model's encoded-form names are compared with
    the strings the library returns on malformed input"""

    def __init__(self):
        self.p = None
        self.cache = {}

    def start(self):
        self.p = subprocess.Popen([common.harness_bin(False)], stdin=subprocess.PIPE, stdout=subprocess.PIPE,
                                  stderr=subprocess.DEVNULL, env=common.ENV)
        atexit.register(self.stop)

    def stop(self):
        if self.p:
            try:
                self.p.stdin.close()
                self.p.wait(timeout=5)
            except Exception:
                pass
            self.p = None

    def decode(self, rawhex):
        """(utf-8 hex of the decoded string, hex of its re-encoding or '?')"""
        if rawhex in self.cache:
            return self.cache[rawhex]
        raw = bytes.fromhex(rawhex)
        if all(0 < c < 0x80 for c in raw):
            r = (rawhex, rawhex)          # ASCII is fixed by the codec in both directions
        else:
            if self.p is None:
                self.start()
            self.p.stdin.write(("sjis B%s\n" % rawhex).encode())
            self.p.stdin.flush()
            line = self.p.stdout.readline().decode().strip()
            u, s = line.split()
            r = (u[1:], s[1:])
        self.cache[rawhex] = r
        return r


SJIS = SjisService()
STATS = {"decode_collisions": 0, "lossy_names": 0}


def total_agree(case, impl_out, model_out, profile):
    if case.line.startswith("packparsebig "):
        return model_out == "unmodelled"
    parts = model_out.split(" || ")
    mo = parts[1] if (profile == "release" and len(parts) > 1) else parts[0]
    icat, ients, ireser, imx = split_out(impl_out)
    mcat, ments, mreser, mmx = split_out(mo)
    if icat != mcat:
        return False
    if icat not in ("ok", "err"):
        return True                      # both PANIC: the oracle reports it
    # every vec![0; size] the model logs is a request the allocator has seen
    if imx is None or mmx is None or imx < mmx:
        return False
    if icat == "err":
        return True
    m = [t.split(",") for t in ments]          # raw name, body
    im = [t.split(",") for t in ients]         # utf-8 name, re-encoded name | ?, body
    dec = [SJIS.decode(e[0]) for e in m]
    lossless = all(d[1] == e[0] for d, e in zip(dec, m))
    if len(set(d[0] for d in dec)) != len(dec):
        # two different raw names decode to the same string: the library's map is coarser than the
        # model's encoded-form map; compare the key sequence only (first occurrences)
        STATS["decode_collisions"] += 1
        keys = []
        for d in dec:
            if d[0] not in keys:
                keys.append(d[0])
        return [e[0] for e in im] == keys
    if len(m) != len(im):
        return False
    for d, e, ie in zip(dec, m, im):
        if ie[0] != d[0] or ie[2] != e[1]:
            return False
    if lossless:
        return ireser == mreser           # re-serialization byte for byte
    STATS["lossy_names"] += 1
    # some name is not representable / not stable: serialize may fail with EncodingFailed, never panic
    return ireser is not None and (ireser == "err" or ireser.startswith("ok:"))


def total_nontrivial(case, impl_out):
    raw = unB(case.line.split()[1])
    return len(raw) >= 8 and raw[:4] == struct.pack(">I", MAGIC)


def total_shrink(case):
    if case.line.startswith("packparsebig "):
        return
    raw = unB(case.line.split()[1])
    for k in (len(raw) // 2, len(raw) - 32, len(raw) - 1):
        if 0 <= k < len(raw):
            yield Case("packparse " + B(raw[:k]), case.stream)
    for i in range(len(raw) - 1, 7, -1):
        if raw[i] != 0:
            yield Case("packparse " + B(raw[:i] + b"\0" + raw[i + 1:]), case.stream)
