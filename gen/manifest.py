#!/usr/bin/env python3
# Regenerates /verif/MANIFEST.json from the table below (run by hand after adding a check).
import json
import os

HERE = os.path.dirname(os.path.dirname(os.path.abspath(__file__)))
ALL = ["C%02d" % i for i in range(1, 21)]

TB = ("Trusted: Coq 8.16.1 kernel (vm_compute, no native_compute), no axioms (Print Assumptions audited on every run), "
      "ExtrOcamlBasic extraction + hand-written OCaml driver, the Rust harness and Python generators/oracles. ")

CHECKS = {
    "C07": dict(
        text="Theorems about an executable Gallina model of TextArchive's in-memory API (step laws, NoDup keys, lookup = last write, "
             "keys in strict birth order, escape/unescape inverse on stored messages, store-back is the identity, dirty flag), all closed under "
             "the global context; the model is tied to /repo on every run by running the extracted model and the real library on the same "
             "histories (bounded-exhaustive + random) and comparing the full observable state after every call; an independent executable "
             "statement of the property is evaluated on the implementation's outputs as oracle.",
        note=TB + "Modelled, not verified: IndexMap, str::replace (A-std); strings as lists of scalar values.",
        technique="Coq proof (induction over histories, refinement to ordered key list) + extracted-model differential check",
        ref="DESIGN.md section 3 (C07)"),
    "C14": dict(
        text="Theorems about an executable Gallina model of the six path localizers: the transcribed per-language push strings equal the "
             "specification table written from the property text for all 5x8 pairs (finite proof), localize = directory part + marker + final "
             "component on every path of plain components (any depth, any characters, trailing slash or not), single components get the marker "
             "appended, degenerate paths are errors; model tied to /repo by exhaustive correspondence over localizers x languages x a structured path "
             "family plus arbitrary strings (no panic), and an independent oracle table.",
        note=TB + "Modelled, not verified: std::path::Path::parent/file_name (on plain-component paths and the strings \"\", \"/\", \"..\", \".\"); "
                  "other strings are outside the model and only checked for 'returns, no panic'. Filesystem consistency of the mapping is covered under C12/C13.",
        technique="Coq proof (finite table by computation + list lemmas on split/join) + exhaustive extracted-model differential check",
        ref="DESIGN.md section 5 (C14)"),
}


def main():
    checks = []
    for pid in ALL:
        if pid not in CHECKS:
            continue
        c = CHECKS[pid]
        checks.append({
            "property_id": pid,
            "quick_cmd": "./check %s --tier quick" % pid,
            "thorough_cmd": "./check %s --tier thorough" % pid,
            "evidence_file": "/verif/evidence/%s.json" % pid,
            "replay_cmd_template": "./check %s --replay {path}" % pid,
            "engine": "coq-model+correspondence",
            "level_claimed": {"category": "proof", "text": c["text"], "design_ref": c["ref"]},
            "level_note": c["note"],
            "technique": c["technique"],
        })
    na = [{"property_id": pid, "reason": "check not built yet (work in progress; planned at level proof, see DESIGN.md section 9)"}
          for pid in ALL if pid not in CHECKS]
    m = {
        "version": 1,
        "setup_cmd": "./check setup",
        "hooks": {
            "guard": "mila_verif",
            "enable": "none needed: no hook code exists in /repo; checks build /repo's working tree as a path dependency of /verif/harness (RUSTFLAGS=--cfg mila_verif reserved)",
            "baseline_off_cmd": "cd /repo && cargo test --workspace --no-fail-fast --offline",
            "source_commits": [],
            "add_only": True,
        },
        "engines": [{
            "name": "coq-model+correspondence",
            "path": "/verif/check",
            "serves_properties": sorted(CHECKS),
            "kind_free_text": "Coq 8.16 theorems about hand-written executable Gallina models (coq/), extracted to OCaml and compared with the real library "
                              "through a Rust harness on generated cases on every run; executable property statements as oracle on implementation outputs",
        }],
        "checks": checks,
        "not_applicable": na,
        "notes": "See DESIGN.md. known_findings.json lists repaired (fixed:) and recorded defects.",
    }
    with open(os.path.join(HERE, "MANIFEST.json"), "w") as f:
        json.dump(m, f, indent=1)
        f.write("\n")


if __name__ == "__main__":
    main()
