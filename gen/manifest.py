#!/usr/bin/env python3
# Regenerates /verif/MANIFEST.json from the table below (run by hand after adding a check).
import json
import os

HERE = os.path.dirname(os.path.dirname(os.path.abspath(__file__)))
ALL = ["C%02d" % i for i in range(1, 21)]

TB = ("Trusted: Coq 8.16.1 kernel (vm_compute, no native_compute), no axioms (Print Assumptions audited on every run), "
      "ExtrOcamlBasic extraction + hand-written OCaml driver, the Rust harness and Python generators/oracles. ")

def load_checks():
    """Every gen/cNN.py that defines MANIFEST = dict(text=, note=, technique=, ref=) is a claimed check."""
    import importlib
    import sys
    sys.path.insert(0, os.path.join(HERE, "gen"))
    out = {}
    for pid in ALL:
        if os.path.exists(os.path.join(HERE, "gen", pid.lower() + ".py")):
            mod = importlib.import_module(pid.lower())
            if hasattr(mod, "MANIFEST"):
                out[pid] = mod.MANIFEST
    return out


def main():
    CHECKS = load_checks()
    checks = []
    for pid in ALL:
        if pid not in CHECKS:
            continue
        c = CHECKS[pid]
        checks.append({
            "property_id": pid,
            "quick_cmd": "./check %s --tier quick" % pid,
            "thorough_cmd": "./check %s --tier thorough" % pid,
            "evidence_file": "/verif/evidence/%s.json" % pid,
            "replay_cmd_template": "./check %s --replay {path}" % pid,
            "engine": "coq-model+correspondence",
            "level_claimed": {"category": "proof", "text": c["text"], "design_ref": c["ref"]},
            "level_note": c["note"],
            "technique": c["technique"],
        })
    na = [{"property_id": pid, "reason": "check not built yet (work in progress; planned at level proof, see DESIGN.md section 9)"}
          for pid in ALL if pid not in CHECKS]
    m = {
        "version": 1,
        "setup_cmd": "./check setup",
        "hooks": {
            "guard": "mila_verif",
            "enable": "none needed: no hook code exists in /repo; checks build /repo's working tree as a path dependency of /verif/harness (RUSTFLAGS=--cfg mila_verif reserved)",
            "baseline_off_cmd": "cd /repo && cargo test --workspace --no-fail-fast --offline",
            "source_commits": [],
            "add_only": True,
        },
        "engines": [{
            "name": "coq-model+correspondence",
            "path": "/verif/check",
            "serves_properties": sorted(CHECKS),
            "kind_free_text": "Coq 8.16 theorems about hand-written executable Gallina models (coq/), extracted to OCaml and compared with the real library "
                              "through a Rust harness on generated cases on every run; executable property statements as oracle on implementation outputs",
        }],
        "checks": checks,
        "not_applicable": na,
        "notes": "See DESIGN.md. known_findings.json lists repaired (fixed:) and recorded defects.",
    }
    with open(os.path.join(HERE, "MANIFEST.json"), "w") as f:
        json.dump(m, f, indent=1)
        f.write("\n")


if __name__ == "__main__":
    main()
