#!/usr/bin/env python3
# Rewrites the generated tables of DESIGN.md (between <!-- BEGIN:x --> / <!-- END:x --> markers) from
# known_findings.json, seeded/*/meta.json, evidence/*.json and coq/Properties/*.v.
import glob
import json
import os
import re

HERE = os.path.dirname(os.path.dirname(os.path.abspath(__file__)))


def findings():
    d = json.load(open(os.path.join(HERE, "known_findings.json")))
    rows = ["| id | property | status | commit | what failed | regression input |", "|---|---|---|---|---|---|"]
    for f in d["findings"]:
        line = f.get("line", f.get("what", ""))
        what = re.sub(r"^(fixed|known): property=\S+ (\S+ )?", "", line)
        inp = str(f.get("input", ""))
        if len(inp) > 70:
            inp = inp[:67] + "..."
        rows.append("| %s | %s | %s | %s | %s | `%s` |" % (f.get("id", ""), f["property"], f["status"], f.get("commit", ""), what.replace("|", "/"), inp.replace("|", "/")))
    return "\n".join(rows)


def seeded():
    rows = ["| seed | property | what the change does | needs | confirmed (demo clean / suite / demo patched) | caught by | how (reason, shrunk replay) |",
            "|---|---|---|---|---|---|---|"]
    for p in sorted(glob.glob(os.path.join(HERE, "seeded", "*", "meta.json"))):
        m = json.load(open(p))
        name = os.path.basename(os.path.dirname(p))
        c = m.get("confirmed_by_builder", {})
        conf = "%s / %s / %s" % (c.get("demo_on_clean", "?")[:4], re.sub(r".*?(\d+ passed).*", r"\1", c.get("suite_with_patch", "?")), c.get("demo_with_patch", "?")[:5])
        caught = [k for k, v in m.get("check_results", {}).items() if v.get("exit")]
        missed = [k for k, v in m.get("check_results", {}).items() if not v.get("exit")]
        how = "; ".join("%s: %s `%s`" % (k, v.get("replay_reason"), (v.get("replay_case") or "")[:60]) for k, v in m.get("check_results", {}).items() if v.get("exit"))
        if m.get("out_of_scope"):
            how = (how + "; " if how else "") + "NOT A VALID SEED - " + m["out_of_scope"]
        rows.append("| %s | %s | %s | %s | %s | %s%s | %s |" % (
            name, m.get("property"), str(m.get("mechanism", ""))[:160].replace("|", "/").replace("\n", " "),
            str(m.get("needs", ""))[:120].replace("|", "/").replace("\n", " "), conf,
            ", ".join(caught) or "**none**", (" (not by: " + ", ".join(missed) + ")") if missed else "", how.replace("|", "/")))
    return "\n".join(rows)


def status():
    rows = ["| id | theorems in Properties/<id>.v (all closed, audited each run) | quick run: evaluations / distinct non-trivial / wall s | streams |", "|---|---|---|---|"]
    for i in range(1, 21):
        pid = "C%02d" % i
        pf = os.path.join(HERE, "coq", "Properties", pid + ".v")
        ev = os.path.join(HERE, "evidence", pid + ".json")
        if not os.path.exists(pf):
            rows.append("| %s | (not built yet) | | |" % pid)
            continue
        src = open(pf).read()
        names = re.findall(r"^\s*(?:Theorem|Corollary)\s+([A-Za-z0-9_']+)", src, flags=re.M)
        e = json.load(open(ev)) if os.path.exists(ev) else None
        run = ""
        streams = ""
        if e:
            c = e["coverage"]
            run = "%s / %s / %s" % (c.get("evaluations"), c.get("distinct_nontrivial"), e.get("wall_s"))
            streams = ", ".join("%s %s" % (k, v) for k, v in sorted(c.get("streams", {}).items()))
        rows.append("| %s | %d: %s | %s | %s |" % (pid, len(names), ", ".join(n.replace(pid + "_", "") for n in names), run, streams))
    return "\n".join(rows)


def main():
    p = os.path.join(HERE, "DESIGN.md")
    s = open(p).read()
    for key, fn in (("findings", findings), ("seeded", seeded), ("status", status)):
        b, e = "<!-- BEGIN:%s -->" % key, "<!-- END:%s -->" % key
        if b in s and e in s:
            i, j = s.index(b) + len(b), s.index(e)
            s = s[:i] + "\n" + fn() + "\n" + s[j:]
    open(p, "w").write(s)


if __name__ == "__main__":
    main()
