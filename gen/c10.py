# C10: compressed size is bounded and repetition is actually exploited.
from lzcommon import (LZCheckMixin, PropertyCheck, Case, compress_inputs, parse_compress_out, parse_hex, hexb, periodic,
                      rand_bytes, shrink_bytes, ceil_div, spread_heavy, structured_input, long_compressible_inputs, ptok, shrink_ptok)

FORMATS = {"lz10c": (4, 2, 18), "lz13c": (8, 4, 4096)}     # header, bytes per reference, maximum match length
FORMATS["lz10f"] = FORMATS["lz10c"]                        # the same through the enum CompressionFormat
FORMATS["lz13f"] = FORMATS["lz13c"]


def smallest_period(x):
    """Smallest p >= 1 with x[i+p] == x[i] for all i (p = len(x) if there is none shorter); prefix function."""
    n = len(x)
    if n == 0:
        return 1
    pi = [0] * n
    k = 0
    for i in range(1, n):
        while k > 0 and x[i] != x[k]:
            k = pi[k - 1]
        if x[i] == x[k]:
            k += 1
        pi[i] = k
    return n - pi[n - 1]


def input_and_period(tok):
    """-> (number of bytes, smallest period) of a case's input token.  For a compact P<len>:<pattern> token of at least two
    patterns the period is computed on two patterns (it divides the pattern length, Fine-Wilf) and the 16 MiB string is
    never built."""
    if tok[0] == "P" and "+" not in tok:
        n, pat = tok[1:].split(":", 1)
        n = int(n)
        pat = bytes.fromhex(pat) or b"\0"
        if n >= 2 * len(pat):
            return n, smallest_period(pat * 2)
    data = parse_hex(tok)
    return len(data), smallest_period(data)


def expansion_bound(kind, n):
    hdr = FORMATS[kind][0]
    if kind in ("lz13c", "lz13f") and (n == 0 or n > 0xFFFFFF):
        hdr = 12                                    # extended LZ11 size form
    return hdr + n + ceil_div(n, 8)


def periodic_bound(kind, n, p):
    hdr, r, L = FORMATS[kind]
    if kind in ("lz13c", "lz13f") and (n == 0 or n > 0xFFFFFF):
        hdr = 12
    refs = ceil_div(max(n - p, 0), L) + 1
    return hdr + (p + 2) + r * refs + ceil_div((p + 2) + refs, 8)


class C10(LZCheckMixin, PropertyCheck):
    pid = "C10"
    source_tables = ["LZ"]   # tables / constants regenerated from /repo's source (gen/srctables.py)
    release_too = True       # both build profiles (review 2: the both-modes theorems must be tied to a release build too)
    rule = ("streams: periods p (quick: 64 sampled incl. 1,2,3,17,18,19,4094,4095,4096; thorough: all 1..4096) x 3 pattern contents "
            "(random bytes, random bits, one odd byte) x 4 total lengths (just above p, around p + k*L, several periods), through both "
            "compressors; periods 2049..4095 with 3, 6 and 10 windows of data; plus the structured inputs of C08/C09 for the expansion bound and repeats continuing beyond 65808 bytes. "
            "Inputs <= 6 KiB are also compared with the extracted model (thorough: for the edge periods and every fifth period). Non-trivial = smallest period <= 4096 and at least two periods long; distinct = distinct (format, input).")
    assumptions = ["A-std: Vec, slices and integer casts behave as documented"]

    def generate(self, rng, tier):
        cases = []

        def add(kind, data, stream, model=True):
            if len(data) <= 6000 and model:
                flag = "1" if kind in ("lz10c", "lz10f") or len(data) > 1200 else "2"
            else:
                flag = "0"
            cases.append(Case("%s %s %s" % (kind, flag, hexb(data)), stream))

        edge = [1, 2, 3, 4, 5, 7, 8, 9, 15, 16, 17, 18, 19, 20, 35, 36, 37, 255, 256, 257, 271, 272, 273, 274,
                1000, 2047, 2048, 4000, 4093, 4094, 4095, 4096]
        if tier == "quick":
            ps = sorted(set(edge + [rng.randint(1, 4096) for _ in range(32)]))
        else:
            ps = range(1, 4097)
        for p in ps:
            # thorough: every period goes through the implementation and the inequalities; the (slow) list model is
            # run for the edge periods and every fifth period (the full sweep through the model took 15 min)
            with_model = tier == "quick" or p in edge or p % 5 == 0
            pats = [rand_bytes(rng, p), rand_bytes(rng, p, 2), b"a" * (p - 1) + b"b"]
            for ci, pat in enumerate(pats):
                lens = [p + 1 + rng.randint(0, 20), p + 18 * rng.randint(1, 40) + rng.randint(0, 2),
                        p + 4096 * rng.randint(1, 2) + rng.randint(0, 2), rng.randint(2, 4) * p + rng.randint(0, 30)]
                for n in lens:
                    data = periodic(pat, n)
                    for kind in ("lz10c", "lz13c"):
                        add(kind, data, "periodic-%s" % ("bytes", "bits", "odd-byte")[ci], with_model)
        # long periods with MANY periods of data (seeded C10-7: the match length was limited to the displacement once the
        # window slides - visible in the size bound for p in 2049..4095 and n >= p + 3*4096): implementation + inequalities
        for p in ([2049, 2050, 3000, 4095, rng.randint(2051, 4094)] if tier == "quick" else [2049, 2050, 2500, 3000, 3500, 4000, 4094, 4095] + [rng.randint(2051, 4094) for _ in range(8)]):
            pat = rand_bytes(rng, p)
            for n in (p + 3 * 4096 + rng.randint(0, 9), p + 6 * 4096, p + 10 * 4096 + rng.randint(0, 4095)):
                for kind in ("lz10c", "lz13c"):
                    add(kind, periodic(pat, n), "periodic-long-period-many-periods")
        # positions beyond 2^24 (seeded C10-10: a pre-filter packed positions into 24 bits, so LZ13 found no match there):
        # LZ13 only (LZ10 rejects 16 MiB and more), compact P token, implementation + the period bound, no model run.
        # Measured: 0.07 s per case in the debug harness, 0.05 s in release (the wrapper-length pass and the main loop take
        # one maximal match per 4096 bytes on periodic data)
        for p, n in ((1000, (1 << 24) + 100000), (3, (1 << 24) + 5000)):
            cases.append(Case("lz13c 0 %s" % ptok(n, rand_bytes(rng, p)), "periodic-beyond-16MiB"))
        nst = 150 if tier == "quick" else 1500
        for _ in range(nst):
            name, data = structured_input(rng, rng.choice([40, 300, 1500, 6000, 20000]))
            for kind in ("lz10c", "lz13c"):
                add(kind, data, "expansion-" + name)
        for _ in range(30 if tier == "quick" else 300):
            name, data = structured_input(rng, rng.choice([40, 300, 1500, 6000]))
            for kind in ("lz10f", "lz13f"):
                add(kind, data, "format-enum-" + name)
        for n in range(0, 70):
            for kind in ("lz10c", "lz13c"):
                add(kind, bytes((i * 37 + 11) % 251 for i in range(n)), "expansion-all-literals")
        # long tables of padded records: a period that does not divide 4096, with an internal repetition longer than 272 bytes
        # (seeded change C10-6 probed the window with a 0x110-byte look-ahead and extended the FARTHEST occurrence: about twice the
        # references the bound allows, visible only from several hundred KB on); P tokens keep the case lines short
        for (pad, tail, n) in ((286, bytes([9, 8, 7, 6, 5, 4]), 500000), (300, b"\x01\x02\x03", 400000), (1000, bytes(range(1, 25)), 600000)):
            pat = bytes(pad) + tail
            tok = "P%d:%s" % (n, pat.hex())
            for kind in ("lz10c", "lz13c"):
                cases.append(Case("%s 0 %s" % (kind, tok), "periodic-padded-records-long"))
        # repeats that continue beyond the longest LZ11 match (65808 bytes), 2^17, ~140000: implementation + inequalities only
        for name, data, _ in long_compressible_inputs(rng, tier):
            for kind in ("lz10c", "lz13c"):
                add(kind, data, "long-compressible-" + name)
        return spread_heavy(cases, weight=lambda c: 0 if c.line.split(" ")[1] == "0" else len(c.line))

    def nontrivial(self, case, impl_out):
        n, p = input_and_period(case.line.split(" ")[2])
        return p <= 4096 and n >= 2 * p

    def oracle(self, case, impl_out, profile):
        parts = case.line.split(" ")
        kind = parts[0]
        n, p = input_and_period(parts[2])
        cat, c, rt = parse_compress_out(impl_out)
        if cat != "ok":
            return "compression did not succeed: %s" % impl_out[:60]
        if len(c) > expansion_bound(kind, n):
            return "%s: %d bytes for an input of %d exceed header + n + ceil(n/8) = %d" % (kind, len(c), n, expansion_bound(kind, n))
        if p <= 4096 and len(c) > periodic_bound(kind, n, p):
            return "%s: %d bytes for an input of %d with period %d exceed the bound %d" % (kind, len(c), n, p, periodic_bound(kind, n, p))
        return None

    def shrink_candidates(self, case):
        parts = case.line.split(" ")
        if parts[2][0] == "P":
            for t in shrink_ptok(parts[2]):
                yield Case("%s 0 %s" % (parts[0], t), case.stream)
            return
        data = parse_hex(parts[2])
        p = smallest_period(data)
        # keep the period, shorten the tail; then general byte removal
        for n in (len(data) // 2, len(data) - 4096, len(data) - 18, len(data) - 1):
            if p < n < len(data):
                yield Case("%s %s %s" % (parts[0], parts[1] if n > 6000 else "1", hexb(data[:n])), case.stream)
        for d in shrink_bytes(data):
            yield Case("%s %s %s" % (parts[0], parts[1] if len(d) > 6000 else "1", hexb(d)), case.stream)


TB = ("Trusted: Coq 8.16.1 kernel (vm_compute, no native_compute), no axioms (Print Assumptions audited on every run), "
      "ExtrOcamlBasic extraction + hand-written OCaml driver, the Rust harness and Python generators/oracles. ")

MANIFEST = dict(
    text="Theorems (Coq 8.16, closed under the global context) about the compressor models of C08/C09: for EVERY input |compress10 x| <= 4 + n + ceil(n/8) and |compress13 x| <= hdr + n + ceil(n/8) (hdr = 8 for a non-empty input below 2^24, 12 with the extended size form); for EVERY input with a period p in 1..4096 - all contents, all lengths - the output is at most header + (p+2) literals + (ceil((n-p)/L)+1) references of r bytes + one flag byte per eight tokens, (r,L) = (2,18) for LZ10 and (4,4096) for LZ13; the same bounds hold for the exported functions whenever they return Ok (C10_exported_lz10/_lz13: no size hypothesis; after F21 they return Err from 2^24 / 2^32 bytes on); the carrying lemma shows that from position max(p,2) on the match search reports the whole look-ahead, i.e. the full 4096-byte window and the full match length are used. The models are tied to /repo on every run (extracted model vs real library byte-for-byte on inputs <= 6 KiB) and the two inequalities are evaluated on the implementation's output for swept periods (quick: 64 periods incl. all edges; thorough: all 1..4096) x 3 contents x 4 lengths, the structured inputs of C08/C09 and repeats continuing to 140000 bytes (the swept periods through the struct entry points; 30 / 300 structured inputs also through the enum entry points; debug profile).",
    note=TB + 'Modelled, not verified (A-std): Vec, slices, integer casts. The bound of the property has slack (two literals, one reference): changes of the compressor that stay inside it (e.g. literal decision <= 3, search from displacement 3) do not violate the property and are reported through the byte-for-byte correspondence only - see notes/lz.md, 8 mutations.',
    technique="Coq proof (token accounting of the emission loop; longest-match lemma for periodic inputs) + extracted-model differential check + the size inequalities evaluated on the implementation's output for swept periods, contents and lengths",
    ref='DESIGN.md section 4 (C10); notes/lz.md')
