#!/usr/bin/env python3
# mutation experiments (scratch worktree /tmp/fs-mut of /repo, VERIF_REPO); results printed, not stored
import subprocess, sys, os, re
MUT = "/tmp/fs-mut"
F = "src/layered_filesystem.rs"
def nth_replace(s, old, new, n):
    idx = -1
    for _ in range(n):
        idx = s.index(old, idx + 1)
    return s[:idx] + new + s[idx+len(old):]
MUTS = [
 ("read searches bottom-up", F, lambda s: nth_replace(s, "self.layers.iter().rev()", "self.layers.iter()", 1)),
 ("write goes to the first layer", F, lambda s: s.replace(".layers\n            .last()", ".layers\n            .first()")),
 ("list: no sort", F, lambda s: nth_replace(s, "        result.sort();\n", "", 1)),
 ("list: no de-duplication (Vec instead of HashSet)", F, lambda s: nth_replace(s, "let mut result = HashSet::new();", "let mut result = Vec::new();", 1)),
 ("exists ignores the localized flag", F, lambda s: nth_replace(s, "let actual_path = if localized {", "let actual_path = if false {", 2)),
 ("FE9 configured with LZ13", F, lambda s: s.replace("Game::FE9 => CompressionFormat::LZ10(LZ10CompressionFormat {}),", "Game::FE9 => CompressionFormat::LZ13(LZ13CompressionFormat {}),")),
 ("exists looks at the top layer only", F, lambda s: nth_replace(s, "self.layers.iter().rev()", "self.layers.iter().rev().take(1)", 2)),
 ("write never compresses", F, lambda s: s.replace("let contents = if self.compression_format.is_compressed_filename(path) {", "let contents = if false {")),
 ("subdirectories does not filter directories", F, lambda s: s.replace("                        .filter(|p| p.is_dir())\n", "")),
 ("create_dir on the first layer", F, lambda s: s.replace("&self.layers[self.layers.len() - 1]", "&self.layers[0]")),
 ("list ignores the localized flag", F, lambda s: nth_replace(s, "let path = if localized {", "let path = if false {", 1)),
 ("FE10 little-endian", F, lambda s: s.replace("Game::FE9 | Game::FE10 => Endian::Big,", "Game::FE9 => Endian::Big,")),
 ("file_exists accepts directories", F, lambda s: s.replace("FileSystemLayer::Directory(p) => Path::new(p).join(path).is_file(),", "FileSystemLayer::Directory(p) => Path::new(p).join(path).exists(),")),
 ("write decides compression by the localized name", F, lambda s: s.replace("let contents = if self.compression_format.is_compressed_filename(path) {", "let contents = if self.compression_format.is_compressed_filename(&actual_path) {")),
 ("F16 back (replace everywhere)", F, lambda s: s.replace("match full.strip_prefix(&layer_str) {\n                                Some(relative) => relative.to_string(),\n                                None => full,\n                            }", "full.replace(&layer_str, \"\")")),
 ("F18 back (no escape)", F, lambda s: s.replace("glob::Pattern::escape(&canonical)", "canonical")),
 ("resolve searches bottom-up", F, lambda s: nth_replace(s, "self.layers.iter().rev()", "self.layers.iter()", 5)),
 (".lz suffix check is case-insensitive-ish (.LZ)", "src/lz13.rs", lambda s: s.replace('filename.ends_with(".lz")', 'filename.ends_with(".lz") || filename.ends_with(".bak")')),
 ("list default pattern is '*'", F, lambda s: s.replace('if let Some(p) = glob { p } else { "**/*" }', 'if let Some(p) = glob { p } else { "*" }')),
 ("write does not create parents", F, lambda s: s.replace("                    std::fs::create_dir_all(parent)?;\n", "                    let _ = parent;\n")),
]
only = sys.argv[1:]
os.chdir("/root/wt/fs")
for i, (name, f, fn) in enumerate(MUTS):
    if only and str(i) not in only: continue
    subprocess.run(["git", "-C", MUT, "checkout", "-q", "--", "."], check=True)
    p = os.path.join(MUT, f)
    s = open(p).read()
    try:
        t = fn(s)
    except ValueError:
        print("%2d %-55s PATTERN NOT FOUND" % (i, name)); continue
    if t == s:
        print("%2d %-55s NO CHANGE" % (i, name)); continue
    open(p, "w").write(t)
    res = []
    for pid in ("C12", "C13"):
        env = dict(os.environ, VERIF_REPO=MUT)
        r = subprocess.run(["./check", pid], env=env, stdout=subprocess.PIPE, stderr=subprocess.STDOUT)
        out = r.stdout.decode()
        v = [l for l in out.split("\n") if l.startswith("VIOLATION")]
        what = ""
        if v:
            m = re.search(r"replay=(\S+)", v[0])
            import json
            try:
                rp = json.load(open(m.group(1)))
                o = rp.get("oracle")
                if isinstance(o, dict): o = list(o.values())[0]
                what = (rp.get("reason","") + ": " + str(o or rp.get("theorem_or_relation") or rp.get("notes"))[:150])
            except Exception as e:
                what = "?"
        res.append("%s exit=%d viol=%d %s" % (pid, r.returncode, len(v), what))
    print("%2d %-55s\n     %s\n     %s" % (i, name, res[0], res[1]), flush=True)
subprocess.run(["git", "-C", MUT, "checkout", "-q", "--", "."], check=True)
subprocess.run(["git", "checkout", "-q", "evidence/C12.json", "evidence/C13.json"])
