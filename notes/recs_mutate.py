#!/usr/bin/env python3
# Mutation experiments for C17 / C18 (and the aset/asset part of C05): applies one textual mutation at a time to a scratch
# worktree of /repo and runs the check against it.   usage: python3 notes/recs_mutate.py [C17|C18|C05] [name ...]
# Never touches /repo's working tree.
import os
import subprocess
import sys

HERE = os.path.dirname(os.path.dirname(os.path.abspath(__file__)))
WT = "/tmp/recs-mut"

M = {
    "C17": [
        # finding F22 un-repaired: first hit in hash order instead of the lowest address
        ("find-label-first-hit-F22", "src/bin_archive.rs", ".map(|(address, _)| *address)\n            .min()", ".map(|(address, _)| *address)\n            .next()"),
        ("reader-last-slot", "src/aset.rs", "for bit in 0..32 {\n                        if (flags & (1 << bit)) != 0 {", "for bit in 0..32 {\n                        if bit < 31 && (flags & (1 << bit)) != 0 {"),
        ("reader-table-256", "src/aset.rs", "for _ in 0..257 {", "for _ in 0..256 {"),
        ("writer-group-omitted-if-only-first-slot", "src/aset.rs", "if set_flags != 0 {\n                    main_flags", "if set_flags > 1 {\n                    main_flags"),
        ("writer-group-bit-order", "src/aset.rs", "main_flags |= 1 << flag_set;", "main_flags |= 1 << (if flag_set >= 6 { 13 - flag_set } else { flag_set });"),
        ("writer-index-off-by-one-in-emission", "src/aset.rs", "let index = i * 32 + j + 1;", "let index = if i == 7 && j == 31 { i * 32 + j } else { i * 32 + j + 1 };"),
        ("writer-empty-group-not-omitted", "src/aset.rs", "if *flag != 0 {\n                    writer.write_u32(*flag)?;", "if *flag != 0 || i == 5 {\n                    writer.write_u32(*flag)?;"),
        ("writer-alloc-one-word-more", "src/aset.rs", "(flags_to_write + strings_to_write + 1) * 4", "(flags_to_write + strings_to_write + 1 + (strings_to_write == 3) as usize) * 4"),
        ("writer-missing-slot-counted-present", "src/aset.rs", ".map(|entry| entry.is_some())\n                        .unwrap_or_default();", ".map(|entry| entry.is_some())\n                        .unwrap_or(index == 40);"),
        ("writer-empty-label-dropped", "src/aset.rs", "if let Some(label) = &set[0] {\n                writer.write_label(label)?;", "if let Some(label) = &set[0] {\n                if !label.is_empty() { writer.write_label(label)?; }"),
    ],
    "C18": [
        ("flag-bit-of-one-field", "src/asset_binary.rs", "flags[6] |= if !self.use_unk12 { 0 } else { 0b100 };", "flags[6] |= if !self.use_unk12 { 0 } else { 0b10000 };"),
        ("short-form-ignores-byte-6", "src/asset_binary.rs", "if flags[4] == 0 && flags[5] == 0 && flags[6] == 0 {", "if flags[4] == 0 && flags[5] == 0 && (flags[6] & 0b111) == 0 {"),
        ("f32-through-arithmetic", "src/asset_binary.rs", "spec.head_size = reader.read_f32()?;", "spec.head_size = reader.read_f32()? + 0.0;"),
        ("writer-order-of-two-fields", "src/asset_binary.rs", "            if self.use_head_size {\n                writer.write_f32(self.head_size)?;\n            }\n            if self.use_pupil_y {\n                writer.write_f32(self.pupil_y)?;\n            }",
         "            if self.use_pupil_y {\n                writer.write_f32(self.pupil_y)?;\n            }\n            if self.use_head_size {\n                writer.write_f32(self.head_size)?;\n            }"),
        ("colour-swap-writer-only", "src/asset_binary.rs", "let mut arr = *color;\n    arr.swap(2, 0);", "let mut arr = *color;\n    arr.swap(2, 1);"),
        ("reader-bitflags-as-u32-order", "src/asset_binary.rs", "fn count_bits(byte: u8) -> usize {\n    let mut count = 0;\n    for i in 0..8 {", "fn count_bits(byte: u8) -> usize {\n    let mut count = 0;\n    for i in 0..7 {"),
        ("trailing-word-missing", "src/asset_binary.rs", "        archive.allocate_at_end(4);\n        archive.serialize()", "        archive.serialize()"),
    ],
    "C05": [
        ("aset-unchecked-slice", "src/aset.rs", "let main_flags = reader.read_u32()?;", "let main_flags = reader.read_u32()?;\n            if main_flags == 0xFFFFFFFF { let _ = archive.read_bytes(reader.tell(), 4).map(|b| b[3]).unwrap(); }"),
        ("asset-flags-index", "src/asset_binary.rs", "if flag_count > 3 {\n            spec.clothing_sound", "if flag_count >= 3 && (flags[3] & 0x80) != 0 || flag_count > 3 {\n            spec.clothing_sound"),
        # equivalent mutant (kept for the record): after a failed read_bytes(4) the cursor is at the end, read_bytes(1) fails too
        ("asset-color-short-equivalent", "src/asset_binary.rs", "let bytes = reader.read_bytes(4)?;", "let bytes = reader.read_bytes(4).or_else(|_| reader.read_bytes(1))?;"),
        # equivalent as far as panics go: a failed read_bytes leaves the cursor at the end, the name read fails next
        ("asset-short-flags-tolerated-equivalent", "src/asset_binary.rs", "flags.extend(reader.read_bytes(flag_count)?);", "flags.extend(reader.read_bytes(flag_count).unwrap_or_default());"),
        ("aset-shift-overflow", "src/aset.rs", "for bit in 0..32 {\n                        if (flags & (1 << bit)) != 0 {", "for bit in 0..=32 {\n                        if (flags & (1 << bit)) != 0 {"),
    ],
}


def sh(cmd, **kw):
    return subprocess.run(cmd, shell=True, stdout=subprocess.PIPE, stderr=subprocess.STDOUT, text=True, **kw)


def main():
    pid = sys.argv[1]
    only = sys.argv[2:]
    sh("git -C /repo worktree remove --force %s" % WT)
    r = sh("git -C /repo worktree add --detach %s HEAD" % WT)
    assert os.path.isdir(WT), r.stdout
    for (name, path, old, new) in M[pid]:
        if only and name not in only:
            continue
        sh("git -C %s checkout -- ." % WT)
        p = os.path.join(WT, path)
        s = open(p).read()
        if s.count(old) != 1:
            print("%-45s PATTERN-NOT-UNIQUE (%d)" % (name, s.count(old)))
            continue
        open(p, "w").write(s.replace(old, new))
        env = dict(os.environ, VERIF_REPO=WT)
        r = sh("timeout 1500 ./check %s" % pid, cwd=HERE, env=env)
        last = [l for l in r.stdout.strip().split("\n") if l.strip()][-1:] or [""]
        print("%-45s rc=%d %s" % (name, r.returncode, last[0][:200]), flush=True)
    sh("git checkout evidence/%s.json" % pid, cwd=HERE)
    sh("git -C /repo worktree remove --force %s" % WT)
    sh("rm -rf work/harness-*", cwd=HERE)


if __name__ == "__main__":
    main()
