#!/usr/bin/env python3
# Mutation experiments for the typed helpers of LayeredFilesystem (C12 end to end).
# usage: python3 notes/e2e_mutate.py [name ...]      (run from the worktree root; needs `./check setup` done)
# Each mutation is applied to a scratch worktree of /repo (never to /repo itself), `./check C12` (quick) is run with
# VERIF_REPO pointing at it, the verdict line is recorded, the worktree is reset.
import os
import subprocess
import sys

MUT = "/tmp/e2e-mut"
F = "src/layered_filesystem.rs"

MUTATIONS = {
    # name: (old text, new text, what)
    "text-format-fe14": (
        "let archive = TextArchive::from_bytes(&bytes, self.text_archive_format, self.endian)?;",
        "let fmt = if matches!(self.game, Game::FE14) { TextArchiveFormat::ShiftJIS } else { self.text_archive_format };\n"
        "        let archive = TextArchive::from_bytes(&bytes, fmt, self.endian)?;",
        "read_text_archive parses FE14 archives as Shift-JIS"),
    "archive-endian-fe10": (
        "let archive = BinArchive::from_bytes(&bytes, self.endian)?;",
        "let e = if matches!(self.game, Game::FE10) { Endian::Little } else { self.endian };\n"
        "        let archive = BinArchive::from_bytes(&bytes, e)?;",
        "read_archive parses little-endian for FE10"),
    "write-archive-no-compression": (
        "let bytes = archive.serialize()?;\n        self.write(path, &bytes, localized)\n    }\n\n    pub fn write_text_archive(",
        "let bytes = archive.serialize()?;\n"
        "        let actual_path = if localized { self.path_localizer.localize(path, &self.language)? } else { path.to_string() };\n"
        "        let layer = self.layers.last().ok_or(LayeredFilesystemError::NoWriteableLayers)?;\n"
        "        layer.write(&actual_path, &bytes).map_err(|err| LayeredFilesystemError::WriteError(actual_path, err.to_string()))\n"
        "    }\n\n    pub fn write_text_archive(",
        "write_archive stores the image uncompressed whatever the name"),
    "texture-map-first-wins": (
        "        .map(|t| (t.filename.clone(), t))\n        .collect()",
        "        .rev()\n        .map(|t| (t.filename.clone(), t))\n        .collect()",
        "texture_vec_to_map keeps the FIRST texture of a name (only visible with two textures of one name)"),
    "ctpk-map-key-lowercase": (
        "Ok(texture_vec_to_map(ctpk::read(&bytes)?))",
        "Ok(ctpk::read(&bytes)?.into_iter().map(|t| (t.filename.to_lowercase(), t)).collect())",
        "read_ctpk_textures keys the map by the lower-cased name"),
    "fe9-arc-reversed": (
        "let arc = fe9_arc::parse(&bytes)?;\n        Ok(arc)",
        "let mut arc = fe9_arc::parse(&bytes)?;\n        arc.reverse();\n        Ok(arc)",
        "read_fe9_arc returns the files in reverse order"),
    "tpl-ignores-localized": (
        "let bytes = self.read(path, localized)?;\n        Ok(Tpl::extract_textures(&bytes)?)",
        "let bytes = self.read(path, false)?;\n        Ok(Tpl::extract_textures(&bytes)?)",
        "read_tpl_textures ignores the localized flag"),
    "write-text-unlocalized": (
        "let bytes = archive.serialize()?;\n        self.write(path, &bytes, localized)\n    }\n\n    pub fn localizer(",
        "let bytes = archive.serialize()?;\n        self.write(path, &bytes, false)\n    }\n\n    pub fn localizer(",
        "write_text_archive ignores the localized flag"),
    "read-arc-through-lz13-only-when-big": (
        "let arc = arc::from_bytes(&bytes)?;\n        Ok(arc)",
        "let mut arc = arc::from_bytes(&bytes)?;\n        if arc.len() > 3 { let k = arc.keys().next().cloned(); if let Some(k) = k { arc.remove(&k); } }\n        Ok(arc)",
        "read_arc drops one file of archives with more than three files"),
    "bch-swaps-dimensions": (
        "Ok(texture_vec_to_map(bch::read(&bytes)?))",
        "Ok(texture_vec_to_map(bch::read(&bytes)?.into_iter().map(|mut t| { std::mem::swap(&mut t.width, &mut t.height); t }).collect()))",
        "read_bch_textures swaps width and height (only visible for non-square textures)"),
    "archive-endian-fe15-japanese": (
        "let archive = BinArchive::from_bytes(&bytes, self.endian)?;",
        "let e = if matches!(self.game, Game::FE15) && matches!(self.language, Language::Japanese) { Endian::Big } else { self.endian };\n"
        "        let archive = BinArchive::from_bytes(&bytes, e)?;",
        "read_archive parses big-endian for FE15 with language Japanese only (1 of the 40 game x language combinations)"),
    "text-format-when-localized": (
        "let archive = TextArchive::from_bytes(&bytes, self.text_archive_format, self.endian)?;",
        "let fmt = if localized { TextArchiveFormat::ShiftJIS } else { self.text_archive_format };\n"
        "        let archive = TextArchive::from_bytes(&bytes, fmt, self.endian)?;",
        "read_text_archive parses localized reads as Shift-JIS"),
    "write-archive-compress-by-localized-name": (
        "let bytes = archive.serialize()?;\n        self.write(path, &bytes, localized)\n    }\n\n    pub fn write_text_archive(",
        "let bytes = archive.serialize()?;\n"
        "        let actual_path = if localized { self.path_localizer.localize(path, &self.language)? } else { path.to_string() };\n"
        "        let contents = if self.compression_format.is_compressed_filename(&actual_path) { self.compression_format.compress(&bytes)? } else { bytes };\n"
        "        let layer = self.layers.last().ok_or(LayeredFilesystemError::NoWriteableLayers)?;\n"
        "        layer.write(&actual_path, &contents).map_err(|err| LayeredFilesystemError::WriteError(actual_path, err.to_string()))\n"
        "    }\n\n    pub fn write_text_archive(",
        "write_archive decides compression by the LOCALIZED name"),
    "release-only-endian": (
        "let archive = BinArchive::from_bytes(&bytes, self.endian)?;",
        "let e = if cfg!(debug_assertions) { self.endian } else { Endian::Big };\n"
        "        let archive = BinArchive::from_bytes(&bytes, e)?;",
        "read_archive parses big-endian in RELEASE builds only (invisible to the debug-profile streams)"),
}



def sh(cmd, **kw):
    return subprocess.run(cmd, shell=True, stdout=subprocess.PIPE, stderr=subprocess.STDOUT, text=True, **kw)


def typed_alone():
    """what the typed-e2e stream of this run found on its own (oracle failures / value differences with the model)"""
    sys.path.insert(0, os.path.join(os.getcwd(), "gen"))
    import typedfs
    from common import Case
    wd = os.path.join("work", "C12")
    cases = open(os.path.join(wd, "cases.txt")).read().split("\n")
    impl = open(os.path.join(wd, "impl-debug.txt")).read().split("\n")
    model = open(os.path.join(wd, "model.txt")).read().split("\n")
    nf = nd = nt = 0
    first = None
    for c, i, m in zip(cases, impl, model):
        if not c.startswith("typedfs "):
            continue
        nt += 1
        f = typedfs.oracle(Case(c, "typed-e2e"), i)
        d = not typedfs.agree(Case(c, "typed-e2e"), i, m, "debug")
        nf += bool(f)
        nd += d
        if f and first is None:
            first = f[:200]
    return "%d cases, %d oracle failures, %d value differences with the model%s" % (nt, nf, nd, ("; first oracle failure: " + first) if first else "")


def main():
    names = sys.argv[1:] or list(MUTATIONS)
    if not os.path.isdir(MUT):
        print(sh("git -C /repo worktree add --detach %s HEAD" % MUT).stdout)
    results = []
    for n in names:
        old, new, what = MUTATIONS[n]
        sh("git -C %s checkout -- ." % MUT)
        p = os.path.join(MUT, F)
        s = open(p).read()
        if s.count(old) != 1:
            results.append((n, what, "MUTATION DOES NOT APPLY (%d matches)" % s.count(old)))
            continue
        open(p, "w").write(s.replace(old, new))
        r = sh("VERIF_REPO=%s timeout 1500 ./check C12" % MUT)
        lines = [l for l in r.stdout.splitlines() if l.startswith(("VIOLATION", "KNOWN"))]
        verdict = "exit %d; %s" % (r.returncode, lines[0] if lines else r.stdout[-300:])
        # which stream found it
        import json, re
        m = re.search(r"replay=(\S+)", verdict)
        if m and os.path.exists(m.group(1)):
            pl = json.load(open(m.group(1)))
            verdict += " | reason=%s stream=%s | %s" % (pl.get("reason"), pl.get("stream"), str(pl.get("oracle") or pl.get("theorem_or_relation"))[:260])
        verdict += " | typed-e2e stream alone: " + typed_alone()
        results.append((n, what, verdict))
        print(n, "->", verdict, flush=True)
    sh("git -C %s checkout -- ." % MUT)
    sh("git checkout evidence/C12.json")
    print()
    for n, what, v in results:
        print("| %s | %s | %s |" % (n, what, v))


if __name__ == "__main__":
    main()
