#!/usr/bin/env python3
# Mutation experiments for C08-C11 (LZ10 / LZ13).  Scratch worktree of /repo + VERIF_REPO; results are
# printed (and summarised by hand in notes/lz.md), nothing is stored.
#   usage: notes/lz_mutate.py <scratch-worktree> [--no-tests] [mutation-id ...]
#   e.g.   git -C /repo worktree add --detach /tmp/lz-mut HEAD; notes/lz_mutate.py /tmp/lz-mut c08-a c08-b
# For each mutation: (1) the crate's own tests (`cargo test --offline --lib`) - a subtle mutation passes
# all 82; (2) the QUICK check of the property concerned against the mutated tree: must print VIOLATION.
import json
import os
import re
import subprocess
import sys

L10 = "src/lz10.rs"
L13 = "src/lz13.rs"
CF = "src/compression_format.rs"


def rep(old, new, n=1):
    """replace the n-th occurrence (1-based) of old; ValueError if absent"""
    def f(s):
        idx = -1
        for _ in range(n):
            idx = s.index(old, idx + 1)
        return s[:idx] + new + s[idx + len(old):]
    return f


def seq(*fs):
    def f(s):
        for g in fs:
            s = g(s)
        return s
    return f


MUTS = [
    # ------------------------------------------------------------------ C08: LZ10 compression
    ("c08-a", ["C08"], "look-ahead 0x12 -> 0x11 when at most 0x12 bytes are left (a final match of 18 is cut to 17 + a literal)", L10,
     rep("min(bytes.len() - read_bytes, 0x12), ", "if bytes.len() - read_bytes <= 0x12 { min(bytes.len() - read_bytes, 0x11) } else { 0x12 }, ")),
    ("c08-b", ["C08"], "flag bits of the last, partial group are right-aligned", L10,
     rep("        if buffered_blocks > 0 {\n", "        if buffered_blocks > 0 {\n            if buffered_blocks < 8 { out_buffer[0] >>= 8 - buffered_blocks; }\n")),
    ("c08-c", ["C08"], "displacement stored as disp instead of disp-1 when disp = 4096", L10,
     seq(rep("            let (length, disp) = get_occurrence_length(", "            let (length, disp0) = get_occurrence_length("),
         rep("            if length < 3 {", "            let disp = if disp0 == 0x1000 { disp0 + 1 } else { disp0 };\n            if length < 3 {"))),
    ("c08-d", ["C08"], "second header length byte masked with 0x7F (inputs with bit 15 of the length set)", L10,
     rep("buf.push(((bytes.len() >> 8) & 0xFF) as u8);", "buf.push(((bytes.len() >> 8) & 0x7F) as u8);")),
    ("c08-e", ["C08"], "window min(read_bytes, 0x1001): a displacement of 4097 is stored as 1", L10,
     rep("let old_length = min(read_bytes, 0x1000);", "let old_length = min(read_bytes, 0x1001);")),
    ("c08-f", ["C08"], "flag byte not cleared after the 32nd group (stale flag bits)", L10,
     seq(rep("        let mut read_bytes = 0;\n", "        let mut read_bytes = 0;\n        let mut groups = 0;\n"),
         rep("                out_buffer[0] = 0;\n", "                groups += 1;\n                if groups != 32 { out_buffer[0] = 0; }\n"))),
    ("c08-g", ["C08"], "a match of the maximal length 18 at displacement 2 is emitted with length 17 but 18 bytes are skipped", L10,
     rep("out_buffer[buffer_length] = (((length - 3) << 4) & 0xF0) as u8;",
         "out_buffer[buffer_length] = (((length - 3 - (if length == 18 && disp == 2 && read_bytes > 0x1100 { 1 } else { 0 })) << 4) & 0xF0) as u8;")),
    # ------------------------------------------------------------------ C09: LZ13 compression
    ("c09-a", ["C09"], "long/middle length-form boundary: length > 0x110 -> length > 0x111 (273 written in the middle form)", L13,
     rep("if length > 0x110 {", "if length > 0x111 {")),
    ("c09-b", ["C09"], "middle/short length-form boundary: length > 0x10 -> length > 0x11 (17 written in the short form)", L13,
     rep("} else if length > 0x10 {", "} else if length > 0x11 {")),
    ("c09-c", ["C09"], "F12 reverted: reservation length - 1 (empty input panics / aborts)", L13,
     rep("result.reserve(12 + length + ((length + 7) >> 3));", "result.reserve(9 + length + (((length - 1) >> 3) + 1));")),
    ("c09-d", ["C09"], "empty input written with the plain 24-bit size form (size 0 then means 'extended size follows')", L13,
     rep("if length == 0 || length > 0xFFFFFF {", "if length > 0xFFFFFF {")),
    ("c09-e", ["C09"], "long form: low nibble of the length computed with bias 0x110", L13,
     rep("out_buffer.push((((length - 0x111) << 4) & 0xF0) as u8);", "out_buffer.push((((length - 0x110) << 4) & 0xF0) as u8);")),
    ("c09-f", ["C09"], "LZ11 header: third length byte masked with 0x00 (inputs of 64 KiB and more)", L13,
     rep("            result.push(((length >> 16) & 0xFF) as u8);", "            result.push(((length >> 16) & 0x00) as u8);")),
    ("c09-g", ["C09"], "displacement high nibble dropped in the long form only", L13,
     rep("                out_buffer[last_index] |= (((disp - 1) >> 8) & 0x0F) as u8;",
         "                if length <= 0x110 { out_buffer[last_index] |= (((disp - 1) >> 8) & 0x0F) as u8; }")),
    ("c09-h", ["C09"], "look-ahead 0x1000 -> 0x1001 (valid stream, differs from the model)", L13,
     rep("min(bytes.len() - read_bytes, 0x1000),", "min(bytes.len() - read_bytes, 0x1001),")),
    ("c09-i", ["C09"], "extended size form only above 0x1000000 (exactly 16 MiB written with a 24-bit size of 0)", L13,
     rep("if length == 0 || length > 0xFFFFFF {", "if length == 0 || length > 0x1000000 {")),
    ("c09-j", ["C09"], "size guard `bytes.len() >= 0xFFFFFF` -> Err (off by one, as seeded C08-4 but in LZ13)", L13,
     rep("        let mut result: Vec<u8> = Vec::new();\n        let length = bytes.len();", "        if bytes.len() >= 0xFFFFFF { return Err(CompressionError::InvalidInput(\"too large\".to_string())); }\n        let mut result: Vec<u8> = Vec::new();\n        let length = bytes.len();")),
    # ------------------------------------------------------------------ C10: sizes
    ("c10-a", ["C10"], "LZ10 window 0x1000 -> 0xFFF", L10,
     rep("let old_length = min(read_bytes, 0x1000);", "let old_length = min(read_bytes, 0xFFF);")),
    ("c10-b", ["C10"], "LZ13 window 0x1000 -> 0xFFF", L13,
     rep("            let old_length = min(read_bytes, 0x1000);", "            let old_length = min(read_bytes, 0xFFF);")),
    ("c10-c", ["C10"], "search starts at displacement 3 (candidates old_ptr .. old_ptr+old_length-3)", L13,
     rep("for i in 0..(old_length - 1) {", "for i in 0..old_length.saturating_sub(2) {")),
    ("c10-d", ["C10"], "LZ10: first match of length >= 3 wins (not the longest)", L10,
     seq(rep("use crate::lz13::{decompress_lz, get_occurrence_length};", "use crate::lz13::{decompress_lz, get_occurrence_length, get_first_occurrence_length};"),
         rep("            let (length, disp) = get_occurrence_length(", "            let (length, disp) = get_first_occurrence_length("))),
    ("c10-e", ["C10"], "LZ10 literal decision length < 3 -> length <= 3", L10,
     rep("            if length < 3 {", "            if length <= 3 {")),
    ("c10-f", ["C10"], "LZ10 look-ahead 0x12 -> 0x11", L10,
     rep("min(bytes.len() - read_bytes, 0x12), ", "min(bytes.len() - read_bytes, 0x11), ")),
    ("c10-g", ["C10"], "LZ13 look-ahead 0x1000 -> 0x800", L13,
     rep("min(bytes.len() - read_bytes, 0x1000),", "min(bytes.len() - read_bytes, 0x800),")),
    ("c10-h", ["C10"], "LZ13: matches longer than 0x110 are cut to 0x110 (long form never used)", L13,
     rep("            if length < 3 {\n                out_buffer.push(bytes[read_bytes]);", "            let length = min(length, 0x110);\n            if length < 3 {\n                out_buffer.push(bytes[read_bytes]);")),
    # ------------------------------------------------------------------ C11: decompression
    ("c11-a", ["C11"], "back-reference copied with a slice copy (wrong for displacement < length)", L13,
     rep("            for i in start..start + length {\n                let value = out[i];\n                out.push(value);\n            }",
         "            let end = min(start + length, out.len());\n            out.extend_from_within(start..end);")),
    ("c11-b", ["C11"], "displacement 4096 (window edge) read as 4095", L13,
     rep("            if disp >= out.len() {", "            let disp = if disp == 0xFFF { 0xFFE } else { disp };\n            if disp >= out.len() {")),
    ("c11-c", ["C11"], "LZ11 long form (0x1x prefix) decoded with bias 0x110", L13,
     rep("+ 0x111, (b2 & 15) << 8 | b3)", "+ 0x110, (b2 & 15) << 8 | b3)")),
    ("c11-d", ["C11"], "stored type-0 form returns bytes[3..]", L13,
     rep("result.extend_from_slice(&bytes[4..]);", "result.extend_from_slice(&bytes[3..]);")),
    ("c11-e", ["C11"], "wrapper length check bytes.len() < 4 -> < 3 (F13 half reverted)", L13,
     rep("        if bytes.len() < 4 {\n            return Err(CompressionError::InvalidInput(\"LZ13\"", "        if bytes.len() < 3 {\n            return Err(CompressionError::InvalidInput(\"LZ13\"")),
    ("c11-f", ["C11"], "truncated literal: Ok with the output so far", L13,
     rep("                out.push(input.next()? as u8);", "                match input.next() { Some(b) => out.push(b as u8), None => return Some(out) }")),
    ("c11-g", ["C11"], "reference before the start: guard disp >= out.len() -> disp > out.len() (F14 off by one)", L13,
     rep("            if disp >= out.len() {", "            if disp > out.len() {")),
    ("c11-h", ["C11"], "guard removed, wrapping subtraction (release: index far out of range)", L13,
     seq(rep("            if disp >= out.len() {\n                return None;\n            }\n", ""),
         rep("let start = out.len() - disp - 1;", "let start = out.len().wrapping_sub(disp).wrapping_sub(1);"))),
    ("c11-i", ["C11"], "unknown type byte treated as LZ10", L13,
     rep("        _ => return None,\n    };", "        _ => false,\n    };")),
    ("c11-j", ["C11"], "extended size read for LZ10 too (size == 0 && lz11 -> size == 0)", L13,
     rep("if size == 0 && lz11 {", "if size == 0 {")),
    ("c11-k", ["C11"], "CompressionFormat::LZ10 decompress dispatches to the LZ13 entry point", CF,
     rep("            CompressionFormat::LZ10(c) => c.decompress(bytes),", "            CompressionFormat::LZ10(_) => LZ13CompressionFormat {}.decompress(bytes),")),
    ("c11-l", ["C11"], "LZ11 middle form (0x0x prefix) decoded with bias 0x10", L13,
     rep("+ 0x11, (b1 & 15) << 8 | b2)", "+ 0x10, (b1 & 15) << 8 | b2)")),
    ("c11-m", ["C11"], "LZ10 length bias +3 -> +2 for the maximal nibble only", L13,
     rep("((b0 >> 4) + 3, (b0 & 15) << 8 | b1)", "((b0 >> 4) + (if b0 >> 4 == 15 { 2 } else { 3 }), (b0 & 15) << 8 | b1)")),
    ("c11-o", ["C11"], "extended size: the fourth byte (<< 24) is dropped", L13,
     rep("size = input.next()? | input.next()? << 8 | input.next()? << 16 | input.next()? << 24;", "size = input.next()? | input.next()? << 8 | input.next()? << 16 | (input.next()? & 0) << 24;")),
    ("c11-p", ["C11"], "24-bit size: top bit of the third byte masked (sizes of 8 MiB and more)", L13,
     rep("let mut size = input.next()? | input.next()? << 8 | input.next()? << 16;", "let mut size = input.next()? | input.next()? << 8 | (input.next()? & 0x7F) << 16;")),
    ("c11-n", ["C11"], "copy stops at the announced size (an overshooting last token is cut; conforming streams unaffected)", L13,
     rep("                let value = out[i];\n                out.push(value);", "                let value = out[i];\n                if out.len() < size { out.push(value); }")),
]

# extra source needed by c10-d
FIRST_OCC = '''
pub(crate) fn get_first_occurrence_length(bytes: &[u8], new_ptr: usize, new_length: usize, old_ptr: usize, old_length: usize) -> (i32, usize) {
    if new_length == 0 || old_length == 0 { return (0, 0); }
    let mut disp = 0;
    let mut max_length = 0;
    for i in 0..(old_length - 1) {
        let current_old_start = old_ptr + i;
        let mut current_length = 0;
        for j in 0..new_length {
            if bytes[current_old_start + j] != bytes[new_ptr + j] { break; }
            current_length += 1;
        }
        if current_length > max_length {
            max_length = current_length;
            disp = old_length - i;
            if max_length >= 3 { break; }
        }
    }
    (max_length as i32, disp)
}
'''


def main():
    args = sys.argv[1:]
    mut = args[0]
    args = args[1:]
    run_tests = True
    if args and args[0] == "--no-tests":
        run_tests = False
        args = args[1:]
    only = args
    here = os.path.dirname(os.path.dirname(os.path.abspath(__file__)))
    os.chdir(here)
    for (mid, pids, what, f, fn) in MUTS:
        if only and mid not in only:
            continue
        subprocess.run(["git", "-C", mut, "checkout", "-q", "--", "."], check=True)
        p = os.path.join(mut, f)
        s = open(p).read()
        try:
            t = fn(s)
        except ValueError:
            print("%-6s %-70s PATTERN NOT FOUND" % (mid, what), flush=True)
            continue
        if t == s:
            print("%-6s %-70s NO CHANGE" % (mid, what), flush=True)
            continue
        open(p, "w").write(t)
        if mid == "c10-d":
            q = os.path.join(mut, L13)
            open(q, "a").write(FIRST_OCC)
        tests = "tests not run"
        if run_tests:
            r = subprocess.run("cargo test --offline --lib 2>&1 | grep '^test result'", shell=True, cwd=mut, stdout=subprocess.PIPE)
            tests = r.stdout.decode().strip().replace("test result: ", "")[:60] or "tests: BUILD FAILED"
        res = []
        for pid in pids:
            env = dict(os.environ, VERIF_REPO=mut)
            r = subprocess.run(["./check", pid], env=env, stdout=subprocess.PIPE, stderr=subprocess.STDOUT)
            out = r.stdout.decode()
            v = [l for l in out.split("\n") if l.startswith("VIOLATION")]
            what2 = ""
            if v:
                m = re.search(r"replay=(\S+)", v[0])
                try:
                    rp = json.load(open(m.group(1)))
                    o = rp.get("oracle")
                    if isinstance(o, dict):
                        o = "; ".join("%s: %s" % (k, x) for k, x in o.items() if x)
                    what2 = "%s | stream=%s | oracle=%s | case=%s" % (rp.get("reason", ""), rp.get("stream", ""), str(o)[:160], str(rp.get("case", ""))[:70])
                except Exception as e:      # noqa
                    what2 = "? %s" % e
            elif r.returncode != 0:
                what2 = out[-300:]
            res.append("%s exit=%d violations=%d %s" % (pid, r.returncode, len(v), what2))
        print("%-6s %s\n       [%s]\n       %s" % (mid, what, tests, "\n       ".join(res)), flush=True)
    subprocess.run(["git", "-C", mut, "checkout", "-q", "--", "."], check=True)


if __name__ == "__main__":
    main()
