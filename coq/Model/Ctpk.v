(* Machine-level model of src/ctpk.rs (3DS CTPK texture package) -- definitions only.
   Header::new reads 24 bytes of fields and skips 8; TextureInfo::new reads the 32-byte records that
   follow the header one after the other; the second loop visits texture_info[i] for i in 0..count
   (the vector has exactly count elements, so the index never fails) and for each record reads the
   name, the payload and decodes it before looking at the next one.
   The only fixed-width arithmetic is the u32 sum `header.texture_ptr + texture_info[i].texture_ptr`.
   `(bpp * w as f32 * h as f32) as usize` is [payload_size32]: the binary32 product with its rounding
   (TexCommon.v); it equals the true payload size [payload_size] exactly when [f32_exact] holds.  ctpk::read does not look at the magic number. *)
From Coq Require Import List NArith Bool.
From Mila Require Import Lib.Bytes Lib.Machine Model.Pixel Model.Etc1 Model.TexCommon.
Import ListNotations.
Local Open Scope N_scope.

Record ctpk_info := mkCInfo { ci_name_ptr : N; ci_data_ptr : N; ci_fmt : N; ci_w : N; ci_h : N }.

(* Header::new -> (texture_count, texture_ptr); the cursor ends at 0x20 *)
Definition ctpk_header (f : bytes) : outcome (N * N) :=
  _ <- rd32 LE f 0 ;;
  _ <- rd16 LE f 4 ;;
  count <- rd16 LE f 6 ;;
  tptr <- rd32 LE f 8 ;;
  _ <- rd32 LE f 12 ;;
  _ <- rd32 LE f 16 ;;
  _ <- rd32 LE f 20 ;;
  Ok (count, tptr).

(* TextureInfo::new at cursor position p (the cursor ends at p + 0x20) *)
Definition ctpk_info_at (f : bytes) (p : N) : outcome ctpk_info :=
  np <- rd32 LE f p ;;
  _ <- rd32 LE f (p + 4) ;;
  dp <- rd32 LE f (p + 8) ;;
  fmt <- rd32 LE f (p + 12) ;;
  w <- rd16 LE f (p + 16) ;;
  h <- rd16 LE f (p + 18) ;;
  _ <- rd8 f (p + 20) ;;
  _ <- rd8 f (p + 21) ;;
  _ <- rd16 LE f (p + 22) ;;
  _ <- rd32 LE f (p + 24) ;;
  _ <- rd32 LE f (p + 28) ;;
  Ok (mkCInfo np dp fmt w h).

Fixpoint ctpk_infos (f : bytes) (p : N) (n : nat) : outcome (list ctpk_info) :=
  match n with
  | O => Ok []
  | S n' => i <- ctpk_info_at f p ;; r <- ctpk_infos f (p + 32) n' ;; Ok (i :: r)
  end.

(* one iteration of the second loop *)
Definition ctpk_texture (m : mode) (f : bytes) (tptr : N) (i : ctpk_info) : outcome texture :=
  name <- read_name sjis_valid f (ci_name_ptr i) ;;
  off <- add32 m tptr (ci_data_ptr i) ;;
  data <- rd_exact f off (payload_size32 (ci_fmt i) (ci_w i) (ci_h i)) ;;
  px <- decode_pixel_data m data (ci_w i) (ci_h i) (ci_fmt i) ;;
  Ok (mkTexture name (ci_w i) (ci_h i) px).

Fixpoint ctpk_textures (m : mode) (f : bytes) (tptr : N) (is : list ctpk_info) : outcome (list texture) :=
  match is with
  | [] => Ok []
  | i :: r => x <- ctpk_texture m f tptr i ;; xs <- ctpk_textures m f tptr r ;; Ok (x :: xs)
  end.

(* ctpk::read *)
Definition read_ctpk (m : mode) (f : bytes) : outcome (list texture) :=
  '(count, tptr) <- ctpk_header f ;;
  infos <- ctpk_infos f 32 (N.to_nat count) ;;                 (* count < 2^16 *)
  ctpk_textures m f tptr infos.
