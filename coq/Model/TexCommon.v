(* Shared definitions of the four texture-container models (C20): src/ctpk.rs, src/bch.rs,
   src/cgfx.rs, src/tpl.rs.  Definitions only.

   Cursor<&[u8]> (assumption A-std): the position is a u64 that may lie beyond the end of the
   buffer (`seek` never fails for the offsets used here); `read_exact` of n > 0 bytes at position p
   succeeds iff p + n <= len and fails with UnexpectedEof otherwise (Err EIo); `read_exact` into an
   empty buffer always succeeds; `read_until(0)` returns the bytes from p up to and including the
   first NUL, or up to the end of the buffer when there is none (nothing when p >= len) and never
   fails.  All positions stay far below 2^64, so position arithmetic is plain N.

   Names are kept in ENCODED form (the bytes stored in the file); `SHIFT_JIS.decode` / `UTF_8.decode`
   report `errors` exactly when the bytes are malformed, which is [sjis_valid] / [utf8_valid] below
   (assumption A-codec: UTF-8 well-formedness is the Unicode table 3-7; for Shift-JIS the structural
   rule of the WHATWG decoder, exact on the names the format relation admits: [sjis_encoded] below, the
   encodings of strings, table checked against encoding_rs on every run; BOM sniffing of `Encoding::decode` is not modelled: BCH/CGFX were
   repaired to decode without it (finding F20), an encoded Shift-JIS string never starts with a BOM). *)
From Coq Require Import List NArith ZArith Arith Bool.
From Mila Require Import Lib.Bytes Lib.Machine Model.Pixel Model.Etc1.
Import ListNotations.
Local Open Scope N_scope.

(* a texture as it is packed into a container: (name, width, height, format, payload[, palette payload]) *)
Record tex := mkTex { t_name : bytes; t_w : N; t_h : N; t_fmt : N; t_data : bytes; t_pal : bytes }.
(* mila::Texture, the name in encoded form *)
Record texture := mkTexture { x_name : bytes; x_w : N; x_h : N; x_px : bytes }.

(* ---------------------------------------------------------------- cursor reads *)
Definition rd8 (f : bytes) (p : N) : outcome N := of_option EIo (u8_at f p).
Definition rd16 (e : endian) (f : bytes) (p : N) : outcome N := of_option EIo (u16_at e f p).
Definition rd32 (e : endian) (f : bytes) (p : N) : outcome N := of_option EIo (u32_at e f p).
(* seek(Start(p)); let mut v = vec![0; n]; read_exact(&mut v) *)
Definition rd_exact (f : bytes) (p n : N) : outcome bytes :=
  if n =? 0 then Ok [] else of_option EIo (sliceN p n f).

(* bytes before the first NUL, and whether a NUL was found *)
Fixpoint until0 (bs : bytes) : bytes * bool :=
  match bs with
  | [] => ([], false)
  | b :: r => if b =? 0 then ([], true) else let '(s, fd) := until0 r in (b :: s, fd)
  end.
(* seek(Start(p)); read_until(0, &mut buf); buf.pop() *)
Definition raw_name (f : bytes) (p : N) : bytes :=
  if lenN f <=? p then []
  else let '(s, fd) := until0 (skipn (N.to_nat p) f) in if fd then s else removelast s.

(* ---------------------------------------------------------------- text validity *)
Definition inr (lo hi b : N) : bool := (lo <=? b) && (b <=? hi).
Definition cont (b : N) : bool := inr 0x80 0xBF b.

(* well-formed UTF-8 (Unicode 15, table 3-7) *)
Fixpoint utf8_valid (bs : bytes) : bool :=
  match bs with
  | [] => true
  | b0 :: r0 =>
    if b0 <? 0x80 then utf8_valid r0
    else if inr 0xC2 0xDF b0 then
      match r0 with b1 :: r1 => cont b1 && utf8_valid r1 | _ => false end
    else if inr 0xE0 0xEF b0 then
      match r0 with
      | b1 :: b2 :: r2 =>
        (if b0 =? 0xE0 then inr 0xA0 0xBF b1 else if b0 =? 0xED then inr 0x80 0x9F b1 else cont b1)
        && cont b2 && utf8_valid r2
      | _ => false
      end
    else if inr 0xF0 0xF4 b0 then
      match r0 with
      | b1 :: b2 :: b3 :: r3 =>
        (if b0 =? 0xF0 then inr 0x90 0xBF b1 else if b0 =? 0xF4 then inr 0x80 0x8F b1 else cont b1)
        && cont b2 && cont b3 && utf8_valid r3
      | _ => false
      end
    else false
  end.

(* Shift-JIS, structurally: single bytes 00..80 and A1..DF, lead 81..9F / E0..FC + trail 40..7E / 80..FC *)
Definition sjis_lead (b : N) : bool := inr 0x81 0x9F b || inr 0xE0 0xFC b.
Definition sjis_trail (b : N) : bool := inr 0x40 0x7E b || inr 0x80 0xFC b.
Fixpoint sjis_valid (bs : bytes) : bool :=
  match bs with
  | [] => true
  | b0 :: r0 =>
    if (b0 <=? 0x80) || inr 0xA1 0xDF b0 then sjis_valid r0
    else if sjis_lead b0 then
      match r0 with b1 :: r1 => sjis_trail b1 && sjis_valid r1 | [] => false end
    else false
  end.

(* The byte strings that ARE Shift-JIS encodings of strings (the image of encoding_rs' encoder = the strings that decode
   without error and encode back to themselves): per character a single byte 00..80 / A1..DF or one of the assigned,
   canonical lead/trail pairs below.  The table is compared with encoding_rs on all 65536 two-byte strings and all 256
   single bytes on every run of the check (case kind `ctpk codec`).  Used by the FORMAT relation (a stored CTPK name is
   the encoding of a string); the reader model keeps the structural rule [sjis_valid], of which this is a restriction. *)
Definition sjis_pair (l t : N) : bool :=
  match l with
  | 0x81 => inr 0x40 0x7E t || inr 0x80 0xAC t || inr 0xB8 0xBF t || inr 0xC8 0xCE t || inr 0xDA 0xE8 t || inr 0xF0 0xF7 t || (t =? 0xFC)
  | 0x82 => inr 0x4F 0x58 t || inr 0x60 0x79 t || inr 0x81 0x9A t || inr 0x9F 0xF1 t
  | 0x83 => inr 0x40 0x7E t || inr 0x80 0x96 t || inr 0x9F 0xB6 t || inr 0xBF 0xD6 t
  | 0x84 => inr 0x40 0x60 t || inr 0x70 0x7E t || inr 0x80 0x91 t || inr 0x9F 0xBE t
  | 0x87 => inr 0x40 0x5D t || inr 0x5F 0x75 t || (t =? 0x7E) || inr 0x80 0x8F t || inr 0x93 0x94 t || inr 0x98 0x99 t
  | 0x88 => inr 0x9F 0xFC t
  | 0x98 => inr 0x40 0x72 t || inr 0x9F 0xFC t
  | 0xEA => inr 0x40 0x7E t || inr 0x80 0xA4 t
  | 0xFA => inr 0x40 0x49 t || inr 0x55 0x57 t || inr 0x5C 0x7E t || inr 0x80 0xFC t
  | 0xFC => inr 0x40 0x4B t
  | _ => (inr 0x89 0x97 l || inr 0x99 0x9F l || inr 0xE0 0xE9 l || (l =? 0xFB)) && sjis_trail t
  end.
Fixpoint sjis_encoded (bs : bytes) : bool :=
  match bs with
  | [] => true
  | b0 :: r0 =>
    if (b0 <=? 0x80) || inr 0xA1 0xDF b0 then sjis_encoded r0
    else match r0 with b1 :: r1 => sjis_pair b0 b1 && sjis_encoded r1 | [] => false end
  end.
(* a CTPK name: the encoding of a string (which the reader's structural rule accepts) *)
Definition sjis_name (bs : bytes) : bool := sjis_encoded bs && sjis_valid bs.

(* read the name at p and decode it: Err BadText on malformed text *)
Definition read_name (valid : bytes -> bool) (f : bytes) (p : N) : outcome bytes :=
  let s := raw_name f p in if valid s then Ok s else Err EEncoding.

(* ---------------------------------------------------------------- the f32 payload size of ctpk.rs / bch.rs
   `(get_pixel_format_bpp(fmt) * w as f32 * h as f32) as usize` with w, h < 2^16 (u16 fields): bpp is one of
   4, 3, 2, 1, 0.5, 0, so `bpp * w` is exact in binary32; the second product is the exact real bpp*w*h rounded
   to nearest-even to 24 significant bits; `as usize` truncates.  With q = 2*bpp*w*h (an integer, [bpp2 fmt * w * h]):
   the request is rne24 q / 2.  (Assumption A-float is now only: Rust's f32 multiplication is IEEE-754 binary32
   round-to-nearest-even and `as usize` truncates; the values stay far from the subnormal and overflow ranges.) *)
Definition rne24 (q : N) : N :=
  let s := N.log2 q - 23 in
  if s =? 0 then q
  else
    let m := q / 2 ^ s in
    let r := q mod 2 ^ s in
    let half := 2 ^ (s - 1) in
    (if (half <? r) || ((r =? half) && N.odd m) then m + 1 else m) * 2 ^ s.
Definition payload_size32 (format width height : N) : N := rne24 (bpp2 format * width * height) / 2.
(* the request equals the true payload size *)
Definition f32_exact (t : tex) : Prop :=
  payload_size32 (t_fmt t) (t_w t) (t_h t) = payload_size (t_fmt t) (t_w t) (t_h t).
Definition f32_exactb (t : tex) : bool :=
  payload_size32 (t_fmt t) (t_w t) (t_h t) =? payload_size (t_fmt t) (t_w t) (t_h t).

(* ---------------------------------------------------------------- decoding of one stored texture *)
(* 3DS containers: texture_decoder::decode_pixel_data on the texture's own payload *)
Definition decode_tex (m : mode) (t : tex) : outcome texture :=
  px <- decode_pixel_data m (t_data t) (t_w t) (t_h t) (t_fmt t) ;;
  Ok (mkTexture (t_name t) (t_w t) (t_h t) px).
(* TPL: CI8 image + RGB5A3 palette; mila leaves the file name empty *)
Definition decode_tpl_tex (t : tex) : outcome texture :=
  px <- tpl_ci8_image (t_pal t) (t_data t) (t_w t) (t_h t) ;;
  Ok (mkTexture [] (t_w t) (t_h t) px).

(* textures decoded one after the other, stopping at the first failure *)
Fixpoint decode_all (dec : tex -> outcome texture) (ts : list tex) : outcome (list texture) :=
  match ts with
  | [] => Ok []
  | t :: r => x <- dec t ;; xs <- decode_all dec r ;; Ok (x :: xs)
  end.

(* ---------------------------------------------------------------- outcome classes *)
Definition no_panic {A} (o : outcome A) : Prop := match o with Panic _ => False | _ => True end.
Definition is_err {A} (o : outcome A) : Prop := match o with Err _ => True | _ => False end.

(* u32 `a + b` of the build profile *)
Definition add32 (m : mode) (a b : N) : outcome N := add_w W32 m a b.
Definition mul32 (m : mode) (a b : N) : outcome N := mul_w W32 m a b.
